//go:build go1.21

package c09

import (
	"fmt"
	"reflect"
	"testing"

	mocker "github.com/tencent/goom"
	"github.com/tencent/goom/zzverif/vmon"
)

type evalErr struct{ key string }

func (e *evalErr) Error() string { return "eval error" }

func evalFlag(name string) interface{} { return name }

func evalLookup(key string) (interface{}, error) { return key, nil }

func evalCount(key string) (int, string) { return 0, "" }

// TestC09Eval: the values a stub was given, read back through When.Eval (the route table-driven helpers use without
// patching anything): each comes back with the value and the dynamic type it was given with - zero values of concrete
// types in interface results included, typed nil pointers in error results included; an untyped nil is nil.
func TestC09Eval(t *testing.T) {
	rep := vmon.NewReport("C09")
	defer rep.Write()
	type want struct {
		arg  string
		vals []interface{}
	}
	check := func(name string, w *mocker.When, ws []want) {
		for _, x := range ws {
			var got []interface{}
			var perr interface{}
			func() {
				defer func() { perr = recover() }()
				got = w.Eval(x.arg)
			}()
			rep.Eval(1)
			c := map[string]interface{}{"stub": name, "argument": x.arg}
			if perr != nil {
				rep.Violate("C09/eval-panics", fmt.Sprintf("%s: Eval(%q) panicked: %v", name, x.arg, perr), c)
				continue
			}
			ok := len(got) == len(x.vals)
			for i := 0; ok && i < len(got); i++ {
				ok = reflect.TypeOf(got[i]) == reflect.TypeOf(x.vals[i]) && reflect.DeepEqual(got[i], x.vals[i])
			}
			if !ok {
				rep.Violate("C09/eval-alters-the-value", fmt.Sprintf("%s: Eval(%q) = %s, the stub was given %s", name, x.arg, typed(got), typed(x.vals)), c)
			}
		}
		rep.Class("eval/" + name)
	}
	w1 := mocker.NewWhen(reflect.TypeOf(evalFlag))
	w1.Return("fallback").When("count").Return(0).When("name").Return("").When("debug").Return(false).When("one").Return(1).
		When("f").Return(0.0).When("nilp").Return((*evalErr)(nil)).When("nil").Return(nil).When("empty").Return([]int{})
	check("interface{} result", w1, []want{{"one", []interface{}{1}}, {"other", []interface{}{"fallback"}}, {"count", []interface{}{0}}, {"name", []interface{}{""}},
		{"debug", []interface{}{false}}, {"f", []interface{}{0.0}}, {"nilp", []interface{}{(*evalErr)(nil)}}, {"nil", []interface{}{nil}}, {"empty", []interface{}{[]int{}}}})
	w2 := mocker.NewWhen(reflect.TypeOf(evalLookup))
	w2.Return(nil, nil).When("typed").Return(0, (*evalErr)(nil)).When("err").Return("v", &evalErr{"k"})
	e := &evalErr{"k"}
	_ = e
	check("(interface{}, error) results", w2, []want{{"plain", []interface{}{nil, nil}}, {"typed", []interface{}{0, (*evalErr)(nil)}}, {"err", []interface{}{"v", &evalErr{"k"}}}})
	w3 := mocker.NewWhen(reflect.TypeOf(evalCount))
	w3.Return(5, "five").When("zero").Return(0, "")
	check("(int, string) results", w3, []want{{"x", []interface{}{5, "five"}}, {"zero", []interface{}{0, ""}}})
}

func typed(vs []interface{}) string {
	s := "["
	for i, v := range vs {
		if i > 0 {
			s += " "
		}
		s += fmt.Sprintf("%#v (%T)", v, v)
	}
	return s + "]"
}
