//go:build go1.21

// Package hid has types a test in another package cannot name.
package hid

type hidden struct {
	A int
	B string
	c float64
}

//go:noinline
func Get() hidden { return hidden{-1, "orig", -1} }

//go:noinline
func GetP() *hidden { return &hidden{-2, "origp", -2} }

//go:noinline
func Take(h hidden) int { return -3 }

//go:noinline
func TakeP(h *hidden) int { return -4 }

func Make(a int, b string, c float64) hidden { return hidden{a, b, c} }

func Fields(h hidden) (int, string, float64) { return h.A, h.B, h.c }

func FieldsP(h *hidden) (int, string, float64) { return h.A, h.B, h.c }

// deep is unnameable too, and so are the types of its fields: a stand-in has to copy them as well
type level int

type inner struct {
	X int
	Y string
}

type deep struct {
	L  level
	In inner
	P  *inner
	Fs []inner
}

//go:noinline
func GetDeep() deep { return deep{L: -1} }

//go:noinline
func GetDeepP() *deep { return &deep{L: -2} }

//go:noinline
func TakeDeep(d deep) int { return -5 }

func DeepFields(d deep) (int, int, string, int) {
	px := 0
	if d.P != nil {
		px = d.P.X
	}
	return int(d.L), d.In.X, d.In.Y, px + len(d.Fs)
}
