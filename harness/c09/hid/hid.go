//go:build go1.21

// Package hid has types a test in another package cannot name.
package hid

type hidden struct {
	A int
	B string
	c float64
}

//go:noinline
func Get() hidden { return hidden{-1, "orig", -1} }

//go:noinline
func GetP() *hidden { return &hidden{-2, "origp", -2} }

//go:noinline
func Take(h hidden) int { return -3 }

//go:noinline
func TakeP(h *hidden) int { return -4 }

func Make(a int, b string, c float64) hidden { return hidden{a, b, c} }

func Fields(h hidden) (int, string, float64) { return h.A, h.B, h.c }

func FieldsP(h *hidden) (int, string, float64) { return h.A, h.B, h.c }
