//go:build go1.21

package c09

import (
	"errors"
	"fmt"
	"reflect"
	"strings"
	"testing"
	"unsafe"

	mocker "github.com/tencent/goom"
	"github.com/tencent/goom/arg"
	"github.com/tencent/goom/zzverif/c09/hid"
	"github.com/tencent/goom/zzverif/vmon"
)

type S struct {
	A int
	B string
}
type MyErr struct{ Code int }

func (e *MyErr) Error() string { return fmt.Sprint("myerr ", e.Code) }

type ValErr struct{ Code int }

func (e ValErr) Error() string { return "valerr" }

type D int64
type Stringer interface{ String() string }
type Str string

func (s Str) String() string { return string(s) }

// stand-ins with the layout of hid.hidden
type standIn struct {
	A int
	B string
	C float64
}
type wrongSize struct {
	A int
	B string
}

//go:noinline
func RPtr() *S { return &S{-1, "o"} }

//go:noinline
func RIface() interface{} { return "orig" }

//go:noinline
func RErr() error { return errors.New("orig") }

//go:noinline
func RStringer() Stringer { return Str("orig") }

//go:noinline
func RSlice() []int { return []int{-1} }

//go:noinline
func RMap() map[string]int { return map[string]int{"o": -1} }

//go:noinline
func RChan() chan int { return make(chan int) }

//go:noinline
func RFunc() func() int { return func() int { return -1 } }

//go:noinline
func RStruct() S { return S{-1, "o"} }

//go:noinline
func RArr() [3]int { return [3]int{-1, -1, -1} }

//go:noinline
func RInt() int { return -1 }

//go:noinline
func RI8() int8 { return -1 }

//go:noinline
func RU64() uint64 { return 1 }

//go:noinline
func RF64() float64 { return -1 }

//go:noinline
func RStr() string { return "orig" }

//go:noinline
func RD() D { return -1 }

// structs that are a single pointer-like word (reflect stores such values directly in the interface word)
type PW struct{ P *S }
type MW struct{ M map[string]int }
type FW struct{ F func() int }
type CW struct{ C chan int }
type pwStand struct{ Q *S }
type mwStand struct{ X map[string]int }
type fwStand struct{ G func() int }
type cwStand struct{ D chan int }

//go:noinline
func RPW() PW { return PW{} }

//go:noinline
func RMW() MW { return MW{} }

//go:noinline
func RFW() FW { return FW{} }

//go:noinline
func RCW() CW { return CW{} }

//go:noinline
func PPW(p PW) int { return -1 }

//go:noinline
func PBig(id int64) int { return -1 }

//go:noinline
func RMulti() (int, error) { return -1, errors.New("orig") }

//go:noinline
func PPtr(p *S) int { return -1 }

//go:noinline
func PErr(e error) int { return -1 }

//go:noinline
func PFunc(f func() int) int { return -1 }

//go:noinline
func PSlice(s []int) int { return -1 }

//go:noinline
func PStructS(s S) int { return -1 }

type PA struct {
	X int
	Y string
}

type PB struct {
	X int
	Y string
}

//go:noinline
func TakeA(a PA) int { return -1 }

//go:noinline
func TakeB(b PB) int { return -1 }

//go:noinline
func TakeAP(a *PA) int { return -1 }

//go:noinline
func TakeBP(b *PB) int { return -1 }

//go:noinline
func PMap(m map[string]int) int { return -1 }

//go:noinline
func PPtrMap(p *S, m map[string]int) int { return -1 }

type exp int

const (
	deliver     exp = iota // the caller receives a value equal to the supplied one (dynamic type intact for interfaces)
	typedNil               // the caller receives the nil/zero value of the declared type
	reject                 // configuration must fail and leave the target unmocked
	unspecified            // statement fixes no outcome: only silent alteration is forbidden
)

type rcase struct {
	name   string
	fn     interface{}
	call   func() interface{}
	orig   func() bool // true if target currently behaves as original
	values []struct {
		v    interface{}
		want exp
		note string
	}
}

func vs(args ...interface{}) []struct {
	v    interface{}
	want exp
	note string
} {
	var out []struct {
		v    interface{}
		want exp
		note string
	}
	for i := 0; i+3 <= len(args); i += 3 {
		out = append(out, struct {
			v    interface{}
			want exp
			note string
		}{args[i], args[i+1].(exp), args[i+2].(string)})
	}
	return out
}

var theFunc = func() int { return 42 }
var theChan = make(chan int, 1)
var theS = &S{7, "seven"}

func cases() []rcase {
	return []rcase{
		{name: "*S", fn: RPtr, call: func() interface{} { return RPtr() }, orig: func() bool { return RPtr().A == -1 },
			values: vs(nil, typedNil, "untyped nil", (*S)(nil), typedNil, "typed nil", theS, deliver, "pointer", &S{}, deliver, "ptr to zero",
				&struct {
					A int
					B string
				}{3, "x"}, unspecified, "same-size pointer to identical layout", 5, unspecified, "int for pointer (same size)", int8(1), reject, "1-byte value for pointer", "str", reject, "16-byte value for pointer")},
		{name: "interface{}", fn: RIface, call: func() interface{} { return RIface() }, orig: func() bool { return RIface() == "orig" },
			values: vs(nil, typedNil, "untyped nil", 5, deliver, "int boxed", int8(5), deliver, "int8 boxed", "s", deliver, "string boxed", S{1, "a"}, deliver, "struct boxed", theS, deliver, "pointer boxed",
				(*S)(nil), deliver, "typed nil pointer boxed", 2.5, deliver, "float boxed", []int{1, 2}, deliver, "slice boxed", D(9), deliver, "named int boxed", [3]int{1, 2, 3}, deliver, "array boxed",
				[]interface{}{"alice"}, deliver, "[not Returns] one-element []interface{} boxed as it is", []interface{}{1, "b"}, deliver, "[not Returns] two-element []interface{} boxed as it is")},
		{name: "error", fn: RErr, call: func() interface{} { return RErr() }, orig: func() bool { return RErr() != nil && RErr().Error() == "orig" },
			values: vs(nil, typedNil, "untyped nil", &MyErr{3}, deliver, "pointer error", ValErr{4}, deliver, "value error", (*MyErr)(nil), deliver, "typed nil pointer in error", errors.New("e"), deliver, "errors.New")},
		{name: "Stringer", fn: RStringer, call: func() interface{} { return RStringer() }, orig: func() bool { return RStringer().String() == "orig" },
			values: vs(nil, typedNil, "untyped nil", Str("x"), deliver, "implementing value")},
		{name: "[]int", fn: RSlice, call: func() interface{} { return RSlice() }, orig: func() bool { return len(RSlice()) == 1 },
			values: vs(nil, typedNil, "untyped nil", []int(nil), typedNil, "typed nil slice", []int{}, deliver, "empty slice", []int{1, 2, 3}, deliver, "slice", 5, reject, "int for slice", "abc", reject, "string (16 bytes) for slice (24)")},
		{name: "map", fn: RMap, call: func() interface{} { return RMap() }, orig: func() bool { return RMap()["o"] == -1 },
			values: vs(nil, typedNil, "untyped nil", map[string]int(nil), typedNil, "typed nil map", map[string]int{"a": 1}, deliver, "map", "abc", reject, "string for map")},
		{name: "chan", fn: RChan, call: func() interface{} { return RChan() }, orig: func() bool { return RChan() != theChan },
			values: vs(nil, typedNil, "untyped nil", theChan, deliver, "chan", (chan int)(nil), typedNil, "typed nil chan")},
		{name: "func", fn: RFunc, call: func() interface{} { return RFunc() }, orig: func() bool { f := RFunc(); return f != nil && f() == -1 },
			values: vs(nil, typedNil, "untyped nil", theFunc, deliver, "func", (func() int)(nil), typedNil, "typed nil func")},
		{name: "S", fn: RStruct, call: func() interface{} { return RStruct() }, orig: func() bool { return RStruct().A == -1 },
			values: vs(S{}, deliver, "zero struct", S{5, "five"}, deliver, "struct", struct {
				A int
				B string
			}{6, "six"}, deliver, "layout-identical anonymous struct", wrongSize{1, "a"}, deliver, "layout-identical named struct", standIn{1, "a", 2}, reject, "bigger struct", 5, reject, "int for struct")},
		{name: "[3]int", fn: RArr, call: func() interface{} { return RArr() }, orig: func() bool { return RArr()[0] == -1 },
			values: vs([3]int{}, deliver, "zero array", [3]int{1, 2, 3}, deliver, "array", [2]int{1, 2}, reject, "shorter array", 5, reject, "int for array")},
		{name: "int", fn: RInt, call: func() interface{} { return RInt() }, orig: func() bool { return RInt() == -1 },
			values: vs(0, deliver, "zero", 7, deliver, "int", -1<<63, deliver, "min", int8(1), reject, "int8 for int", int32(1), reject, "int32 for int", "s", reject, "string for int",
				uint64(1<<63+5), unspecified, "uint64 for int (same size)", int64(9), unspecified, "int64 for int (same size)", 2.5, unspecified, "float64 for int (same size)")},
		{name: "int8", fn: RI8, call: func() interface{} { return RI8() }, orig: func() bool { return RI8() == -1 },
			values: vs(int8(0), deliver, "zero", int8(-128), deliver, "min", int8(127), deliver, "max", 1, reject, "int for int8", int16(1), reject, "int16 for int8", uint8(200), unspecified, "uint8 for int8", true, unspecified, "bool for int8")},
		{name: "uint64", fn: RU64, call: func() interface{} { return RU64() }, orig: func() bool { return RU64() == 1 },
			values: vs(uint64(0), deliver, "zero", ^uint64(0), deliver, "max", uint32(1), reject, "uint32 for uint64", 5, unspecified, "int for uint64")},
		{name: "float64", fn: RF64, call: func() interface{} { return RF64() }, orig: func() bool { return RF64() == -1 },
			values: vs(0.0, deliver, "zero", 2.5, deliver, "float", float32(2.5), reject, "float32 for float64", 5, unspecified, "int for float64")},
		{name: "string", fn: RStr, call: func() interface{} { return RStr() }, orig: func() bool { return RStr() == "orig" },
			values: vs("", deliver, "empty", "value", deliver, "string", Str("named"), unspecified, "named string", 5, reject, "int for string", []int{1}, reject, "slice for string", []byte("ab"), reject, "[]byte for string")},
		{name: "D", fn: RD, call: func() interface{} { return RD() }, orig: func() bool { return RD() == -1 },
			values: vs(D(0), deliver, "zero", D(77), deliver, "named", int64(5), unspecified, "int64 for named int64", int32(5), reject, "int32 for D")},
	}
}

func bitsOf(v interface{}) string {
	rv := reflect.ValueOf(v)
	if !rv.IsValid() {
		return "nil"
	}
	p := reflect.New(rv.Type())
	p.Elem().Set(rv)
	n := int(rv.Type().Size())
	b := unsafe.Slice((*byte)(p.UnsafePointer()), n)
	return fmt.Sprintf("%x", b)
}

func isTypedZero(got interface{}, t reflect.Type) bool {
	if t.Kind() == reflect.Interface {
		return got == nil
	}
	rv := reflect.ValueOf(got)
	return rv.IsValid() && rv.Type() == t && rv.IsZero()
}

func equalDelivered(got, want interface{}) (bool, string) {
	gv, wv := reflect.ValueOf(got), reflect.ValueOf(want)
	if !gv.IsValid() || !wv.IsValid() {
		return !gv.IsValid() && !wv.IsValid(), "nil-ness"
	}
	switch wv.Kind() {
	case reflect.Func, reflect.Chan, reflect.Map:
		if gv.Kind() != wv.Kind() {
			return false, "kind"
		}
		return gv.Pointer() == wv.Pointer(), "identity"
	case reflect.Ptr:
		if gv.Kind() != reflect.Ptr {
			return false, "kind"
		}
		return gv.Pointer() == wv.Pointer(), "pointer identity"
	case reflect.Slice:
		if gv.Kind() != reflect.Slice {
			return false, "kind"
		}
		return gv.Pointer() == wv.Pointer() && gv.Len() == wv.Len() && gv.Cap() == wv.Cap() && gv.IsNil() == wv.IsNil(), "slice header"
	}
	return bitsOf(got) == bitsOf(want), "memory image"
}

func TestC09(t *testing.T) {
	rep := vmon.NewReport("C09")
	defer rep.Write()
	for _, rc := range cases() {
		ft := reflect.TypeOf(rc.fn)
		rt := ft.Out(0)
		for _, val := range rc.values {
			for _, api := range []string{"Return", "Returns", "When().Return", "Return;Return"} {
				if api == "Returns" && strings.HasPrefix(val.note, "[not Returns]") {
					continue // Returns documents a []interface{} element as the tuple of one call's results
				}
				c := map[string]interface{}{"result_type": rc.name, "supplied": fmt.Sprintf("%T(%v)", val.v, val.v), "api": api, "note": val.note}
				rep.Journal(c)
				b := mocker.Create()
				var cerr interface{}
				func() {
					defer func() { cerr = recover() }()
					switch api {
					case "Return":
						b.Func(rc.fn).Return(val.v)
					case "Returns":
						b.Func(rc.fn).Returns(val.v, val.v)
					case "Return;Return":
						// a second Return statement (through a fresh lookup) goes through the existing stub
						b.Func(rc.fn).Return(val.v)
						b.Func(rc.fn).Return(val.v)
					default:
						b.Func(rc.fn).When().Return(val.v)
					}
				}()
				rep.Eval(1)
				expName := []string{"deliver", "typed-nil", "reject", "unspecified"}[val.want]
				rep.Class(fmt.Sprintf("%s/%s/%s", rc.name, expName, api))
				key := func(k string) string {
					if rc.name == "func" && val.v == nil {
						return "C09/nil-func-result"
					}
					return k
				}
				if cerr != nil {
					if val.want == deliver || val.want == typedNil {
						rep.Violate(key("C09/valid-value-rejected"), fmt.Sprintf("%s(%T %v) for result %s panicked: %v", api, val.v, val.v, rc.name, firstLine(cerr)), c)
					}
					// When() had already installed the (empty) stub before the rejected Return: granularity is one API call
					if api != "When().Return" && !safeOrig(rc.orig) {
						rep.Violate("C09/rejected-but-mocked", fmt.Sprintf("%s(%T) for result %s was rejected but the target no longer behaves as the original", api, val.v, rc.name), c)
					}
					b.Reset()
					if !safeOrig(rc.orig) {
						rep.Violate("C09/not-reset", fmt.Sprintf("result %s: target not original after Reset", rc.name), c)
					}
					continue
				}
				if val.want == reject {
					rep.Violate("C09/size-mismatch-accepted", fmt.Sprintf("%s(%T %v) for result %s (size %d vs %d) was accepted", api, val.v, val.v, rc.name, sizeOf(val.v), rt.Size()), c)
					b.Reset()
					continue
				}
				var got interface{}
				var perr interface{}
				func() {
					defer func() { perr = recover() }()
					got = rc.call()
				}()
				switch val.want {
				case typedNil:
					if perr != nil {
						rep.Violate(key("C09/call-panicked"), fmt.Sprintf("result %s stubbed with nil: call panicked: %v", rc.name, firstLine(perr)), c)
					} else if !isTypedZero(got, rt) {
						rep.Violate("C09/nil-not-typed-zero", fmt.Sprintf("result %s stubbed with %T(nil): caller got %T(%v)", rc.name, val.v, got, got), c)
					}
				case deliver:
					if perr != nil {
						rep.Violate("C09/call-panicked", fmt.Sprintf("result %s stubbed with %T: call panicked: %v", rc.name, val.v, firstLine(perr)), c)
						break
					}
					if rt.Kind() == reflect.Interface {
						if reflect.TypeOf(got) != reflect.TypeOf(val.v) {
							rep.Violate("C09/dynamic-type-lost", fmt.Sprintf("result %s stubbed with %T: caller got dynamic type %T", rc.name, val.v, got), c)
							break
						}
					} else if reflect.TypeOf(got) != rt {
						rep.Violate("C09/wrong-static-type", fmt.Sprintf("result %s: caller got %T", rc.name, got), c)
					}
					if ok, how := equalDelivered(got, val.v); !ok {
						rep.Violate("C09/value-altered", fmt.Sprintf("result %s stubbed with %T(%v): caller got %v (compared by %s)", rc.name, val.v, val.v, got, how), c)
					}
				case unspecified:
					if perr == nil {
						if bitsOf(got) != bitsOf(val.v) && rt.Kind() != reflect.Ptr {
							rep.Violate("C09/silently-altered", fmt.Sprintf("result %s stubbed with %T(%v): call returned %v whose memory image differs", rc.name, val.v, val.v, got), c)
						}
						rep.Stat("unspecified_returned_same_bits", 1)
					} else {
						rep.Stat("unspecified_call_panicked", 1)
					}
				}
				b.Reset()
				if !safeOrig(rc.orig) {
					rep.Violate("C09/not-reset", fmt.Sprintf("result %s: target not original after Reset", rc.name), c)
				}
			}
		}
	}
	// ---- multi-result with nil error
	{
		b := mocker.Create()
		b.Func(RMulti).Return(5, nil)
		n, err := RMulti()
		rep.Eval(1)
		rep.Class("multi/nil-error")
		if n != 5 || err != nil {
			rep.Violate("C09/nil-error-not-nil", fmt.Sprintf("Return(5, nil): got (%d, %v); err == nil is %v", n, err, err == nil), nil)
		}
		b.Reset()
		b = mocker.Create()
		e := &MyErr{9}
		b.Func(RMulti).Return(6, e)
		n, err = RMulti()
		rep.Eval(1)
		if n != 6 || err != error(e) {
			rep.Violate("C09/value-altered", fmt.Sprintf("Return(6, &MyErr{9}): got (%d, %v)", n, err), nil)
		}
		b.Reset()
	}
	// ---- unnameable types: layout-identical stand-ins for results and for When arguments
	{
		b := mocker.Create()
		var cerr interface{}
		func() {
			defer func() { cerr = recover() }()
			b.Func(hid.Get).Return(standIn{11, "standin", 2.5})
		}()
		rep.Eval(1)
		rep.Class("hidden/struct-standin-result")
		if cerr != nil {
			rep.Violate("C09/standin-rejected", fmt.Sprintf("layout-identical struct for an unexported struct result rejected: %v", firstLine(cerr)), nil)
		} else if a, s, f := hid.Fields(hid.Get()); a != 11 || s != "standin" || f != 2.5 {
			rep.Violate("C09/standin-altered", fmt.Sprintf("stand-in struct arrived as (%d,%q,%v)", a, s, f), nil)
		}
		b.Reset()
		b = mocker.Create()
		sp := &standIn{12, "standinp", 3.5}
		cerr = nil
		func() {
			defer func() { cerr = recover() }()
			b.Func(hid.GetP).Return(sp)
		}()
		rep.Eval(1)
		rep.Class("hidden/ptr-standin-result")
		if cerr != nil {
			rep.Violate("C09/standin-rejected", fmt.Sprintf("pointer to layout-identical struct for an unexported *struct result rejected: %v", firstLine(cerr)), nil)
		} else {
			p := hid.GetP()
			if a, s, f := hid.FieldsP(p); a != 12 || s != "standinp" || f != 3.5 || unsafe.Pointer(p) != unsafe.Pointer(sp) {
				rep.Violate("C09/standin-altered", fmt.Sprintf("stand-in pointer arrived as (%d,%q,%v) identity %v", a, s, f, unsafe.Pointer(p) == unsafe.Pointer(sp)), nil)
			}
		}
		b.Reset()
		b = mocker.Create()
		cerr = nil
		func() {
			defer func() { cerr = recover() }()
			b.Func(hid.Get).Return(wrongSize{1, "x"})
		}()
		rep.Eval(1)
		rep.Class("hidden/wrong-size-standin")
		if cerr == nil {
			rep.Violate("C09/size-mismatch-accepted", "a smaller struct was accepted as stand-in for an unexported struct result", nil)
		}
		if a, _, _ := hid.Fields(hid.Get()); cerr != nil && a != -1 {
			rep.Violate("C09/rejected-but-mocked", "hid.Get no longer original after rejected stand-in", nil)
		}
		b.Reset()
		// stand-in as a When argument
		b = mocker.Create()
		cerr = nil
		func() {
			defer func() { cerr = recover() }()
			b.Func(hid.Take).Return(0).When(standIn{1, "k", 1.5}).Return(1)
		}()
		rep.Eval(1)
		rep.Class("hidden/standin-when-arg")
		if cerr != nil {
			rep.Violate("C09/standin-rejected", fmt.Sprintf("stand-in struct as When argument rejected: %v", firstLine(cerr)), nil)
		} else {
			if got := hid.Take(hid.Make(1, "k", 1.5)); got != 1 {
				rep.Violate("C09/standin-when-arg-not-compared-as-declared-type", fmt.Sprintf("Take(equal value) = %d want 1", got), nil)
			}
			if got := hid.Take(hid.Make(2, "k", 1.5)); got != 0 {
				rep.Violate("C09/standin-when-arg-not-compared-as-declared-type", fmt.Sprintf("Take(different value) = %d want 0", got), nil)
			}
		}
		b.Reset()
	}
	// ---- an anonymous struct with the fields of the declared (named) struct type, as a When/In argument, as a result and
	// read back through Eval: compared and delivered as the declared type
	{
		b := mocker.Create()
		var cerr interface{}
		var w *mocker.When
		func() {
			defer func() { cerr = recover() }()
			w = b.Func(PStructS).Return(0).When(struct {
				A int
				B string
			}{4, "four"}).Return(1)
			w.In(struct {
				A int
				B string
			}{5, "five"}, S{6, "six"}).Return(2)
		}()
		rep.Eval(4)
		rep.Class("anonymous-struct-as-when-argument")
		if cerr != nil {
			rep.Violate("C09/standin-rejected", fmt.Sprintf("an anonymous struct with the declared type's fields as When/In argument rejected: %v", firstLine(cerr)), nil)
		} else if got := [5]int{PStructS(S{4, "four"}), PStructS(S{5, "five"}), PStructS(S{6, "six"}), PStructS(S{4, "for"}), PStructS(S{})}; got != [5]int{1, 2, 2, 0, 0} {
			rep.Violate("C09/standin-when-arg-not-compared-as-declared-type", fmt.Sprintf("When(struct{A int; B string}{4,four}).Return(1), In(anonymous{5,five}, S{6,six}).Return(2), default 0: calls with S{4,four}, S{5,five}, S{6,six}, S{4,for}, S{} give %v, want [1 2 2 0 0]", got), nil)
		}
		b.Reset()
		b = mocker.Create()
		cerr = nil
		var ev []interface{}
		func() {
			defer func() { cerr = recover() }()
			w = b.Func(RStruct).Return(struct {
				A int
				B string
			}{7, "seven"})
			ev = w.Eval()
		}()
		rep.Eval(2)
		rep.Class("anonymous-struct-as-result")
		if cerr != nil {
			rep.Violate("C09/standin-rejected", fmt.Sprintf("an anonymous struct with the declared type's fields as result rejected: %v", firstLine(cerr)), nil)
		} else {
			if got := RStruct(); got != (S{7, "seven"}) {
				rep.Violate("C09/standin-altered", fmt.Sprintf("Return(struct{A int; B string}{7,seven}) delivered %+v", got), nil)
			}
			if len(ev) != 1 || reflect.TypeOf(ev[0]) != reflect.TypeOf(S{}) || ev[0].(S) != (S{7, "seven"}) {
				rep.Violate("C09/eval-value-not-of-declared-type", fmt.Sprintf("Eval() after Return(struct{A int; B string}{7,seven}) on func() S gives %#v (types %v), want S{7,seven}", ev, typesOf(ev)), nil)
			}
		}
		b.Reset()
	}
	// ---- When values are compared against the arguments of the call being made: the same pointer or map passed again
	// after what it refers to has changed is a different argument
	{
		b := mocker.Create()
		var cerr interface{}
		func() {
			defer func() { cerr = recover() }()
			b.Func(PPtr).Return(0).When(&S{1, "fast"}).Return(1).When(&S{2, "slow"}).Return(2)
			b.Func(PMap).Return(0).When(map[string]int{"k": 1}).Return(1)
			b.Func(PPtrMap).Return(0).When(&S{1, "fast"}, map[string]int{"k": 1}).Return(1)
		}()
		rep.Eval(3)
		rep.Class("same-reference-changed-content")
		if cerr != nil {
			rep.Violate("C09/when-value-rejected", fmt.Sprintf("pointer and map values as When arguments rejected: %v", firstLine(cerr)), nil)
		} else {
			p := &S{1, "fast"}
			m := map[string]int{"k": 1}
			var got []int
			for round := 0; round < 2; round++ {
				got = append(got, PPtr(p), PMap(m), PPtrMap(p, m))
				p.A, p.B = 2, "slow"
				m["k"] = 2
				got = append(got, PPtr(p), PMap(m), PPtrMap(p, m))
				p.A, p.B = 3, "other"
				delete(m, "k")
				got = append(got, PPtr(p), PMap(m), PPtrMap(p, m))
				p.A, p.B = 1, "fast"
				m["k"] = 1
			}
			want := []int{1, 1, 1, 2, 0, 0, 0, 0, 0, 1, 1, 1, 2, 0, 0, 0, 0, 0}
			if fmt.Sprint(got) != fmt.Sprint(want) {
				rep.Violate("C09/when-compared-against-an-earlier-call", fmt.Sprintf("one *S and one map passed to stubs with conditions on their content, changed between the calls ({1,fast}/k=1, {2,slow}/k=2, {3,other}/no k; twice): results %v, want %v", got, want), nil)
			}
		}
		b.Reset()
	}
	// ---- stand-ins for structs that consist of one pointer-like word
	{
		theMap := map[string]int{"k": 1}
		type one struct {
			name   string
			conf   func(b *mocker.Builder)
			ok     func() (bool, string)
			origOK func() bool
		}
		for _, o := range []one{
			{"PW<-pwStand", func(b *mocker.Builder) { b.Func(RPW).Return(pwStand{Q: theS}) }, func() (bool, string) { r := RPW(); return r.P == theS, fmt.Sprintf("P=%p want %p", r.P, theS) }, func() bool { return RPW().P == nil }},
			{"PW<-PW", func(b *mocker.Builder) { b.Func(RPW).Return(PW{P: theS}) }, func() (bool, string) { r := RPW(); return r.P == theS, fmt.Sprintf("P=%p want %p", r.P, theS) }, func() bool { return RPW().P == nil }},
			{"MW<-mwStand", func(b *mocker.Builder) { b.Func(RMW).Return(mwStand{X: theMap}) }, func() (bool, string) {
				r := RMW()
				return r.M != nil && r.M["k"] == 1 && len(r.M) == 1, fmt.Sprintf("M=%v", r.M)
			}, func() bool { return RMW().M == nil }},
			{"FW<-fwStand", func(b *mocker.Builder) { b.Func(RFW).Return(fwStand{G: theFunc}) }, func() (bool, string) { r := RFW(); return r.F != nil && r.F() == 42, "F" }, func() bool { return RFW().F == nil }},
			{"CW<-cwStand", func(b *mocker.Builder) { b.Func(RCW).Return(cwStand{D: theChan}) }, func() (bool, string) { r := RCW(); return r.C == theChan, "C" }, func() bool { return RCW().C == nil }},
		} {
			b := mocker.Create()
			var cerr, perr interface{}
			func() {
				defer func() { cerr = recover() }()
				o.conf(b)
			}()
			rep.Eval(1)
			rep.Class("one-word-struct/" + o.name)
			if cerr != nil {
				rep.Violate("C09/standin-rejected", fmt.Sprintf("%s: layout-identical one-word struct rejected: %v", o.name, firstLine(cerr)), nil)
			} else {
				okv, how := false, ""
				func() {
					defer func() { perr = recover() }()
					okv, how = o.ok()
				}()
				if perr != nil || !okv {
					rep.Violate("C09/standin-altered", fmt.Sprintf("%s: one-pointer-word struct delivered altered (%s, panic %v)", o.name, how, perr), nil)
				}
			}
			b.Reset()
			if !safeOrig(o.origOK) {
				rep.Violate("C09/not-reset", o.name, nil)
			}
		}
		// as a When argument
		b := mocker.Create()
		var cerr interface{}
		func() {
			defer func() { cerr = recover() }()
			b.Func(PPW).Return(0).When(pwStand{Q: theS}).Return(1)
		}()
		rep.Eval(1)
		rep.Class("one-word-struct/when-arg")
		if cerr != nil {
			rep.Violate("C09/standin-rejected", fmt.Sprintf("one-word stand-in as When argument rejected: %v", firstLine(cerr)), nil)
		} else if a, c2 := PPW(PW{P: theS}), PPW(PW{P: &S{}}); a != 1 || c2 != 0 {
			rep.Violate("C09/standin-when-arg-not-compared-as-declared-type", fmt.Sprintf("PPW(equal)=%d want 1, PPW(other)=%d want 0", a, c2), nil)
		}
		b.Reset()
		// large integers given to When are compared as int64, not through another representation
		b = mocker.Create()
		b.Func(PBig).Return(0).When(int64(1) << 60).Return(1).When(int64(1)<<60 + 2).Return(2)
		rep.Eval(1)
		rep.Class("when-arg/large-int64")
		if x, y, z := PBig(1<<60), PBig(1<<60+2), PBig(1<<60+1); x != 1 || y != 2 || z != 0 {
			rep.Violate("C09/when-argument-altered", fmt.Sprintf("When(1<<60)->1, When(1<<60+2)->2: got %d %d, and %d for 1<<60+1 (want 1 2 0)", x, y, z), nil)
		}
		b.Reset()
	}
	// ---- a stand-in whose fields are stand-ins themselves (named scalar as int, nested struct copy, pointer to a copy,
	//      slice of copies): byte for byte the same layout
	{
		type innerCopy struct {
			X int
			Y string
		}
		type deepCopy struct {
			L  int
			In innerCopy
			P  *innerCopy
			Fs []innerCopy
		}
		mk := func(k int) deepCopy {
			return deepCopy{L: k, In: innerCopy{k + 1, "in"}, P: &innerCopy{k + 2, "p"}, Fs: []innerCopy{{1, "a"}, {2, "b"}}}
		}
		for _, api := range []string{"Return", "Returns", "When().Return", "pointer"} {
			b := mocker.Create()
			var cerr interface{}
			dp := mk(40)
			func() {
				defer func() { cerr = recover() }()
				switch api {
				case "Return":
					b.Func(hid.GetDeep).Return(mk(10))
				case "Returns":
					b.Func(hid.GetDeep).Returns(mk(10), mk(10))
				case "When().Return":
					b.Func(hid.GetDeep).When().Return(mk(10))
				default:
					b.Func(hid.GetDeepP).Return(&dp)
				}
			}()
			rep.Eval(1)
			rep.Class("nested-stand-in/" + api)
			if cerr != nil {
				rep.Violate("C09/layout-identical-stand-in-rejected", fmt.Sprintf("%s: a stand-in of identical layout whose fields are copies of unnameable types was rejected: %v", api, firstLine(cerr)), nil)
			} else if api == "pointer" {
				if l, x, y, n := hid.DeepFields(*hid.GetDeepP()); l != 40 || x != 41 || y != "in" || n != 44 {
					rep.Violate("C09/silently-altered", fmt.Sprintf("nested stand-in pointer: fields %d %d %q %d, want 40 41 in 44", l, x, y, n), nil)
				}
			} else if l, x, y, n := hid.DeepFields(hid.GetDeep()); l != 10 || x != 11 || y != "in" || n != 14 {
				rep.Violate("C09/silently-altered", fmt.Sprintf("nested stand-in via %s: fields %d %d %q %d, want 10 11 in 14", api, l, x, y, n), nil)
			}
			b.Reset()
		}
		// and as a When argument
		b := mocker.Create()
		var cerr interface{}
		func() {
			defer func() { cerr = recover() }()
			b.Func(hid.TakeDeep).Return(0).When(mk(10)).Return(1)
		}()
		rep.Eval(1)
		if cerr != nil {
			rep.Violate("C09/layout-identical-stand-in-rejected", fmt.Sprintf("nested stand-in as a When argument rejected: %v", firstLine(cerr)), nil)
		}
		b.Reset()
	}
	// ---- one expression object used for two functions whose parameters are different declared types of one kind: the
	//      value is typed anew for each
	{
		e := arg.Equals(PA{1, "k"})
		ep := arg.Equals(&PA{2, "p"})
		b := mocker.Create()
		var cerr interface{}
		func() {
			defer func() { cerr = recover() }()
			b.Func(TakeA).Return(0).When(e).Return(1)
			b.Func(TakeB).Return(0).When(e).Return(2)
			b.Func(TakeAP).Return(0).When(ep).Return(3)
			b.Func(TakeBP).Return(0).When(ep).Return(4)
		}()
		rep.Eval(4)
		rep.Class("expression-object-reused-for-another-declared-type")
		if cerr != nil {
			rep.Violate("C09/when-argument-altered", fmt.Sprintf("one arg.Equals object used for two functions: %v", firstLine(cerr)), nil)
		} else if got := [4]int{TakeB(PB{1, "k"}), TakeBP(&PB{2, "p"}), TakeB(PB{1, "x"}), TakeBP(&PB{3, "p"})}; got != [4]int{2, 4, 0, 0} {
			// (the object holds ONE typed value: only its most recent use is asserted)
			rep.Violate("C09/when-argument-altered", fmt.Sprintf("one arg.Equals object used first for a PA parameter and then for a PB parameter (same layout): the PB stubs answer %v, want [2 4 0 0]", got), nil)
		}
		b.Reset()
	}
	// ---- nil as When argument for nilable parameter kinds
	type pc struct {
		name string
		conf func(b *mocker.Builder)
		nilC func() int
		nonC func() int
	}
	for _, p := range []pc{
		{"*S", func(b *mocker.Builder) { b.Func(PPtr).Return(0).When(nil).Return(1) }, func() int { return PPtr(nil) }, func() int { return PPtr(theS) }},
		{"error", func(b *mocker.Builder) { b.Func(PErr).Return(0).When(nil).Return(1) }, func() int { return PErr(nil) }, func() int { return PErr(&MyErr{1}) }},
		{"func", func(b *mocker.Builder) { b.Func(PFunc).Return(0).When(nil).Return(1) }, func() int { return PFunc(nil) }, func() int { return PFunc(theFunc) }},
		{"[]int", func(b *mocker.Builder) { b.Func(PSlice).Return(0).When(nil).Return(1) }, func() int { return PSlice(nil) }, func() int { return PSlice([]int{1}) }},
		// for an interface parameter nil is the nil interface: a typed nil pointer inside the interface is another value
		{"error/typed-nil-argument", func(b *mocker.Builder) { b.Func(PErr).Return(0).When(nil).Return(1) }, func() int { return PErr(nil) }, func() int { return PErr((*MyErr)(nil)) }},
		{"error/typed-nil-condition", func(b *mocker.Builder) { b.Func(PErr).Return(0).When((*MyErr)(nil)).Return(1) }, func() int { return PErr((*MyErr)(nil)) }, func() int { return PErr(nil) }},
		// nil is the typed zero value, not "anything empty": an empty non-nil slice or map is another value (and vice versa)
		{"[]int/empty-argument", func(b *mocker.Builder) { b.Func(PSlice).Return(0).When(nil).Return(1) }, func() int { return PSlice(nil) }, func() int { return PSlice([]int{}) }},
		{"[]int/empty-condition", func(b *mocker.Builder) { b.Func(PSlice).Return(0).When([]int{}).Return(1) }, func() int { return PSlice([]int{}) }, func() int { return PSlice(nil) }},
		{"map/empty-argument", func(b *mocker.Builder) { b.Func(PMap).Return(0).When(nil).Return(1) }, func() int { return PMap(nil) }, func() int { return PMap(map[string]int{}) }},
		{"map/empty-condition", func(b *mocker.Builder) { b.Func(PMap).Return(0).When(map[string]int{}).Return(1) }, func() int { return PMap(map[string]int{}) }, func() int { return PMap(nil) }},
	} {
		b := mocker.Create()
		var cerr interface{}
		func() {
			defer func() { cerr = recover() }()
			p.conf(b)
		}()
		rep.Eval(1)
		rep.Class("when-nil/" + p.name)
		key := "C09/nil-when-argument"
		if p.name == "func" {
			key = "C09/nil-func-result"
		}
		if cerr != nil {
			rep.Violate(key, fmt.Sprintf("When(nil) for a %s parameter rejected: %v", p.name, firstLine(cerr)), nil)
		} else {
			var perr interface{}
			a, c := 0, 0
			func() {
				defer func() { perr = recover() }()
				a, c = p.nilC(), p.nonC()
			}()
			if perr != nil || a != 1 || c != 0 {
				rep.Violate(key, fmt.Sprintf("nil / empty When argument for %s parameter: the equal argument -> %d (want 1), the other one -> %d (want 0), panic %v", p.name, a, c, perr), nil)
			}
		}
		b.Reset()
	}
	// ---- values handed over as a spread slice the caller goes on using: what counts is the value at the time of the call
	for _, api := range []string{"Return", "Returns", "When().Return"} {
		buf := []interface{}{"alice"}
		b := mocker.Create()
		var perr interface{}
		var got interface{}
		func() {
			defer func() { perr = recover() }()
			switch api {
			case "Return":
				b.Func(RIface).Return(buf...)
			case "Returns":
				b.Func(RIface).Returns(buf...)
			default:
				b.Func(RIface).When().Return(buf...)
			}
			buf[0] = 42 // the caller's scratch buffer is reused for the next stub
			got = RIface()
		}()
		rep.Eval(1)
		rep.Class("reused-argument-buffer/" + api)
		if perr != nil || got != "alice" {
			rep.Violate("C09/silently-altered", fmt.Sprintf("%s(buf...) with buf = [\"alice\"], then buf[0] = 42: the stubbed function returns %#v (panic %v), want \"alice\"", api, got, perr), map[string]interface{}{"api": api})
		}
		b.Reset()
	}
	rep.Sample(map[string]interface{}{"result_type": "error", "supplied": "nil", "expect": "err == nil at the caller"})
	rep.Sample(map[string]interface{}{"result_type": "hid.hidden (unexported)", "supplied": "standIn{11,\"standin\",2.5}", "expect": "fields arrive unchanged"})
}

func safeOrig(f func() bool) (ok bool) {
	defer func() {
		if recover() != nil {
			ok = false
		}
	}()
	return f()
}

func sizeOf(v interface{}) uintptr {
	if v == nil {
		return 0
	}
	return reflect.TypeOf(v).Size()
}

func firstLine(v interface{}) string {
	if v == nil {
		return "<nil>"
	}
	s := fmt.Sprint(v)
	for i := 0; i < len(s); i++ {
		if s[i] == '\n' {
			s = s[:i]
			break
		}
	}
	if len(s) > 200 {
		s = s[:200]
	}
	return s
}

func typesOf(vs []interface{}) []string {
	out := make([]string, len(vs))
	for i, v := range vs {
		out[i] = fmt.Sprint(reflect.TypeOf(v))
	}
	return out
}
