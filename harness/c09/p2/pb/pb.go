//go:build go1.21

// Package pb (second of two packages with this name).
package pb

type Resp struct {
	S string
	N int
}

type Code int64

//go:noinline
func Load() (*Resp, error) { return &Resp{S: "orig"}, nil }

//go:noinline
func Check(r *Resp, c Code) int { return -2 - r.N*0 - int(c)*0 }

//go:noinline
func Box() interface{} { return nil }
