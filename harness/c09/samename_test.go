//go:build go1.21

package c09

import (
	"errors"
	"fmt"
	"testing"

	mocker "github.com/tencent/goom"
	"github.com/tencent/goom/arg"
	pb1 "github.com/tencent/goom/zzverif/c09/p1/pb"
	pb2 "github.com/tencent/goom/zzverif/c09/p2/pb"
	"github.com/tencent/goom/zzverif/vmon"
)

// TestC09SameName: two functions whose types print identically ("func() (*pb.Resp, error)") because their packages
// and types have the same names; each keeps its own declared types, in both stubbing orders, for results, nil results,
// boxed results and When arguments.
func TestC09SameName(t *testing.T) {
	rep := vmon.NewReport("C09")
	defer rep.Write()
	e1, e2 := errors.New("e1"), errors.New("e2")
	for _, order := range []string{"p1-first", "p2-first"} {
		r1, r2 := &pb1.Resp{A: 5}, &pb2.Resp{S: "x", N: 7}
		b := mocker.Create()
		steps := []func(){
			func() {
				b.Func(pb1.Load).Return(r1, nil).AndReturn(nil, e1)
				b.Func(pb1.Check).Return(0).When(r1, pb1.Code(3)).Return(11).When(nil, arg.Any()).Return(12)
				b.Func(pb1.Box).Returns(r1, pb1.Code(4))
			},
			func() {
				b.Func(pb2.Load).Return(r2, nil).AndReturn(nil, e2)
				b.Func(pb2.Check).Return(0).When(r2, pb2.Code(3)).Return(21).When(nil, arg.Any()).Return(22)
				b.Func(pb2.Box).Returns(r2, pb2.Code(4))
			},
		}
		if order == "p2-first" {
			steps[0], steps[1] = steps[1], steps[0]
		}
		c := map[string]interface{}{"order": order}
		var perr interface{}
		func() {
			defer func() { perr = recover() }()
			steps[0]()
			steps[1]()
			g1, err1 := pb1.Load()
			g2, err2 := pb2.Load()
			n1, ne1 := pb1.Load()
			n2, ne2 := pb2.Load()
			rep.Eval(4)
			if g1 != r1 || err1 != nil || g2 != r2 || err2 != nil {
				rep.Violate("C09/same-printed-type-confused", fmt.Sprintf("%s: Load() of the two pb packages returned (%v,%v) and (%v,%v), want the stubbed pointers and nil errors", order, g1, err1, g2, err2), c)
			}
			if n1 != nil || ne1 != e1 || n2 != nil || ne2 != e2 {
				rep.Violate("C09/same-printed-type-confused", fmt.Sprintf("%s: second Load() returned (%v,%v) and (%v,%v), want typed nil pointers and the stubbed errors", order, n1, ne1, n2, ne2), c)
			}
			c1 := []int{pb1.Check(&pb1.Resp{A: 5}, 3), pb1.Check(nil, 9), pb1.Check(&pb1.Resp{A: 6}, 3)}
			c2 := []int{pb2.Check(&pb2.Resp{S: "x", N: 7}, 3), pb2.Check(nil, 9), pb2.Check(&pb2.Resp{S: "x", N: 8}, 3)}
			rep.Eval(6)
			if fmt.Sprint(c1) != "[11 12 0]" || fmt.Sprint(c2) != "[21 22 0]" {
				rep.Violate("C09/same-printed-type-confused", fmt.Sprintf("%s: When arguments of the two Check functions: got %v and %v, want [11 12 0] and [21 22 0]", order, c1, c2), c)
			}
			x1, x2 := pb1.Box(), pb2.Box()
			y1, y2 := pb1.Box(), pb2.Box()
			rep.Eval(4)
			if p, ok := x1.(*pb1.Resp); !ok || p != r1 {
				rep.Violate("C09/same-printed-type-confused", fmt.Sprintf("%s: p1 Box() = %T, want the stubbed *pb.Resp of p1", order, x1), c)
			}
			if p, ok := x2.(*pb2.Resp); !ok || p != r2 {
				rep.Violate("C09/same-printed-type-confused", fmt.Sprintf("%s: p2 Box() = %T, want the stubbed *pb.Resp of p2", order, x2), c)
			}
			if v, ok := y1.(pb1.Code); !ok || v != 4 {
				rep.Violate("C09/same-printed-type-confused", fmt.Sprintf("%s: p1 Box() second = %T(%v), want p1's Code(4)", order, y1, y1), c)
			}
			if v, ok := y2.(pb2.Code); !ok || v != 4 {
				rep.Violate("C09/same-printed-type-confused", fmt.Sprintf("%s: p2 Box() second = %T(%v), want p2's Code(4)", order, y2, y2), c)
			}
		}()
		if perr != nil {
			rep.Violate("C09/same-printed-type-confused", fmt.Sprintf("%s: stubbing or calling functions of two same-named packages panicked: %v", order, perr), c)
		}
		b.Reset()
		rep.Class("same-printed-types/" + order)
	}
	rep.Sample(map[string]interface{}{"part": "same-printed types", "signature": fmt.Sprintf("%T / %T", pb1.Load, pb2.Load)})
}
