//go:build go1.21

// Package pb (first of two packages with this name): its types print exactly like those of the other one.
package pb

type Resp struct{ A int }

type Code int32

//go:noinline
func Load() (*Resp, error) { return &Resp{A: -1}, nil }

//go:noinline
func Check(r *Resp, c Code) int { return -1 - r.A*0 - int(c)*0 }

//go:noinline
func Box() interface{} { return nil }
