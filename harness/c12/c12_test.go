//go:build go1.21

package c12

import (
	"fmt"
	"strings"
	"testing"
	"unsafe"

	mocker "github.com/tencent/goom"
	"github.com/tencent/goom/arg"
	"github.com/tencent/goom/zzverif/c12/pa"
	"github.com/tencent/goom/zzverif/c12/pb"
	"github.com/tencent/goom/zzverif/vmon"
)

//go:noinline
func F(a int) int { return -1 }

//go:noinline
func G(a int) int { return -2 }

type T struct{ v int }

//go:noinline
func (t *T) M(a int) int { return -3 }

//go:noinline
func foo(a int) int { return -4 }

type I interface {
	Get(a int) int
	Put(a int) int
}
type impl struct{}

func (impl) Get(a int) int { return -5 }
func (impl) Put(a int) int { return -6 }

var iv I = impl{}

type handle struct {
	name string
	orig int
	call func(a int) int
	// lookups (must be called from this package so that goom's current-package detection sees it)
	get func(b *mocker.Builder) mocker.ExportedMocker
	cb  func(k int) interface{}
	// iface: the handle is one method of the interface variable iv (all such handles share the variable)
	iface bool
}

func handles() []handle {
	return []handle{
		{"Func(F)", -1, F, func(b *mocker.Builder) mocker.ExportedMocker { return b.Func(F) },
			func(k int) interface{} { return func(a int) int { return 1000000 + k } }, false},
		{"Func(G)", -2, G, func(b *mocker.Builder) mocker.ExportedMocker { return b.Func(G) },
			func(k int) interface{} { return func(a int) int { return 1000000 + k } }, false},
		{"Struct(T).Method(M)", -3, func(a int) int { return (&T{}).M(a) }, func(b *mocker.Builder) mocker.ExportedMocker { return b.Struct(&T{}).Method("M") },
			func(k int) interface{} { return func(t *T, a int) int { return 1000000 + k } }, false},
		{"ExportFunc(foo).As", -4, foo, func(b *mocker.Builder) mocker.ExportedMocker {
			return b.ExportFunc("foo").As(func(a int) int { return 0 })
		},
			func(k int) interface{} { return func(a int) int { return 1000000 + k } }, false},
		{"Interface(&iv).Method(Get).As", -5, func(a int) int { return iv.Get(a) },
			func(b *mocker.Builder) mocker.ExportedMocker {
				return b.Interface(&iv).Method("Get").As(func(ctx *mocker.IContext, a int) int { return 0 })
			},
			func(k int) interface{} { return func(ctx *mocker.IContext, a int) int { return 1000000 + k } }, true},
		{"Interface(&iv).Method(Put).As", -6, func(a int) int { return iv.Put(a) },
			func(b *mocker.Builder) mocker.ExportedMocker {
				return b.Interface(&iv).Method("Put").As(func(ctx *mocker.IContext, a int) int { return 0 })
			},
			func(k int) interface{} { return func(ctx *mocker.IContext, a int) int { return 1000000 + k } }, true},
	}
}

type tstate struct {
	mode       string // orig | cb | stub
	cbK        int
	hasDefault bool
	lastRet    int
	retIssued  int
	clauses    map[int]int // x -> v, valid since the last Apply/Cancel/Reset
	dead       map[int]int // clauses configured before the last Cancel/Reset: must not answer any more
}

func safeCall(f func(a int) int, a int) (v int, p interface{}) {
	defer func() { p = recover() }()
	return f(a), nil
}

func TestC12(t *testing.T) {
	rep := vmon.NewReport("C12")
	defer rep.Write()
	shard, _ := vmon.Shard()
	rng := vmon.NewRng(vmon.Seed(), uint64(1200+shard))
	nh := vmon.EnvInt("VERIF_C12_HIST", 120)
	hs := handles()
	fresh := 1000
	for h := 0; h < nh; h++ {
		b := mocker.Create()
		st := make([]*tstate, len(hs))
		for i := range st {
			st[i] = &tstate{mode: "orig", clauses: map[int]int{}, dead: map[int]int{}}
		}
		var hist []string
		ifaceLive := false // the interface variable currently holds goom's fake implementation
		n := 3 + rng.Intn(23)
		bad := false
		viol := func(key, what string, ti int) {
			bad = true
			rep.Violate(key, fmt.Sprintf("%s: %s after %v", hs[ti].name, what, hist), map[string]interface{}{"history": append([]string{}, hist...), "target": hs[ti].name})
		}
		check := func(ti int, after string) {
			s, hd := st[ti], hs[ti]
			rep.Eval(1)
			switch s.mode {
			case "orig":
				if hd.iface && ifaceLive {
					// another method of the variable is mocked: this one is a slot nobody implemented
					if _, p := safeCall(hd.call, 7); p == nil || !strings.Contains(fmt.Sprint(p), "method not implements") {
						viol("C12/unmocked-interface-method", fmt.Sprintf("call(7) did not panic with 'method not implements' (panic %v)", p), ti)
					}
					break
				}
				if v, p := safeCall(hd.call, 7); p != nil || v != hd.orig {
					viol("C12/not-original", fmt.Sprintf("call(7) = %d (panic %v), want the original %d", v, p, hd.orig), ti)
				}
			case "cb":
				for _, a := range []int{7, fresh + 999} {
					if v, p := safeCall(hd.call, a); p != nil || v != 1000000+s.cbK {
						viol("C12/later-apply-not-in-effect", fmt.Sprintf("call(%d) = %d (panic %v), want callback #%d's %d", a, v, p, s.cbK, 1000000+s.cbK), ti)
					}
				}
			case "stub":
				for x, want := range s.clauses {
					if v, p := safeCall(hd.call, x); p != nil || v != want {
						key := "C12/when-clause-not-in-effect"
						if v >= 1000000 {
							key = "C12/stub-after-apply-ignored"
						} else if s.retIssued >= 2 && s.hasDefault {
							key = "C12/when-after-repeated-return-ignored"
						}
						viol(key, fmt.Sprintf("call(%d) = %d (panic %v), want %d from When(%d).Return(%d)", x, v, p, want, x, want), ti)
					}
				}
				if s.hasDefault {
					var vals []int
					for i := 0; i < s.retIssued+2; i++ {
						v, p := safeCall(hd.call, 7)
						if p != nil {
							viol("C12/default-panicked", fmt.Sprintf("call(7) panicked: %v", p), ti)
							return
						}
						vals = append(vals, v)
					}
					for _, v := range vals {
						if v >= 1000000 {
							viol("C12/stub-after-apply-ignored", fmt.Sprintf("after Return(%d) calls still answer from a superseded callback: %v", s.lastRet, vals), ti)
							return
						}
					}
					if k := len(vals); vals[k-1] != s.lastRet || vals[k-2] != s.lastRet {
						viol("C12/latest-return-not-in-effect", fmt.Sprintf("calls %v do not settle on the most recent Return(%d)", vals, s.lastRet), ti)
					}
				}
			}
			for x, old := range s.dead {
				if hd.iface && ifaceLive && s.mode == "orig" {
					break
				}
				if v, p := safeCall(hd.call, x); p == nil && v == old {
					viol("C12/configuration-survived-reset", fmt.Sprintf("call(%d) = %d: a clause configured before Cancel/Reset still answers", x, v), ti)
				}
			}
			_ = after
		}
		for step := 0; step < n && !bad; step++ {
			ti := rng.Intn(len(hs))
			s, hd := st[ti], hs[ti]
			op := rng.Intn(100)
			if op >= 22 && op < 50 && s.mode == "stub" && len(s.clauses) > 0 {
				// Return right after a When chain extends that clause (chain state), which the statement does not
				// settle: only generate Return/Returns when no When was issued since the last Apply/Cancel/Reset.
				op = 60
			}
			var perr interface{}
			do := func(name string, f func()) {
				hist = append(hist, fmt.Sprintf("%s.%s", hd.name, name))
				rep.Journal(map[string]interface{}{"hist": hist})
				defer func() { perr = recover() }()
				f()
			}
			kill1 := func(s *tstate) {
				for x, v := range s.clauses {
					s.dead[x] = v
				}
				s.clauses = map[int]int{}
				s.mode, s.hasDefault, s.retIssued = "orig", false, 0
			}
			kill := func(s *tstate) {
				if hd.iface && s == st[ti] {
					if s.mode == "orig" {
						return // cancelling a method mocker that was never applied leaves the variable alone
					}
					// cancelling one method restores the variable: every method mock on it is gone
					for i := range hs {
						if hs[i].iface {
							kill1(st[i])
						}
					}
					ifaceLive = false
					return
				}
				kill1(s)
			}
			opname := ""
			switch {
			case op < 22:
				opname = "Apply"
				k := step
				do(fmt.Sprintf("Apply(cb%d)", k), func() { hd.get(b).Apply(hd.cb(k)) })
				s.mode, s.cbK, s.hasDefault = "cb", k, false
				s.clauses = map[int]int{} // superseded; whether they come back later is not fixed by the statement
			case op < 42:
				opname = "Return"
				fresh++
				v := 100 + fresh
				do(fmt.Sprintf("Return(%d)", v), func() { hd.get(b).Return(v) })
				s.mode, s.hasDefault, s.lastRet = "stub", true, v
				s.retIssued++
			case op < 50:
				opname = "Returns"
				fresh += 2
				v1, v2 := 100+fresh-1, 100+fresh
				do(fmt.Sprintf("Returns(%d,%d)", v1, v2), func() { hd.get(b).Returns(v1, v2) })
				s.mode, s.hasDefault, s.lastRet = "stub", true, v2
				s.retIssued += 2
			case op < 75:
				opname = "When"
				fresh++
				x, v := fresh, 200+fresh
				do(fmt.Sprintf("When(%d).Return(%d)", x, v), func() { hd.get(b).When(x).Return(v) })
				wasCb := s.mode == "cb"
				s.mode = "stub"
				if wasCb {
					s.hasDefault = false
				}
				s.clauses[x] = v
			case op < 83:
				opname = "lookup"
				do("lookup-again", func() { hd.get(b) })
			case op < 91:
				opname = "Cancel"
				do("Cancel", func() { hd.get(b).Cancel() })
				kill(s)
			default:
				opname = "Reset"
				do("Reset", func() { b.Reset() })
				for _, x := range st {
					kill1(x)
				}
				ifaceLive = false
			}
			if perr != nil {
				viol("C12/operation-panicked", fmt.Sprintf("%v", perr), ti)
				break
			}
			if hd.iface && (opname == "Apply" || opname == "Return" || opname == "Returns" || opname == "When") {
				ifaceLive = true
			}
			check(ti, opname)
			if opname == "Reset" {
				for i := range hs {
					if !bad {
						check(i, opname)
					}
				}
			} else if !bad {
				// one other target: instructions for this target must not disturb it
				oi := rng.Intn(len(hs))
				if oi != ti {
					check(oi, "other")
				}
			}
			rep.Class(fmt.Sprintf("%s/%s/prior=%s", hd.name, opname, s.mode))
		}
		b.Reset()
		for i, hd := range hs {
			if v, p := safeCall(hd.call, 7); p != nil || v != hd.orig {
				rep.Violate("C12/not-original", fmt.Sprintf("%s not original after final Reset: %d (%v)", hd.name, v, p), map[string]interface{}{"history": hist})
			}
			_ = i
		}
		if h < 2 {
			rep.Sample(map[string]interface{}{"history": hist})
		}
	}
	rep.Stat("histories", int64(nh))
}

// TestC12Pkg: a package override applies to the next lookup only.
func TestC12Pkg(t *testing.T) {
	rep := vmon.NewReport("C12")
	defer rep.Write()
	const paPath, pbPath = "github.com/tencent/goom/zzverif/c12/pa", "github.com/tencent/goom/zzverif/c12/pb"
	state := func() [3]int { return [3]int{pa.Foo(1), pb.Foo(1), foo(1)} }
	type sc struct {
		name string
		run  func(b *mocker.Builder)
		want [3]int
	}
	as := func(a int) int { return 0 }
	for _, s := range []sc{
		{"Pkg(pa).ExportFunc(foo) then plain ExportFunc(foo)", func(b *mocker.Builder) {
			b.Pkg(paPath).ExportFunc("foo").As(as).Return(100)
			b.ExportFunc("foo").As(as).Return(300)
		}, [3]int{100, -12, 300}},
		{"Pkg(pb).ExportFunc(foo) only", func(b *mocker.Builder) {
			b.Pkg(pbPath).ExportFunc("foo").As(as).Return(200)
		}, [3]int{-11, 200, -4}},
		{"Pkg(pa).Func(F) consumes the override; next ExportFunc is current package", func(b *mocker.Builder) {
			b.Pkg(paPath).Func(F).Return(9)
			b.ExportFunc("foo").As(as).Return(301)
		}, [3]int{-11, -12, 301}},
		{"Pkg(pa) then Pkg(pb) lookups, then current", func(b *mocker.Builder) {
			b.Pkg(paPath).ExportFunc("foo").As(as).Return(101)
			b.Pkg(pbPath).ExportFunc("foo").As(as).Return(201)
			b.ExportFunc("foo").As(as).Return(302)
		}, [3]int{101, 201, 302}},
		{"Pkg(pa).Var(&x) is the next lookup; the plain ExportFunc(foo) after it is the current package's", func(b *mocker.Builder) {
			b.Pkg(paPath).Var(&c12gx).Set(5)
			b.ExportFunc("foo").As(as).Return(304)
		}, [3]int{-11, -12, 304}},
		{"Pkg(pa), Reset (not a lookup), then ExportFunc(foo): the override is still pending", func(b *mocker.Builder) {
			b.Pkg(paPath)
			b.Reset()
			b.ExportFunc("foo").As(as).Return(106)
		}, [3]int{106, -12, -4}},
		{"Pkg(pb).Reset().ExportFunc(foo) in one chain", func(b *mocker.Builder) {
			b.Func(F).Return(8)
			b.Pkg(pbPath).Reset().ExportFunc("foo").As(as).Return(206)
		}, [3]int{-11, 206, -4}},
		{"override then lookup of the same name again continues the pa mocker", func(b *mocker.Builder) {
			b.Pkg(paPath).ExportFunc("foo").As(as).Return(102)
			b.Pkg(paPath).ExportFunc("foo").As(as).When(5).Return(103)
		}, [3]int{102, -12, -4}},
	} {
		b := mocker.Create()
		var perr interface{}
		func() {
			defer func() { perr = recover() }()
			s.run(b)
		}()
		rep.Eval(1)
		rep.Class("pkg/" + s.name)
		if perr != nil {
			rep.Violate("C12/pkg-scenario-panicked", fmt.Sprintf("%s: %v", s.name, perr), nil)
		} else if got := state(); got != s.want {
			key := "C12/pkg-override-scope"
			if strings.Contains(s.name, ".Var(") {
				key = "C12/pkg-override-survives-variable-lookup"
			}
			rep.Violate(key, fmt.Sprintf("%s: (pa.foo, pb.foo, own foo) = %v, want %v", s.name, got, s.want), nil)
		}
		if b.PkgName() != "github.com/tencent/goom/zzverif/c12" && perr == nil {
			rep.Violate("C12/pkg-override-scope", fmt.Sprintf("%s: builder package is %q after the lookup, want the current package", s.name, b.PkgName()), nil)
		}
		b.Reset()
		if got := state(); got != [3]int{-11, -12, -4} {
			rep.Violate("C12/not-original", fmt.Sprintf("%s: after Reset state %v", s.name, got), nil)
		}
	}
	// the same for unexported struct types addressed by name, with repeated (cache-hit) lookups
	pstate := func() [3]int { return [3]int{pa.Peek(1), pb.Peek(1), (&keeper{}).peek(1)} }
	asP := func(k unsafe.Pointer, a int) int { return 0 }
	for _, s := range []sc{
		{"Pkg(pa).ExportStruct(*keeper) twice, then plain ExportStruct(*keeper)", func(b *mocker.Builder) {
			b.Pkg(paPath).ExportStruct("*keeper").Method("peek").As(asP).Return(110)
			b.Pkg(paPath).ExportStruct("*keeper").Method("peek").As(asP).When(arg.Any(), 5).Return(111)
			b.ExportStruct("*keeper").Method("peek").As(asP).Return(310)
		}, [3]int{110, -22, 310}},
		{"Pkg(pb).ExportStruct(*keeper), plain ExportFunc(foo) next", func(b *mocker.Builder) {
			b.Pkg(pbPath).ExportStruct("*keeper").Method("peek").As(asP).Return(210)
			b.Pkg(pbPath).ExportStruct("*keeper").Method("peek").As(asP).When(arg.Any(), 1).Return(211)
			b.ExportFunc("foo").As(as).Return(303)
		}, [3]int{-21, 211, -24}},
		{"Pkg(pa).ExportFunc(foo) twice, then plain ExportStruct(*keeper)", func(b *mocker.Builder) {
			b.Pkg(paPath).ExportFunc("foo").As(as).Return(104)
			b.Pkg(paPath).ExportFunc("foo").As(as).When(2).Return(105)
			b.ExportStruct("*keeper").Method("peek").As(asP).Return(311)
		}, [3]int{-21, -22, 311}},
	} {
		b := mocker.Create()
		var perr interface{}
		func() {
			defer func() { perr = recover() }()
			s.run(b)
		}()
		rep.Eval(1)
		rep.Class("pkg/" + s.name)
		if perr != nil {
			rep.Violate("C12/pkg-scenario-panicked", fmt.Sprintf("%s: %v", s.name, perr), nil)
		} else if got := pstate(); got != s.want {
			rep.Violate("C12/pkg-override-scope", fmt.Sprintf("%s: (pa keeper.peek, pb keeper.peek, own keeper.peek) = %v, want %v", s.name, got, s.want), nil)
		}
		if b.PkgName() != "github.com/tencent/goom/zzverif/c12" && perr == nil {
			rep.Violate("C12/pkg-override-scope", fmt.Sprintf("%s: builder package is %q after the lookup, want the current package", s.name, b.PkgName()), nil)
		}
		b.Reset()
		if got := pstate(); got != [3]int{-21, -22, -24} {
			rep.Violate("C12/not-original", fmt.Sprintf("%s: after Reset state %v", s.name, got), nil)
		}
		if got := state(); got != [3]int{-11, -12, -4} {
			rep.Violate("C12/not-original", fmt.Sprintf("%s: after Reset state %v", s.name, got), nil)
		}
	}
	// after every kind of lookup, first time and repeated, the builder is back in the current package
	{
		b := mocker.Create()
		var x int
		var ivar fmt.Stringer
		kinds := []struct {
			name string
			do   func()
		}{
			{"ExportFunc", func() { b.Pkg(paPath).ExportFunc("foo") }},
			{"ExportStruct", func() { b.Pkg(paPath).ExportStruct("*keeper") }},
			{"Func", func() { b.Pkg(paPath).Func(F) }},
			{"Struct", func() { b.Pkg(paPath).Struct(&keeper{}) }},
			{"Var", func() { b.Pkg(paPath).Var(&x) }},
			{"UnExportedVar", func() { b.Pkg(paPath).UnExportedVar("github.com/tencent/goom/zzverif/c12.c12gx") }},
			{"Interface", func() { b.Pkg(paPath).Interface(&ivar) }},
		}
		for _, k := range kinds {
			for rep2 := 0; rep2 < 3; rep2++ {
				var perr interface{}
				func() { defer func() { perr = recover() }(); k.do() }()
				rep.Eval(1)
				if perr == nil && b.PkgName() != "github.com/tencent/goom/zzverif/c12" {
					key := "C12/pkg-override-scope"
					if k.name == "Var" || k.name == "UnExportedVar" {
						key = "C12/pkg-override-survives-variable-lookup"
					}
					rep.Violate(key, fmt.Sprintf("after Pkg(pa).%s (lookup %d of the same target) the builder package is %q, want the current package", k.name, rep2+1, b.PkgName()), nil)
					b.Pkg("github.com/tencent/goom/zzverif/c12")
				}
			}
			rep.Class("pkg/after-lookup/" + k.name)
		}
		b.Reset()
	}
	rep.Sample(map[string]interface{}{"scenario": "Pkg(pa).ExportFunc(foo).Return(100); ExportFunc(foo).Return(300)", "want": "pa.foo=100 pb.foo original own foo=300"})
}

var c12gx = 1

type keeper struct{ v int }

//go:noinline
func (k *keeper) peek(a int) int { return -24 - k.v*0 }
