//go:build go1.21

package c12

import (
	"errors"
	"fmt"
	"reflect"
	"testing"

	mocker "github.com/tencent/goom"
	"github.com/tencent/goom/zzverif/vmon"
)

type c12Str struct{ s string }

func (c *c12Str) String() string { return c.s }

var (
	vInt    = 10
	vStr    = "orig"
	vMap    = map[string]int{"o": 1}
	vNilMap map[string]int
	vStrr   fmt.Stringer // nil interface
	vErr    error        // nil interface
	vErrSet error        = errors.New("orig")
	vPtr    *c12Str
)

// TestC12Var: variables as targets. Every Set/Apply through the handle the user holds or through a fresh lookup of the
// same variable continues ONE configuration: the variable holds the value of the most recent instruction, and Cancel /
// Reset bring back what it held before the first of them - also for variables that were nil interfaces.
func TestC12Var(t *testing.T) {
	rep := vmon.NewReport("C12")
	defer rep.Write()
	rng := vmon.NewRng(vmon.Seed(), 1212)
	e1, e2 := errors.New("e1"), errors.New("e2")
	s1, s2 := &c12Str{"first"}, &c12Str{"second"}
	type tv struct {
		name string
		ptr  interface{}
		vals []interface{}
	}
	vars := []tv{
		{"int", &vInt, []interface{}{1, 2, 3}},
		{"string", &vStr, []interface{}{"a", "b", ""}},
		{"map", &vMap, []interface{}{map[string]int{"k": 2}, map[string]int{}, map[string]int(nil)}},
		{"nil map", &vNilMap, []interface{}{map[string]int{"k": 2}, map[string]int{}}},
		{"nil fmt.Stringer", &vStrr, []interface{}{s1, s2}},
		{"nil error", &vErr, []interface{}{e1, e2}},
		{"error", &vErrSet, []interface{}{e1, e2, nil}},
		{"nil pointer", &vPtr, []interface{}{s1, s2}},
	}
	n := vmon.EnvInt("VERIF_C12_VARHIST", 60)
	for _, v := range vars {
		cell := reflect.ValueOf(v.ptr).Elem()
		for h := 0; h < n; h++ {
			orig := reflect.New(cell.Type()).Elem()
			orig.Set(cell)
			b := mocker.Create()
			var kept mocker.VarMock
			var hist []string
			expect := orig
			mocked := false
			check := func(step string) bool {
				rep.Eval(1)
				ok := reflect.DeepEqual(cell.Interface(), expect.Interface())
				if cell.Kind() == reflect.Interface || cell.Kind() == reflect.Ptr || cell.Kind() == reflect.Map {
					ok = ok && cell.IsNil() == expect.IsNil()
				}
				if !ok {
					key := "C12/variable-latest-instruction-not-in-effect"
					if !mocked {
						key = "C12/variable-not-restored"
					}
					rep.Violate(key, fmt.Sprintf("%s variable after %v: holds %#v, want %#v", v.name, hist, cell.Interface(), expect.Interface()), map[string]interface{}{"variable": v.name, "history": append([]string{}, hist...)})
					return false
				}
				return true
			}
			steps := 2 + rng.Intn(7)
			okAll := true
			for s := 0; s < steps && okAll; s++ {
				var perr interface{}
				func() {
					defer func() { perr = recover() }()
					r := rng.Intn(10)
					switch {
					case r < 6:
						val := v.vals[rng.Intn(len(v.vals))]
						via := "fresh lookup"
						var m mocker.VarMock
						if kept != nil && rng.Bool() {
							m, via = kept, "kept handle"
						} else {
							m = b.Var(v.ptr)
							kept = m
						}
						nv := reflect.New(cell.Type()).Elem()
						if val != nil {
							nv.Set(reflect.ValueOf(val))
						}
						if rng.Bool() || val == nil {
							hist = append(hist, fmt.Sprintf("Set(%v) via %s", val, via))
							m.Set(nv.Interface())
						} else {
							hist = append(hist, fmt.Sprintf("Apply(->%v) via %s", val, via))
							fn := reflect.MakeFunc(reflect.FuncOf(nil, []reflect.Type{cell.Type()}, false), func([]reflect.Value) []reflect.Value { return []reflect.Value{nv} })
							m.Apply(fn.Interface())
						}
						expect, mocked = nv, true
					case r < 8:
						hist = append(hist, "Reset")
						b.Reset()
						expect, mocked, kept = orig, false, nil
					default:
						if kept == nil {
							return
						}
						hist = append(hist, "Cancel via kept handle")
						kept.Cancel()
						expect, mocked, kept = orig, false, nil
					}
				}()
				if perr != nil {
					rep.Violate("C12/variable-step-panicked", fmt.Sprintf("%s variable: %v panicked: %v", v.name, hist, perr), nil)
					okAll = false
					break
				}
				if okAll {
					okAll = check("step")
				}
			}
			func() { defer func() { recover() }(); b.Reset() }()
			cell.Set(orig)
			rep.Class("var/" + v.name)
		}
	}
	rep.Sample(map[string]interface{}{"part": "variables", "kinds": len(vars)})
}
