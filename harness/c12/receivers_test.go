//go:build go1.21

package c12

import (
	"fmt"
	"testing"

	mocker "github.com/tencent/goom"
	"github.com/tencent/goom/zzverif/vmon"
)

type RK struct{ n int }

//go:noinline
func (r RK) Val(a int) int { return r.n + a + 700 }

//go:noinline
func (r *RK) Ptr(a int) int { return r.n + a + 800 }

// TestC12ReceiverKinds: one builder asked for the mockers of one struct type through a pointer instance and through a
// value instance, in both orders: a method configured through either lookup follows the most recent instruction given
// through that lookup (a later Apply supersedes the Return, after Reset a fresh configuration starts), and the other
// method is not touched by it.
func TestC12ReceiverKinds(t *testing.T) {
	rep := vmon.NewReport("C12")
	defer rep.Write()
	val := func() int { return RK{n: 5}.Val(1) }
	ptr := func() int { return (&RK{n: 5}).Ptr(1) }
	origV, origP := val(), ptr()
	for _, order := range []string{"pointer instance first", "value instance first"} {
		b := mocker.Create()
		for round := 0; round < 2; round++ {
			c := map[string]interface{}{"order": order, "round": round}
			var perr interface{}
			step := func(what string, do func(), wantV, wantP int) bool {
				perr = nil
				func() {
					defer func() { perr = recover() }()
					do()
				}()
				rep.Eval(2)
				if perr != nil {
					rep.Violate("C12/valid-instruction-refused", fmt.Sprintf("%s, round %d: %s panicked: %v", order, round, what, perr), c)
					return false
				}
				if gv, gp := val(), ptr(); gv != wantV || gp != wantP {
					rep.Violate("C12/latest-instruction-not-in-effect", fmt.Sprintf("%s, round %d: after %s RK.Val gives %d (want %d), (*RK).Ptr gives %d (want %d)", order, round, what, gv, wantV, gp, wantP), c)
					return false
				}
				return true
			}
			v := 100 * (round + 1)
			ok := true
			if order == "pointer instance first" {
				ok = step("Struct(&RK{}).Method(Ptr).Return", func() { b.Struct(&RK{}).Method("Ptr").Return(v + 1) }, origV, v+1) &&
					step("Struct(RK{}).Method(Val).Return", func() { b.Struct(RK{}).Method("Val").Return(v + 2) }, v+2, v+1)
			} else {
				ok = step("Struct(RK{}).Method(Val).Return", func() { b.Struct(RK{}).Method("Val").Return(v + 2) }, v+2, origP) &&
					step("Struct(&RK{}).Method(Ptr).Return", func() { b.Struct(&RK{}).Method("Ptr").Return(v + 1) }, v+2, v+1)
			}
			ok = ok && step("Struct(RK{}).Method(Val).Apply", func() { b.Struct(RK{}).Method("Val").Apply(func(r RK, a int) int { return v + 3 }) }, v+3, v+1) &&
				step("Struct(&RK{}).Method(Ptr).Apply", func() { b.Struct(&RK{}).Method("Ptr").Apply(func(r *RK, a int) int { return v + 4 }) }, v+3, v+4)
			_ = ok
			b.Reset()
			rep.Eval(2)
			if gv, gp := val(), ptr(); gv != origV || gp != origP {
				rep.Violate("C12/not-original", fmt.Sprintf("%s, round %d: after Reset RK.Val gives %d (want %d), (*RK).Ptr gives %d (want %d)", order, round, gv, origV, gp, origP), c)
			}
			rep.Class(fmt.Sprintf("receiver-kinds/%s/round-%d", order, round))
		}
	}
}
