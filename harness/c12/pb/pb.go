//go:build go1.21

package pb

//go:noinline
func foo(a int) int { return -12 }

//go:noinline
func Foo(a int) int { return foo(a) }
