//go:build go1.21

package pb

//go:noinline
func foo(a int) int { return -12 }

//go:noinline
func Foo(a int) int { return foo(a) }

type keeper struct{ v int }

//go:noinline
func (k *keeper) peek(a int) int { return -22 - k.v*0 }

//go:noinline
func Peek(a int) int { return (&keeper{}).peek(a) }
