//go:build go1.21

package c12

import (
	"fmt"
	"testing"

	mocker "github.com/tencent/goom"
	"github.com/tencent/goom/zzverif/vmon"
)

// TestC12AfterRefusal: an instruction the library refuses (the caller recovers from the panic) is not an instruction;
// the next well-formed one for the same target is the most recent and takes effect, as does the one after it.
func TestC12AfterRefusal(t *testing.T) {
	rep := vmon.NewReport("C12")
	defer rep.Write()
	okGet := func(ctx *mocker.IContext, a int) int { return 0 }
	var iv I
	type tcase struct {
		name    string
		refused []func(b *mocker.Builder)
		valid   func(b *mocker.Builder, v int)
		call    func() int
		orig    int
		setup   func()
		// returnOnce: the valid instruction is a Return, which would extend a live stub's sequence: issued once, on a
		// target nothing was mocked on before
		returnOnce bool
		// stub: another way to mock the target before the refusal, through Return(11) instead of the valid Apply
		stub func(b *mocker.Builder)
	}
	cases := []tcase{
		{name: "Func(F)", orig: -1, call: func() int { return F(1) },
			refused: []func(b *mocker.Builder){
				func(b *mocker.Builder) { b.Func(F).Return() },
				func(b *mocker.Builder) { b.Func(F).Return(int8(1)) },
				func(b *mocker.Builder) { b.Func(F).Apply(func(a, c int) int { return 0 }) },
				func(b *mocker.Builder) { b.Func(F).When().Return(1) },
			},
			stub:  func(b *mocker.Builder) { b.Func(F).Return(11) },
			valid: func(b *mocker.Builder, v int) { b.Func(F).Apply(func(a int) int { return v }) }},
		{name: "Struct(&T{}).Method(M)", orig: -3, call: func() int { return (&T{}).M(1) },
			refused: []func(b *mocker.Builder){
				func(b *mocker.Builder) { b.Struct(&T{}).Method("M").Return() },
				func(b *mocker.Builder) { b.Struct(&T{}).Method("M").Apply(func(a int) int { return 0 }) },
				func(b *mocker.Builder) { b.Struct(&T{}).Method("Nope").Return(1) },
			},
			stub:  func(b *mocker.Builder) { b.Struct(&T{}).Method("M").Return(11) },
			valid: func(b *mocker.Builder, v int) { b.Struct(&T{}).Method("M").Apply(func(t *T, a int) int { return v }) }},
		{name: "ExportFunc(foo)", orig: -4, call: func() int { return foo(1) },
			refused: []func(b *mocker.Builder){
				func(b *mocker.Builder) { b.ExportFunc("foo").As(func(a int) int { return 0 }).Return() },
				func(b *mocker.Builder) { b.ExportFunc("foo").Apply(func(a, c int) int { return 0 }) },
			},
			stub:  func(b *mocker.Builder) { b.ExportFunc("foo").As(func(a int) int { return 0 }).Return(11) },
			valid: func(b *mocker.Builder, v int) { b.ExportFunc("foo").Apply(func(a int) int { return v }) }},
		{name: "Interface(&iv).Method(Get)", orig: -99, setup: func() { iv = nil },
			call: func() int {
				if iv == nil {
					return -99
				}
				return iv.Get(1)
			},
			refused: []func(b *mocker.Builder){
				// the As() function lacks the context parameter / a parameter: refused when the stub is installed
				func(b *mocker.Builder) {
					b.Interface(&iv).Method("Get").As(func(r *impl, a int) int { return 0 }).Return(1)
				},
				func(b *mocker.Builder) {
					b.Interface(&iv).Method("Get").As(func(ctx *mocker.IContext) int { return 0 }).When().Return(1)
				},
				func(b *mocker.Builder) {
					b.Interface(&iv).Method("Get").As(func(ctx *mocker.IContext) int { return 0 }).Returns(1, 2)
				},
				func(b *mocker.Builder) { b.Interface(&iv).Method("Get").Apply(func(a int) int { return 0 }) },
			},
			stub: func(b *mocker.Builder) { b.Interface(&iv).Method("Get").As(okGet).Return(11) },
			valid: func(b *mocker.Builder, v int) {
				// (a second Return on a live stub would extend its sequence; Apply replaces)
				b.Interface(&iv).Method("Get").Apply(func(ctx *mocker.IContext, a int) int { return v })
			}},
		{name: "Interface(&iv).Method(Get) [Return after the refusal]", orig: -99, setup: func() { iv = nil },
			call: func() int {
				if iv == nil {
					return -99
				}
				return iv.Get(1)
			},
			refused: []func(b *mocker.Builder){
				func(b *mocker.Builder) {
					b.Interface(&iv).Method("Get").As(func(r *impl, a int) int { return 0 }).Return(1)
				},
				func(b *mocker.Builder) {
					b.Interface(&iv).Method("Get").As(func(ctx *mocker.IContext) int { return 0 }).When().Return(1)
				},
				func(b *mocker.Builder) {
					b.Interface(&iv).Method("Get").As(func(ctx *mocker.IContext) int { return 0 }).Returns(1, 2)
				},
			},
			returnOnce: true,
			valid:      func(b *mocker.Builder, v int) { b.Interface(&iv).Method("Get").As(okGet).Return(v) }},
	}
	for _, tc := range cases {
		for ri, ref := range tc.refused {
			for _, pm := range []string{"", "apply", "stub"} {
				premocked := pm != ""
				if (tc.returnOnce && premocked) || (pm == "stub" && tc.stub == nil) {
					continue
				}
				if tc.setup != nil {
					tc.setup()
				}
				b := mocker.Create()
				c := map[string]interface{}{"target": tc.name, "refused_instruction": ri, "mocked_before": pm}
				rep.Journal(map[string]interface{}{"part": "after-refusal", "target": tc.name, "refused": ri, "premocked": premocked})
				if pm == "apply" {
					tc.valid(b, 11)
				} else if pm == "stub" {
					tc.stub(b)
				}
				var perr interface{}
				func() {
					defer func() { perr = recover() }()
					ref(b)
				}()
				rep.Eval(1)
				if perr == nil {
					// not refused: C13's business; nothing to assert here
					rep.Stat("refusals_that_were_accepted", 1)
					b.Reset()
					continue
				}
				if premocked {
					// the refused instruction changed nothing: the target still follows the instruction accepted before it
					for k := 0; k < 2; k++ {
						got := -777
						var cerr interface{}
						func() {
							defer func() { cerr = recover() }()
							got = tc.call()
						}()
						rep.Eval(1)
						if cerr != nil || got != 11 {
							rep.Violate("C12/refused-instruction-disturbed-the-previous-one", fmt.Sprintf("%s: mocked to give 11, then refused instruction #%d (%v): call %d gives %d (panic: %v)", tc.name, ri, firstLine12(perr), k+1, got, cerr), c)
							break
						}
					}
				}
				for step, v := range []int{42, 43} {
					if tc.returnOnce && step > 0 {
						break
					}
					var verr interface{}
					func() {
						defer func() { verr = recover() }()
						tc.valid(b, v)
					}()
					rep.Eval(1)
					if verr != nil {
						rep.Violate("C12/valid-instruction-refused-after-a-refusal", fmt.Sprintf("%s: after refused instruction #%d, valid instruction %d panicked: %v", tc.name, ri, step+1, verr), c)
						break
					}
					var got int
					func() {
						defer func() {
							if r := recover(); r != nil {
								got = -777
							}
						}()
						got = tc.call()
					}()
					if got != v {
						rep.Violate("C12/valid-instruction-ignored-after-a-refusal", fmt.Sprintf("%s (mocked before: %v): refused instruction #%d (%v), then Return(%d): the call gives %d", tc.name, premocked, ri, firstLine12(perr), v, got), c)
					}
				}
				b.Reset()
				if got := tc.call(); got != tc.orig {
					rep.Violate("C12/reset-incomplete", fmt.Sprintf("%s: after Reset the call gives %d, want the original %d", tc.name, got, tc.orig), c)
				}
				rep.Class(fmt.Sprintf("after-refusal/%s/%d/premocked=%s", tc.name, ri, pm))
			}
		}
	}
}

func firstLine12(v interface{}) string {
	s := fmt.Sprint(v)
	for i := 0; i < len(s); i++ {
		if s[i] == '\n' {
			return s[:i]
		}
	}
	return s
}
