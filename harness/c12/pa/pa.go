//go:build go1.21

package pa

//go:noinline
func foo(a int) int { return -11 }

//go:noinline
func Foo(a int) int { return foo(a) }

type keeper struct{ v int }

//go:noinline
func (k *keeper) peek(a int) int { return -21 - k.v*0 }

//go:noinline
func Peek(a int) int { return (&keeper{}).peek(a) }
