//go:build go1.21

package pa

//go:noinline
func foo(a int) int { return -11 }

//go:noinline
func Foo(a int) int { return foo(a) }
