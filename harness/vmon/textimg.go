//go:build go1.21

package vmon

import (
	"bufio"
	"fmt"
	"os"
	"strconv"
	"strings"
	"unsafe"
)

// Mapping is one line of /proc/self/maps.
type Mapping struct {
	Start, End uintptr
	Perms      string
	Path       string
}

// ReadMaps parses /proc/self/maps.
func ReadMaps() []Mapping {
	f, err := os.Open("/proc/self/maps")
	if err != nil {
		return nil
	}
	defer f.Close()
	var out []Mapping
	sc := bufio.NewScanner(f)
	sc.Buffer(make([]byte, 1<<20), 1<<20)
	for sc.Scan() {
		fs := strings.Fields(sc.Text())
		if len(fs) < 5 {
			continue
		}
		ab := strings.SplitN(fs[0], "-", 2)
		a, _ := strconv.ParseUint(ab[0], 16, 64)
		b, _ := strconv.ParseUint(ab[1], 16, 64)
		p := ""
		if len(fs) >= 6 {
			p = fs[5]
		}
		out = append(out, Mapping{uintptr(a), uintptr(b), fs[1], p})
	}
	return out
}

// Range is a half-open byte range of the image.
type Range struct{ Start, End uintptr }

func (r Range) String() string { return fmt.Sprintf("[%#x,%#x)", r.Start, r.End) }

// TextImage is the pristine copy of every executable byte of the program image.
type TextImage struct {
	segs []imgSeg
}

type imgSeg struct {
	start uintptr
	data  []byte
}

func rawBytes(addr uintptr, n int) []byte {
	return unsafe.Slice((*byte)(unsafe.Pointer(addr)), n) //nolint
}

// SnapshotText copies all executable mappings backed by our own executable.
// Call it before anything is patched.
func SnapshotText() *TextImage {
	exe, _ := os.Readlink("/proc/self/exe")
	t := &TextImage{}
	for _, m := range ReadMaps() {
		if m.Path != exe || !strings.Contains(m.Perms, "x") {
			continue
		}
		n := int(m.End - m.Start)
		cp := make([]byte, n)
		copy(cp, rawBytes(m.Start, n))
		// merge adjacent
		if k := len(t.segs); k > 0 && t.segs[k-1].start+uintptr(len(t.segs[k-1].data)) == m.Start {
			t.segs[k-1].data = append(t.segs[k-1].data, cp...)
		} else {
			t.segs = append(t.segs, imgSeg{m.Start, cp})
		}
	}
	return t
}

// Size is the number of bytes watched.
func (t *TextImage) Size() int {
	n := 0
	for _, s := range t.segs {
		n += len(s.data)
	}
	return n
}

// Bounds returns the lowest and highest watched address.
func (t *TextImage) Bounds() (uintptr, uintptr) {
	if len(t.segs) == 0 {
		return 0, 0
	}
	l := t.segs[len(t.segs)-1]
	return t.segs[0].start, l.start + uintptr(len(l.data))
}

// Contains reports whether addr is inside the watched image.
func (t *TextImage) Contains(addr uintptr) bool {
	for _, s := range t.segs {
		if addr >= s.start && addr < s.start+uintptr(len(s.data)) {
			return true
		}
	}
	return false
}

// Pristine returns the pristine bytes at [addr,addr+n).
func (t *TextImage) Pristine(addr uintptr, n int) []byte {
	for _, s := range t.segs {
		if addr >= s.start && addr+uintptr(n) <= s.start+uintptr(len(s.data)) {
			o := int(addr - s.start)
			return s.data[o : o+n]
		}
	}
	return nil
}

// Diff returns the maximal byte ranges whose current content differs from the
// pristine copy (gaps of < 1 byte are not merged: ranges are exact).
func (t *TextImage) Diff() []Range {
	var out []Range
	for _, s := range t.segs {
		cur := rawBytes(s.start, len(s.data))
		n := len(cur)
		i := 0
		for i < n {
			// fast skip by 8
			for i+8 <= n && *(*uint64)(unsafe.Pointer(&cur[i])) == *(*uint64)(unsafe.Pointer(&s.data[i])) {
				i += 8
			}
			if i >= n {
				break
			}
			if cur[i] == s.data[i] {
				i++
				continue
			}
			j := i
			for j < n && cur[j] != s.data[j] {
				j++
			}
			out = append(out, Range{s.start + uintptr(i), s.start + uintptr(j)})
			i = j
		}
	}
	return out
}

// DiffOutside returns the differing ranges clipped to what lies outside all
// allowed ranges.
func (t *TextImage) DiffOutside(allowed []Range) []Range {
	var out []Range
	for _, d := range t.Diff() {
		pieces := []Range{d}
		for _, a := range allowed {
			var nx []Range
			for _, p := range pieces {
				if a.End <= p.Start || a.Start >= p.End {
					nx = append(nx, p)
					continue
				}
				if p.Start < a.Start {
					nx = append(nx, Range{p.Start, a.Start})
				}
				if a.End < p.End {
					nx = append(nx, Range{a.End, p.End})
				}
			}
			pieces = nx
		}
		out = append(out, pieces...)
	}
	return out
}

// BadPerms lists watched pages that are currently writable or not executable.
func (t *TextImage) BadPerms() []Mapping {
	lo, hi := t.Bounds()
	var bad []Mapping
	for _, m := range ReadMaps() {
		if m.End <= lo || m.Start >= hi {
			continue
		}
		// only the part overlapping watched segments
		over := false
		for _, s := range t.segs {
			if m.Start < s.start+uintptr(len(s.data)) && m.End > s.start {
				over = true
			}
		}
		if !over {
			continue
		}
		if strings.Contains(m.Perms, "w") || !strings.Contains(m.Perms, "x") || !strings.Contains(m.Perms, "r") {
			bad = append(bad, m)
		}
	}
	return bad
}

// PermsOf returns the permission string of the mapping containing addr.
func PermsOf(addr uintptr) string {
	for _, m := range ReadMaps() {
		if addr >= m.Start && addr < m.End {
			return m.Perms
		}
	}
	return ""
}

// InHeap reports whether addr lies in an anonymous rw mapping (Go heap arenas
// are anonymous; rodata/data of the executable are file-backed).
func InHeap(addr uintptr, maps []Mapping) bool {
	for _, m := range maps {
		if addr >= m.Start && addr < m.End {
			return m.Path == "" && strings.HasPrefix(m.Perms, "rw")
		}
	}
	return false
}
