//go:build go1.21

package vmon

import (
	"encoding/binary"
	"fmt"
	"math"
	"reflect"
	"runtime"
	"sort"
	"strings"
	"sync"
	"sync/atomic"
	"time"
	"unsafe"
)

// ---------------------------------------------------------------- jump decoder

// JumpKind classifies the byte sequence found at an address.
type JumpKind int

const (
	JumpNone  JumpKind = iota
	JumpEntry          // 90 48 BA imm64 FF 22   (goom's entry jump, 13 bytes)
	JumpStub           // 48 BA imm64 FF 22      (interface stub / far return, 12 bytes)
	JumpRel            // E9 rel32
)

// Jump is a decoded goom jump.
type Jump struct {
	Kind   JumpKind
	Ctx    uintptr // value loaded into RDX (address of the func value object)
	Target uintptr // where control goes: *(*uintptr)(Ctx) for the indirect forms
	Len    int
}

// DecodeJumpBytes recognises goom's jump forms in b (located at addr).
// deref controls whether the indirect target is read from memory.
func DecodeJumpBytes(b []byte, addr uintptr, deref bool) Jump {
	if len(b) >= 13 && b[0] == 0x90 && b[1] == 0x48 && b[2] == 0xBA && b[11] == 0xFF && b[12] == 0x22 {
		j := Jump{Kind: JumpEntry, Ctx: uintptr(binary.LittleEndian.Uint64(b[3:11])), Len: 13}
		if deref && j.Ctx != 0 {
			j.Target = *(*uintptr)(unsafe.Pointer(j.Ctx)) //nolint
		}
		return j
	}
	if len(b) >= 12 && b[0] == 0x48 && b[1] == 0xBA && b[10] == 0xFF && b[11] == 0x22 {
		j := Jump{Kind: JumpStub, Ctx: uintptr(binary.LittleEndian.Uint64(b[2:10])), Len: 12}
		if deref && j.Ctx != 0 {
			j.Target = *(*uintptr)(unsafe.Pointer(j.Ctx)) //nolint
		}
		return j
	}
	if len(b) >= 5 && b[0] == 0xE9 {
		rel := int32(binary.LittleEndian.Uint32(b[1:5]))
		return Jump{Kind: JumpRel, Target: uintptr(int64(addr) + 5 + int64(rel)), Len: 5}
	}
	return Jump{}
}

// DecodeJumpAt reads memory at addr and decodes it.
//
//go:nocheckptr
func DecodeJumpAt(addr uintptr) Jump {
	return DecodeJumpBytes(rawBytes(addr, 13), addr, true)
}

// ReadMem copies n bytes at addr.
//
//go:nocheckptr
func ReadMem(addr uintptr, n int) []byte {
	out := make([]byte, n)
	copy(out, rawBytes(addr, n))
	return out
}

// ------------------------------------------------------- GC-reachability monitor

// GCMon watches objects whose addresses are embedded in machine code.
type GCMon struct {
	mu      sync.Mutex
	entries []*gcEntry
	byAddr  map[uintptr]*gcEntry
	maps    []Mapping
}

type gcEntry struct {
	addr  uintptr
	label string
	fired int32
}

// NewGCMon creates a monitor.
func NewGCMon() *GCMon { return &GCMon{byAddr: map[uintptr]*gcEntry{}} }

// Arm attaches a finalizer to the heap object at addr (ignored when addr is
// not in an anonymous rw mapping, i.e. a static closure).  Returns whether armed.
//
//go:nocheckptr
func (g *GCMon) Arm(addr uintptr, label string) bool {
	g.mu.Lock()
	defer g.mu.Unlock()
	if addr == 0 {
		return false
	}
	if _, ok := g.byAddr[addr]; ok {
		return true
	}
	g.maps = ReadMaps()
	if !InHeap(addr, g.maps) {
		return false
	}
	e := &gcEntry{addr: addr, label: label}
	p := (*uintptr)(unsafe.Pointer(addr)) //nolint
	ok := true
	func() {
		defer func() {
			if r := recover(); r != nil {
				ok = false
			}
		}()
		runtime.SetFinalizer(p, func(_ *uintptr) { atomic.StoreInt32(&e.fired, 1) })
	}()
	if !ok {
		return false
	}
	g.entries = append(g.entries, e)
	g.byAddr[addr] = e
	return true
}

// Disarm forgets an address (call when the code embedding it is removed).
//
//go:nocheckptr
func (g *GCMon) Disarm(addr uintptr) {
	g.mu.Lock()
	defer g.mu.Unlock()
	if e, ok := g.byAddr[addr]; ok {
		delete(g.byAddr, addr)
		if atomic.LoadInt32(&e.fired) == 0 {
			func() {
				defer func() { recover() }()
				runtime.SetFinalizer((*uintptr)(unsafe.Pointer(addr)), nil) //nolint
			}()
		}
		for i, x := range g.entries {
			if x == e {
				g.entries = append(g.entries[:i], g.entries[i+1:]...)
				break
			}
		}
	}
}

// Armed is the number of watched objects.
func (g *GCMon) Armed() int { g.mu.Lock(); defer g.mu.Unlock(); return len(g.entries) }

type sentinel struct{ x [4]uintptr }

// Collect forces garbage collections until two successive sentinel
// finalizers have run (so that finalizers queued before them have run too)
// and returns the labels of watched objects whose finalizer fired.
// ok=false means the sentinels did not fire within the generous wait:
// inconclusive, never a violation.
func (g *GCMon) Collect() (fired []string, ok bool) {
	ok = true
	for round := 0; round < 2; round++ {
		ch := make(chan struct{}, 1)
		s := &sentinel{}
		runtime.SetFinalizer(s, func(*sentinel) { ch <- struct{}{} })
		s = nil
		got := false
		for i := 0; i < 200 && !got; i++ {
			runtime.GC()
			select {
			case <-ch:
				got = true
			case <-time.After(5 * time.Millisecond):
			}
		}
		if !got {
			ok = false
		}
	}
	g.mu.Lock()
	defer g.mu.Unlock()
	for _, e := range g.entries {
		if atomic.LoadInt32(&e.fired) == 1 {
			fired = append(fired, e.label)
		}
	}
	sort.Strings(fired)
	return
}

// Churn allocates and drops garbage so that freed slots get reused.
func Churn(n int) {
	var keep [][]byte
	for i := 0; i < n; i++ {
		b := make([]byte, 16+(i%7)*16)
		for j := range b {
			b[j] = 0xCC
		}
		if i%16 == 0 {
			keep = append(keep, b)
		}
	}
	runtime.KeepAlive(keep)
}

// ------------------------------------------------------------ canonical encoder

// Enc renders a value canonically and bit-exactly: floats by bits, strings by
// bytes, slices by len/cap/contents, pointers by pointee (and by address when
// withAddr), interfaces by dynamic type + value, funcs/maps/chans by identity.
func Enc(x interface{}) string {
	var sb strings.Builder
	enc(&sb, reflect.ValueOf(x), true, 0)
	return sb.String()
}

// EncNoAddr is Enc without raw addresses of pointers (for values that may
// legitimately move, e.g. pointers into a goroutine stack).
func EncNoAddr(x interface{}) string {
	var sb strings.Builder
	enc(&sb, reflect.ValueOf(x), false, 0)
	return sb.String()
}

func enc(sb *strings.Builder, v reflect.Value, withAddr bool, depth int) {
	if !v.IsValid() {
		sb.WriteString("<nil>")
		return
	}
	if depth > 6 {
		sb.WriteString("<deep>")
		return
	}
	switch v.Kind() {
	case reflect.Bool:
		fmt.Fprintf(sb, "%v", v.Bool())
	case reflect.Int, reflect.Int8, reflect.Int16, reflect.Int32, reflect.Int64:
		fmt.Fprintf(sb, "%s:%d", v.Type().String(), v.Int())
	case reflect.Uint, reflect.Uint8, reflect.Uint16, reflect.Uint32, reflect.Uint64, reflect.Uintptr:
		fmt.Fprintf(sb, "%s:%d", v.Type().String(), v.Uint())
	case reflect.Float32:
		fmt.Fprintf(sb, "f32:%08x", math.Float32bits(float32(v.Float())))
	case reflect.Float64:
		fmt.Fprintf(sb, "f64:%016x", math.Float64bits(v.Float()))
	case reflect.Complex64:
		c := v.Complex()
		fmt.Fprintf(sb, "c64:%08x,%08x", math.Float32bits(float32(real(c))), math.Float32bits(float32(imag(c))))
	case reflect.Complex128:
		c := v.Complex()
		fmt.Fprintf(sb, "c128:%016x,%016x", math.Float64bits(real(c)), math.Float64bits(imag(c)))
	case reflect.String:
		s := v.String()
		if len(s) > 64 {
			fmt.Fprintf(sb, "str[%d]:%q..%x", len(s), s[:32], fnv(s))
		} else {
			fmt.Fprintf(sb, "str[%d]:%q", len(s), s)
		}
	case reflect.Slice:
		if v.IsNil() {
			sb.WriteString("slice:nil")
			return
		}
		fmt.Fprintf(sb, "slice[%d/%d", v.Len(), v.Cap())
		if withAddr {
			fmt.Fprintf(sb, "@%x", v.Pointer())
		}
		sb.WriteString("]{")
		n := v.Len()
		if n > 40 {
			n = 40
		}
		for i := 0; i < n; i++ {
			enc(sb, v.Index(i), withAddr, depth+1)
			sb.WriteByte(',')
		}
		sb.WriteString("}")
	case reflect.Array:
		fmt.Fprintf(sb, "arr[%d]{", v.Len())
		for i := 0; i < v.Len(); i++ {
			enc(sb, v.Index(i), withAddr, depth+1)
			sb.WriteByte(',')
		}
		sb.WriteString("}")
	case reflect.Struct:
		sb.WriteString(v.Type().String())
		sb.WriteString("{")
		for i := 0; i < v.NumField(); i++ {
			enc(sb, v.Field(i), withAddr, depth+1)
			sb.WriteByte(';')
		}
		sb.WriteString("}")
	case reflect.Ptr:
		if v.IsNil() {
			fmt.Fprintf(sb, "ptr(%s):nil", v.Type().String())
			return
		}
		sb.WriteString("ptr")
		if withAddr {
			fmt.Fprintf(sb, "@%x", v.Pointer())
		}
		sb.WriteString("->")
		enc(sb, v.Elem(), withAddr, depth+1)
	case reflect.Interface:
		if v.IsNil() {
			fmt.Fprintf(sb, "iface(%s):nil", v.Type().String())
			return
		}
		fmt.Fprintf(sb, "iface<%s>:", v.Elem().Type().String())
		enc(sb, v.Elem(), withAddr, depth+1)
	case reflect.Func:
		if v.IsNil() {
			sb.WriteString("func:nil")
			return
		}
		fmt.Fprintf(sb, "func@%x", v.Pointer())
		if v.CanInterface() {
			fmt.Fprintf(sb, "/%x", FuncValuePtr(v.Interface()))
		}
	case reflect.Map, reflect.Chan, reflect.UnsafePointer:
		if v.Kind() != reflect.UnsafePointer && v.IsNil() {
			fmt.Fprintf(sb, "%s:nil", v.Kind())
			return
		}
		fmt.Fprintf(sb, "%s@%x", v.Kind(), v.Pointer())
		if v.Kind() == reflect.Map || v.Kind() == reflect.Chan {
			fmt.Fprintf(sb, "#%d", v.Len())
		}
	default:
		fmt.Fprintf(sb, "?%s", v.Kind())
	}
}

func fnv(s string) uint64 {
	h := uint64(14695981039346656037)
	for i := 0; i < len(s); i++ {
		h ^= uint64(s[i])
		h *= 1099511628211
	}
	return h
}

// FuncValuePtr returns the address of the func value object (closure) behind
// a func-typed interface value; 0 for nil.
func FuncValuePtr(f interface{}) uintptr {
	if f == nil {
		return 0
	}
	return uintptr((*[2]unsafe.Pointer)(unsafe.Pointer(&f))[1])
}

// FuncCodePtr returns the entry PC of a func value.
func FuncCodePtr(f interface{}) uintptr { return reflect.ValueOf(f).Pointer() }

// ------------------------------------------------------------- history recorder

// Clock is the single logical clock all history events are stamped from.
type Clock struct{ t int64 }

// Tick returns the next stamp.
func (c *Clock) Tick() int64 { return atomic.AddInt64(&c.t, 1) }

// Op is one completed client operation.
type Op struct {
	Client int   `json:"c"`
	Call   int64 `json:"call"`
	Ret    int64 `json:"ret"`
	In     int64 `json:"in"`
	Out    int64 `json:"out"`
}

// SpinBarrier releases n goroutines at (nearly) the same instant.
type SpinBarrier struct {
	n     int32
	ready int32
	go_   int32
}

// NewSpinBarrier creates a barrier for n parties.
func NewSpinBarrier(n int) *SpinBarrier { return &SpinBarrier{n: int32(n)} }

// Wait blocks (spinning) until all parties have arrived.
func (b *SpinBarrier) Wait() {
	if atomic.AddInt32(&b.ready, 1) == b.n {
		atomic.StoreInt32(&b.go_, 1)
		return
	}
	// more parties than processors: the spinners must hand their processor on quickly, or (without asynchronous
	// preemption) the late parties wait for millions of iterations each
	lim := 1 << 22
	if int(b.n) > runtime.GOMAXPROCS(0) {
		lim = 1 << 8
	}
	for i := 0; atomic.LoadInt32(&b.go_) == 0; i++ {
		if i > lim {
			runtime.Gosched()
		}
	}
}

// GrowStack recurses so that the goroutine stack must be copied; returns a
// value depending on the recursion so the compiler keeps the frames.
//
//go:noinline
func GrowStack(depth int) int {
	var pad [256]byte
	pad[depth%256] = byte(depth)
	if depth <= 0 {
		return int(pad[0])
	}
	return GrowStack(depth-1) + int(pad[depth%256])
}
