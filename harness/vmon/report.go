//go:build go1.21

// Package vmon holds the monitors shared by every /verif harness: the child
// process report/journal protocol, a deterministic PRNG, the text-image
// monitor, the jump decoder, the GC-reachability monitor, the canonical value
// encoder and the history recorder.  It imports nothing from goom so that
// in-package test files of any goom package may use it.
package vmon

import (
	"encoding/json"
	"fmt"
	"os"
	"sort"
	"strconv"
	"sync"
)

// Violation is one refuting observation.  Key names the failing input class /
// call site / history precisely; the driver matches it against
// /verif/known_findings.json.
type Violation struct {
	Key  string      `json:"key"`
	What string      `json:"what"`
	Case interface{} `json:"case,omitempty"`
}

// Report is what one child process hands to the driver.
type Report struct {
	mu           sync.Mutex
	Property     string            `json:"property"`
	Evaluations  int64             `json:"evaluations"`
	Distinct     []string          `json:"distinct"`
	Rule         string            `json:"rule"`
	Samples      []interface{}     `json:"samples"`
	Stats        map[string]int64  `json:"stats"`
	Notes        map[string]string `json:"notes,omitempty"`
	Violations   []Violation       `json:"violations"`
	Inconclusive string            `json:"inconclusive,omitempty"`
	Assumptions  []string          `json:"assumptions,omitempty"`
	distinct     map[string]struct{}
	vioCount     map[string]int
	journal      *os.File
	maxSamples   int
}

// NewReport creates the report for this child.
func NewReport(property string) *Report {
	r := &Report{Property: property, Stats: map[string]int64{}, Notes: map[string]string{},
		distinct: map[string]struct{}{}, vioCount: map[string]int{}, maxSamples: 6}
	if p := os.Getenv("VERIF_JOURNAL"); p != "" {
		f, err := os.OpenFile(p, os.O_CREATE|os.O_WRONLY|os.O_APPEND, 0o644)
		if err == nil {
			r.journal = f
		}
	}
	return r
}

// Eval counts n evaluated cases.
func (r *Report) Eval(n int64) { r.mu.Lock(); r.Evaluations += n; r.mu.Unlock() }

// Class records a distinct non-trivial class key.
func (r *Report) Class(key string) {
	r.mu.Lock()
	if len(r.distinct) < 200000 {
		r.distinct[key] = struct{}{}
	}
	r.mu.Unlock()
}

// NumClasses returns the number of distinct classes so far.
func (r *Report) NumClasses() int { r.mu.Lock(); defer r.mu.Unlock(); return len(r.distinct) }

// Stat adds to a named counter.
func (r *Report) Stat(name string, d int64) { r.mu.Lock(); r.Stats[name] += d; r.mu.Unlock() }

// StatMax keeps the maximum of a named gauge.
func (r *Report) StatMax(name string, v int64) {
	r.mu.Lock()
	if v > r.Stats[name] {
		r.Stats[name] = v
	}
	r.mu.Unlock()
}

// Note stores a free-text observation.
func (r *Report) Note(name, v string) { r.mu.Lock(); r.Notes[name] = v; r.mu.Unlock() }

// Sample keeps a few written-out cases.
func (r *Report) Sample(s interface{}) {
	r.mu.Lock()
	if len(r.Samples) < r.maxSamples {
		r.Samples = append(r.Samples, s)
	}
	r.mu.Unlock()
}

// Violate records a violation (at most 5 written out per key, all counted).
func (r *Report) Violate(key, what string, c interface{}) {
	r.mu.Lock()
	r.vioCount[key]++
	r.Stats["violations:"+key]++
	if r.vioCount[key] <= 5 {
		r.Violations = append(r.Violations, Violation{Key: key, What: what, Case: c})
	}
	r.mu.Unlock()
}

// NumViolations returns how many violations were recorded.
func (r *Report) NumViolations() int {
	r.mu.Lock()
	defer r.mu.Unlock()
	n := 0
	for _, c := range r.vioCount {
		n += c
	}
	return n
}

// Journal appends one line describing the case that is about to run, and
// syncs it, so the driver can name the case if the process dies.
func (r *Report) Journal(v interface{}) {
	if r.journal == nil {
		return
	}
	b, _ := json.Marshal(v)
	r.mu.Lock()
	r.journal.Write(append(b, '\n'))
	r.mu.Unlock()
}

// JournalSync flushes the journal to disk.
func (r *Report) JournalSync() {
	if r.journal != nil {
		r.journal.Sync()
	}
}

// Write stores the report where the driver expects it.
func (r *Report) Write() {
	r.mu.Lock()
	defer r.mu.Unlock()
	r.Distinct = r.Distinct[:0]
	for k := range r.distinct {
		r.Distinct = append(r.Distinct, k)
	}
	sort.Strings(r.Distinct)
	if r.Samples == nil {
		r.Samples = []interface{}{}
	}
	if r.Violations == nil {
		r.Violations = []Violation{}
	}
	p := os.Getenv("VERIF_OUT")
	b, err := json.Marshal(r)
	if err != nil {
		b = []byte(fmt.Sprintf(`{"property":%q,"inconclusive":"report marshal: %s"}`, r.Property, err))
	}
	if p == "" {
		os.Stdout.Write(append(b, '\n'))
		return
	}
	tmp := p + ".tmp"
	if err := os.WriteFile(tmp, b, 0o644); err == nil {
		os.Rename(tmp, p)
	}
}

// Seed returns VERIF_SEED (default 1).
func Seed() uint64 {
	if s := os.Getenv("VERIF_SEED"); s != "" {
		if v, err := strconv.ParseInt(s, 10, 64); err == nil {
			return uint64(v)
		}
	}
	return 1
}

// Thorough reports whether VERIF_TIER=thorough.
func Thorough() bool { return os.Getenv("VERIF_TIER") == "thorough" }

// Shard returns (index, count) of this child among its siblings.
func Shard() (int, int) {
	i, _ := strconv.Atoi(os.Getenv("VERIF_SHARD"))
	n, _ := strconv.Atoi(os.Getenv("VERIF_NSHARDS"))
	if n <= 0 {
		n = 1
	}
	return i, n
}

// EnvInt reads an integer knob with default.
func EnvInt(name string, def int) int {
	if s := os.Getenv(name); s != "" {
		if v, err := strconv.Atoi(s); err == nil {
			return v
		}
	}
	return def
}

// Rng is splitmix64: deterministic, seedable from (seed, stream).
type Rng struct{ s uint64 }

// NewRng derives a generator from the run seed and a stream id.
func NewRng(seed uint64, stream uint64) *Rng {
	r := &Rng{s: seed*0x9E3779B97F4A7C15 ^ (stream+1)*0xBF58476D1CE4E5B9}
	r.Uint64()
	return r
}

// Uint64 returns the next value.
func (r *Rng) Uint64() uint64 {
	r.s += 0x9E3779B97F4A7C15
	z := r.s
	z = (z ^ (z >> 30)) * 0xBF58476D1CE4E5B9
	z = (z ^ (z >> 27)) * 0x94D049BB133111EB
	return z ^ (z >> 31)
}

// Intn returns a value in [0,n).
func (r *Rng) Intn(n int) int {
	if n <= 0 {
		return 0
	}
	return int(r.Uint64() % uint64(n))
}

// Bool returns a coin flip.
func (r *Rng) Bool() bool { return r.Uint64()&1 == 1 }

// Chance returns true with probability num/den.
func (r *Rng) Chance(num, den int) bool { return r.Intn(den) < num }

// Parallel runs f(0..n-1) on up to 16 goroutines.
func Parallel(n int, f func(i int)) {
	var wg sync.WaitGroup
	sem := make(chan struct{}, 16)
	for i := 0; i < n; i++ {
		wg.Add(1)
		sem <- struct{}{}
		go func(i int) {
			defer func() { <-sem; wg.Done() }()
			f(i)
		}(i)
	}
	wg.Wait()
}
