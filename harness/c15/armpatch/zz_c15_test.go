//go:build go1.21

package patch

import (
	"fmt"
	"testing"

	c15lib "github.com/tencent/goom/zzverif/c15lib"
	"github.com/tencent/goom/zzverif/vmon"
)

// This package consists of the CURRENT /repo/internal/patch/monkey_arm64.go
// (overlay-mapped under a neutral file name so it compiles on amd64) plus this test.
func TestC15Arm64Patch(t *testing.T) {
	rep := vmon.NewReport("C15")
	defer rep.Write()
	rng := vmon.NewRng(vmon.Seed(), 17)
	nb := 4
	if vmon.Thorough() {
		nb = 24
	}
	bases := []uint64{0, ^uint64(0), 0x0000ffff12345678}
	for i := 0; i < nb; i++ {
		bases = append(bases, rng.Uint64())
	}
	vmon.Parallel(len(bases)*4, func(bi int) {
		base, lane := bases[bi/4], uint(bi%4)
		{
			n := int64(0)
			for v := uint64(0); v < 65536; v++ {
				n++
				to := base&^(uint64(0xffff)<<(16*lane)) | v<<(16*lane)
				b := jmpToFunctionValue(0, uintptr(to))
				if why := c15lib.Arm64(b, to); why != "" {
					rep.Violate("C15/arm64-entry-jump", why, map[string]interface{}{"to": fmt.Sprintf("%#x", to), "bytes": fmt.Sprintf("%x", b)})
				}
			}
			rep.Class(fmt.Sprintf("arm64-entry/lane%d", lane))
			rep.Eval(n)
		}
	})
	rep.Sample(map[string]interface{}{"emitter": "arm64 jmpToFunctionValue", "to": "0xffff12345678", "bytes": fmt.Sprintf("%x", jmpToFunctionValue(0, 0xffff12345678))})
}
