//go:build go1.21

// Package c15lib interprets emitted jump sequences symbolically, using the
// reference decoders only (never goom's own decoders).
package c15lib

import (
	"encoding/binary"
	"fmt"
	"strconv"
	"strings"

	arm "github.com/tencent/goom/zzverif/ref/arm64asm"
	x86 "github.com/tencent/goom/zzverif/ref/x86asm"
)

// Amd64Abs checks `[NOP] MOV RDX, imm64 ; JMP [RDX]` with imm64 == to.
func Amd64Abs(b []byte, to uint64, wantNop bool) string {
	pos := 0
	if wantNop {
		i, err := x86.Decode(b, 64)
		if err != nil || i.Op != x86.NOP || i.Len != 1 {
			return fmt.Sprintf("first instruction is not a 1-byte NOP: %v %v", i, err)
		}
		pos = 1
	}
	i, err := x86.Decode(b[pos:], 64)
	if err != nil {
		return "undecodable: " + err.Error()
	}
	if i.Op != x86.MOV || i.Args[0] != x86.Reg(x86.RDX) {
		return "not MOV RDX,imm: " + i.String()
	}
	imm, ok := i.Args[1].(x86.Imm)
	if !ok {
		return "MOV source is not an immediate: " + i.String()
	}
	if uint64(imm) != to {
		return fmt.Sprintf("RDX is loaded with %#x, want %#x", uint64(imm), to)
	}
	pos += i.Len
	j, err := x86.Decode(b[pos:], 64)
	if err != nil {
		return "undecodable jump: " + err.Error()
	}
	m, ok := j.Args[0].(x86.Mem)
	if j.Op != x86.JMP || !ok || m.Base != x86.RDX || m.Index != 0 || m.Disp != 0 || m.Segment != 0 {
		return "not JMP [RDX]: " + j.String()
	}
	pos += j.Len
	if pos != len(b) {
		return fmt.Sprintf("sequence is %d bytes but %d were emitted", pos, len(b))
	}
	return ""
}

// Amd64Rel checks `JMP rel32` located at from lands on to.
func Amd64Rel(b []byte, from, to uint64) string {
	i, err := x86.Decode(b, 64)
	if err != nil {
		return "undecodable: " + err.Error()
	}
	r, ok := i.Args[0].(x86.Rel)
	if i.Op != x86.JMP || !ok || i.Len != 5 || len(b) != 5 {
		return "not a 5-byte JMP rel32: " + i.String()
	}
	got := from + 5 + uint64(int64(int32(r)))
	if got != to {
		return fmt.Sprintf("JMP rel32 at %#x lands on %#x, want %#x (off by %#x)", from, got, to, got-to)
	}
	return ""
}

// IsRelForm reports whether the bytes start with E9.
func IsRelForm(b []byte) bool { return len(b) == 5 && b[0] == 0xE9 }

func parseImm(s string) (uint64, bool) {
	s = strings.TrimPrefix(strings.TrimSpace(s), "#")
	v, err := strconv.ParseUint(s, 0, 64)
	return v, err == nil
}

// Arm64 checks MOVZ/MOVK x3 into one scratch register reconstructing `to`,
// then LDR Xn,[Xscratch]; BR Xn.
func Arm64(b []byte, to uint64) string {
	if len(b) != 24 {
		return fmt.Sprintf("expected 24 bytes, got %d", len(b))
	}
	var val uint64
	var known [4]bool
	var scratch arm.Reg
	for k := 0; k < 4; k++ {
		w := b[4*k : 4*k+4]
		i, err := arm.Decode(w)
		if err != nil {
			return fmt.Sprintf("word %d (%08x) undecodable: %v", k, binary.LittleEndian.Uint32(w), err)
		}
		reg, ok := i.Args[0].(arm.Reg)
		if !ok {
			return "destination is not a register: " + i.String()
		}
		if k == 0 {
			scratch = reg
		} else if reg != scratch {
			return fmt.Sprintf("word %d writes %v, earlier words wrote %v", k, reg, scratch)
		}
		var imm, shift uint64
		switch a := i.Args[1].(type) {
		case arm.Imm64:
			imm = a.Imm
		case arm.Imm:
			imm = uint64(a.Imm)
		case arm.ImmShift:
			// fields are unexported: "#0x1234, LSL #16"
			ops := strings.Split(a.String(), ",")
			var ok bool
			if imm, ok = parseImm(ops[0]); !ok {
				return "cannot parse immediate: " + i.String()
			}
			if len(ops) > 1 {
				t := strings.TrimSpace(ops[1])
				if !strings.HasPrefix(t, "LSL #") {
					return "unexpected shift: " + i.String()
				}
				shift, _ = strconv.ParseUint(strings.TrimPrefix(t, "LSL #"), 10, 64)
			}
		default:
			return "unexpected source operand: " + i.String()
		}
		switch i.Op {
		case arm.MOV, arm.MOVZ:
			// MOV Xd,#imm is the preferred disassembly of MOVZ: the whole register is written
			if i.Op == arm.MOV {
				val = imm
			} else {
				val = imm << shift
			}
			known = [4]bool{true, true, true, true}
		case arm.MOVK:
			if imm > 0xffff || shift%16 != 0 || shift > 48 {
				return "bad MOVK: " + i.String()
			}
			val = val&^(uint64(0xffff)<<shift) | imm<<shift
			known[shift/16] = true
		default:
			return "not a move-wide instruction: " + i.String()
		}
	}
	if scratch < arm.X0 || scratch > arm.X30 {
		return "scratch register is not a 64-bit general register: " + scratch.String()
	}
	for l, k := range known {
		if !k {
			return fmt.Sprintf("lane %d of %v is never written", l, scratch)
		}
	}
	if val != to {
		return fmt.Sprintf("%v is loaded with %#x, want %#x", scratch, val, to)
	}
	i, err := arm.Decode(b[16:20])
	if err != nil {
		return "LDR undecodable"
	}
	xn, ok1 := i.Args[0].(arm.Reg)
	mem, ok2 := i.Args[1].(arm.MemImmediate)
	if i.Op != arm.LDR || !ok1 || !ok2 || xn < arm.X0 || xn > arm.X30 || arm.Reg(mem.Base) != scratch || mem.String() != "["+scratch.String()+"]" {
		return "not LDR Xn,[" + scratch.String() + "]: " + i.String()
	}
	j, err := arm.Decode(b[20:24])
	if err != nil {
		return "BR undecodable"
	}
	if br, ok := j.Args[0].(arm.Reg); j.Op != arm.BR || !ok || br != xn {
		return fmt.Sprintf("branch is %q, want BR %v", j.String(), xn)
	}
	return ""
}
