//go:build go1.21

package iface

import (
	"fmt"
	"testing"

	c15lib "github.com/tencent/goom/zzverif/c15lib"
	"github.com/tencent/goom/zzverif/vmon"
)

func TestC15Amd64Iface(t *testing.T) {
	rep := vmon.NewReport("C15")
	defer rep.Write()
	rng := vmon.NewRng(vmon.Seed(), 16)
	nb := 4
	if vmon.Thorough() {
		nb = 24
	}
	bases := []uint64{0, ^uint64(0), 0x000000c000012340}
	for i := 0; i < nb; i++ {
		bases = append(bases, rng.Uint64())
	}
	vmon.Parallel(len(bases)*4, func(bi int) {
		base, lane := bases[bi/4], uint(bi%4)
		{
			n := int64(0)
			for v := uint64(0); v < 65536; v++ {
				n++
				to := base&^(uint64(0xffff)<<(16*lane)) | v<<(16*lane)
				b := jmpWithRdx(uintptr(to))
				if why := c15lib.Amd64Abs(b, to, false); why != "" {
					rep.Violate("C15/amd64-iface-stub", why, map[string]interface{}{"ctx": fmt.Sprintf("%#x", to), "bytes": fmt.Sprintf("%x", b)})
				}
			}
			rep.Class(fmt.Sprintf("iface-stub/lane%d", lane))
			rep.Eval(n)
		}
	})
	if len(jmpWithRdx(1)) > interfaceJumpDataLen {
		rep.Violate("C15/amd64-iface-stub-too-long", fmt.Sprintf("stub is %d bytes but only %d are acquired", len(jmpWithRdx(1)), interfaceJumpDataLen), nil)
	}
	rep.Sample(map[string]interface{}{"emitter": "iface.jmpWithRdx", "ctx": "0xc000012340", "bytes": fmt.Sprintf("%x", jmpWithRdx(0xc000012340))})
}
