//go:build go1.21

package patch

import (
	"fmt"
	"io"
	"syscall"
	"testing"
	"unsafe"

	"github.com/tencent/goom/zzverif/vmon"
)

func ptrOf(a uintptr) unsafe.Pointer { return *(*unsafe.Pointer)(unsafe.Pointer(&a)) }

//go:noinline
func c15Victim(a int) int { return a*7 + c15Pad*0 }

//go:noinline
func c15Victim2(a, b int) int { return a*7 + b + c15Pad*0 }

var c15Pad = 1

//go:noinline
func c15Factory(tag int) func(int) int { return func(a int) int { return a + tag } }

type c15Adder struct{ k int }

func (x *c15Adder) Add(a int) int { return a + x.k }

// TestC15Amd64Installed: the sequence actually installed at a function's entry, decoded from memory - when a function
// is diverted, diverted again without being restored in between, and so on, the context register always receives the
// function value requested LAST (two values of one literal, two method values, two reflect.MakeFunc values share their
// code, not their context) and control arrives in that value's code.
func TestC15Amd64Installed(t *testing.T) {
	rep := vmon.NewReport("C15")
	defer rep.Write()
	type step struct {
		name string
		fn   func(int) int
		want func(int) int
	}
	a1, a2 := &c15Adder{k: 100}, &c15Adder{k: 200}
	steps := []step{
		{"closure#1 of one literal", c15Factory(1000), func(a int) int { return a + 1000 }},
		{"closure#2 of the same literal", c15Factory(2000), func(a int) int { return a + 2000 }},
		{"method value of object 1", a1.Add, func(a int) int { return a + 100 }},
		{"method value of object 2", a2.Add, func(a int) int { return a + 200 }},
		{"closure#3 of the same literal", c15Factory(3000), func(a int) int { return a + 3000 }},
		{"closure#1 again", nil, nil},
	}
	steps[5].fn, steps[5].want = steps[0].fn, steps[0].want
	entry := vmon.FuncCodePtr(c15Victim)
	for _, restoreBetween := range []bool{false, true} {
		var last *Guard
		for i, st := range steps {
			rep.Journal(map[string]interface{}{"part": "installed", "step": st.name, "restore_between": restoreBetween})
			g, err := Ptr(entry, st.fn)
			rep.Eval(1)
			c := map[string]interface{}{"step": i, "replacement": st.name, "restored_in_between": restoreBetween}
			if err != nil {
				rep.Violate("C15/installed-sequence", fmt.Sprintf("diverting to %s failed: %v", st.name, err), c)
				continue
			}
			g.Apply()
			last = g
			j := vmon.DecodeJumpAt(entry)
			wantCtx := vmon.FuncValuePtr(st.fn)
			if j.Kind != vmon.JumpEntry {
				rep.Violate("C15/installed-sequence", fmt.Sprintf("after diverting to %s the entry holds % x, not an entry jump", st.name, vmon.ReadMem(entry, 13)), c)
			} else if j.Ctx != wantCtx {
				rep.Violate("C15/installed-sequence-context", fmt.Sprintf("step %d (%s, restored in between: %v): the installed sequence loads %#x into the context register, the requested function value is at %#x", i, st.name, restoreBetween, j.Ctx, wantCtx), c)
			} else if code := *(*uintptr)(ptrOf(j.Ctx)); code != vmon.FuncCodePtr(st.fn) {
				rep.Violate("C15/installed-sequence", fmt.Sprintf("step %d (%s): the indirect jump reads %#x, the requested code is at %#x", i, st.name, code, vmon.FuncCodePtr(st.fn)), c)
			}
			if got := c15Victim(5); got != st.want(5) {
				rep.Violate("C15/installed-sequence-context", fmt.Sprintf("step %d (%s, restored in between: %v): victim(5) = %d, the requested replacement returns %d", i, st.name, restoreBetween, got, st.want(5)), c)
			}
			rep.Class(fmt.Sprintf("installed/%s/restore=%v", st.name, restoreBetween))
			if restoreBetween {
				g.UnpatchWithLock()
				last = nil
			}
		}
		if last != nil {
			last.UnpatchWithLock()
		}
		if got := c15Victim(5); got != 35 {
			rep.Violate("C15/installed-sequence", fmt.Sprintf("victim(5) = %d after the last removal", got), nil)
		}
	}
	// one guard applied, removed and applied again; two guards prepared for the same function and applied in turn: after
	// every Apply the entry holds that guard's sequence, after every removal the function's own bytes
	{
		orig := append([]byte{}, vmon.ReadMem(entry, 16)...)
		check := func(what string, fn func(int) int, want int) {
			rep.Eval(1)
			c := map[string]interface{}{"history": what}
			if fn == nil {
				if got := vmon.ReadMem(entry, 16); string(got) != string(orig) {
					rep.Violate("C15/installed-sequence", fmt.Sprintf("%s: the entry holds % x, the function's own bytes are % x", what, got, orig), c)
				} else if got := c15Victim(5); got != 35 {
					rep.Violate("C15/installed-sequence", fmt.Sprintf("%s: victim(5) = %d", what, got), c)
				}
				return
			}
			j := vmon.DecodeJumpAt(entry)
			if j.Kind != vmon.JumpEntry {
				rep.Violate("C15/installed-sequence", fmt.Sprintf("%s: the entry holds % x, not an entry jump", what, vmon.ReadMem(entry, 13)), c)
			} else if j.Ctx != vmon.FuncValuePtr(fn) {
				rep.Violate("C15/installed-sequence-context", fmt.Sprintf("%s: the installed sequence loads %#x into the context register, the guard's function value is at %#x", what, j.Ctx, vmon.FuncValuePtr(fn)), c)
			} else if got := c15Victim(5); got != want {
				rep.Violate("C15/installed-sequence-context", fmt.Sprintf("%s: victim(5) = %d, the guard's replacement returns %d", what, got, want), c)
			}
		}
		fA, fB := c15Factory(4000), c15Factory(5000)
		rep.Journal(map[string]interface{}{"part": "installed", "step": "guard reuse"})
		if g, err := Ptr(entry, fA); err != nil {
			rep.Violate("C15/installed-sequence", fmt.Sprintf("guard reuse: %v", err), nil)
		} else {
			hist := "Apply"
			g.Apply()
			check(hist, fA, 4005)
			for k := 0; k < 3; k++ {
				g.UnpatchWithLock()
				hist += ", Unpatch"
				check(hist, nil, 0)
				g.Apply()
				hist += ", Apply"
				check(hist, fA, 4005)
			}
			g.Apply()
			check(hist+", Apply (again while installed)", fA, 4005)
			g.UnpatchWithLock()
			check(hist+", Unpatch", nil, 0)
			rep.Class("installed/guard-reuse")
		}
		// the same toggling with an origin placeholder: the placeholder keeps leading back into the function after
		// every Unpatch / Apply of the guard
		rep.Journal(map[string]interface{}{"part": "installed", "step": "guard reuse with a placeholder"})
		if g, err := PtrTrampoline(entry, fA, &c15OriginPh); err != nil {
			rep.Violate("C15/installed-sequence", fmt.Sprintf("guard reuse with a placeholder: %v", err), nil)
		} else {
			hist := "Apply"
			g.Apply()
			for k := 0; k < 3; k++ {
				check(hist, fA, 4005)
				if got := c15OriginPh(5); got != 35 {
					rep.Violate("C15/placeholder-does-not-return-to-origin", fmt.Sprintf("%s: the placeholder called with 5 gives %d, the function's own result is 35", hist, got), map[string]interface{}{"history": hist})
					break
				}
				g.UnpatchWithLock()
				hist += ", Unpatch"
				check(hist, nil, 0)
				g.Apply()
				hist += ", Apply"
			}
			check(hist, fA, 4005)
			if got := c15OriginPh(5); got != 35 {
				rep.Violate("C15/placeholder-does-not-return-to-origin", fmt.Sprintf("%s: the placeholder called with 5 gives %d, the function's own result is 35", hist, got), map[string]interface{}{"history": hist})
			}
			g.UnpatchWithLock()
			check(hist+", Unpatch", nil, 0)
			rep.Class("installed/guard-reuse-with-placeholder")
		}
		// the function carries an entry jump the registry has forgotten (UnpatchAll followed by Restore of a kept guard
		// leaves it so): a new mock with an origin placeholder must not take that jump for the function's own head -
		// refused with everything untouched, or accepted with a placeholder that still leads to the original
		rep.Journal(map[string]interface{}{"part": "installed", "step": "forgotten jump"})
		if g1, err := Ptr(entry, fA); err != nil {
			rep.Violate("C15/installed-sequence", fmt.Sprintf("forgotten jump: %v", err), nil)
		} else {
			g1.Apply()
			lock()
			delete(patches, entry)
			unlock()
			phBefore := append([]byte{}, vmon.ReadMem(vmon.FuncCodePtr(c15OriginPh2), 48)...)
			entryBefore := append([]byte{}, vmon.ReadMem(entry, 16)...)
			var g2 *Guard
			var perr error
			func() {
				defer func() {
					if r := recover(); r != nil {
						perr = fmt.Errorf("panic: %v", r)
					}
				}()
				g2, perr = PtrTrampoline(entry, fB, &c15OriginPh2)
			}()
			rep.Eval(2)
			if perr != nil {
				if string(vmon.ReadMem(entry, 16)) != string(entryBefore) || string(vmon.ReadMem(vmon.FuncCodePtr(c15OriginPh2), 48)) != string(phBefore) {
					rep.Violate("C15/refused-but-modified", fmt.Sprintf("forgotten jump: the new mock was refused (%v) but entry or placeholder bytes changed", perr), nil)
				}
				rep.Class("installed/forgotten-jump/refused")
			} else {
				g2.Apply()
				if got := c15OriginPh2(5); got != 35 {
					rep.Violate("C15/placeholder-does-not-return-to-origin", fmt.Sprintf("a mock with a placeholder installed over an entry jump the registry had forgotten: the placeholder called with 5 gives %d (the forgotten mock answers), the function's own result is 35", got), nil)
				}
				g2.UnpatchWithLock()
				rep.Class("installed/forgotten-jump/accepted")
			}
			lock()
			delete(patches, entry)
			unlock()
			g1.UnpatchWithLock()
			check("forgotten jump: cleaned up", nil, 0)
		}
		rep.Journal(map[string]interface{}{"part": "installed", "step": "two guards"})
		ga, errA := Ptr(entry, fA)
		gb, errB := Ptr(entry, fB)
		if errA != nil || errB != nil {
			rep.Violate("C15/installed-sequence", fmt.Sprintf("two guards: %v %v", errA, errB), nil)
		} else {
			ga.Apply()
			check("two guards: a.Apply", fA, 4005)
			gb.Apply()
			check("two guards: a.Apply, b.Apply", fB, 5005)
			ga.Apply()
			check("two guards: a.Apply, b.Apply, a.Apply", fA, 4005)
			gb.Apply()
			check("two guards: a.Apply, b.Apply, a.Apply, b.Apply", fB, 5005)
			gb.UnpatchWithLock()
			check("two guards: ..., b.Unpatch", nil, 0)
			rep.Class("installed/two-guards")
		}
	}
	rep.Sample(map[string]interface{}{"part": "installed sequences", "steps": len(steps) * 2})
}

var c15Nops = [][]byte{nil,
	{0xFC}, // cld (one byte, not the 0x90 goom uses as its "already diverted" mark)
	{0x66, 0x90},
	{0x0F, 0x1F, 0x00},
	{0x0F, 0x1F, 0x40, 0x00},
	{0x0F, 0x1F, 0x44, 0x00, 0x00},
	{0x66, 0x0F, 0x1F, 0x44, 0x00, 0x00},
	{0x0F, 0x1F, 0x80, 0x00, 0x00, 0x00, 0x00},
	{0x0F, 0x1F, 0x84, 0x00, 0x00, 0x00, 0x00, 0x00},
	{0x66, 0x0F, 0x1F, 0x84, 0x00, 0x00, 0x00, 0x00, 0x00},
}

// TestC15Amd64Return: the return jump at the end of a trampoline, for EVERY layout of instruction boundaries in a
// function's first bytes (all sequences of 1..9-byte instructions up to the first boundary at or after byte 13): the
// jump built by the real trampoline builder lands exactly on the first boundary that the 13-byte diversion leaves
// intact, and the bytes in front of it are the function's own.
func TestC15Amd64Return(t *testing.T) {
	rep := vmon.NewReport("C15")
	defer rep.Write()
	var layouts [][]int
	var rec func(cur []int, sum int)
	rec = func(cur []int, sum int) {
		if sum >= 13 {
			layouts = append(layouts, append([]int{}, cur...))
			return
		}
		for l := 1; l <= 9; l++ {
			rec(append(cur, l), sum+l)
		}
	}
	rec(nil, 0)
	const slot = 256
	mem, err := syscall.Mmap(-1, 0, (len(layouts)+1)*slot, syscall.PROT_READ|syscall.PROT_WRITE|syscall.PROT_EXEC, syscall.MAP_PRIVATE|syscall.MAP_ANON)
	if err != nil {
		rep.Inconclusive = "mmap: " + err.Error()
		return
	}
	base := uintptr(unsafe.Pointer(&mem[0]))
	for i := range mem {
		mem[i] = 0xCC
	}
	type lay struct {
		ph, fn, n int
	}
	var ls []lay
	for i, l := range layouts {
		ph, fn := i*slot, i*slot+128
		for k := 0; k < 80; k++ {
			mem[ph+k] = 0x90
		}
		mem[ph+80] = 0xC3
		p := fn
		n := 0
		for _, ln := range l {
			copy(mem[p:], c15Nops[ln])
			p += ln
			n += ln
		}
		copy(mem[p:], []byte{0xB8, byte(i), byte(i >> 8), 0x5A, 0x00, 0xC3})
		ls = append(ls, lay{ph, fn, n})
	}
	orig := append([]byte{}, mem...)
	repl := func() int { return -1 }
	for i, l := range ls {
		entry, phAddr := base+uintptr(l.fn), base+uintptr(l.ph)
		fvp := &struct{ pc uintptr }{phAddr}
		origin := *(*func() int)(unsafe.Pointer(&fvp))
		if i%64 == 0 { // goom leaves the pages it wrote read+execute
			syscall.Mprotect(mem, syscall.PROT_READ|syscall.PROT_WRITE|syscall.PROT_EXEC)
		}
		rep.Journal(map[string]interface{}{"part": "return-jump", "layout": fmt.Sprint(layouts[i])})
		var perr error
		func() {
			defer func() {
				if r := recover(); r != nil {
					perr = fmt.Errorf("panic: %v", r)
				}
			}()
			_, perr = PtrTrampoline(entry, repl, origin)
		}()
		lock()
		delete(patches, entry)
		unlock()
		rep.Eval(1)
		c := map[string]interface{}{"instruction_lengths": fmt.Sprint(layouts[i]), "first_intact_boundary": l.n}
		if perr != nil {
			rep.Stat("return_layouts_refused", 1)
			continue
		}
		got := mem[l.ph : l.ph+l.n+5]
		if string(got[:l.n]) != string(orig[l.fn:l.fn+l.n]) {
			// fewer or more bytes were moved: find where the return jump is and say where it lands
			for k := 1; k < 40; k++ {
				if j := vmon.DecodeJumpBytes(mem[l.ph+k:l.ph+k+13], phAddr+uintptr(k), false); j.Kind == vmon.JumpRel && j.Target >= entry && j.Target < entry+64 {
					c["lands_at"] = int(j.Target - entry)
					break
				}
			}
			rep.Violate("C15/amd64-trampoline-return-destination", fmt.Sprintf("instruction lengths %v: the trampoline does not start with the function's first %d bytes (first boundary the diversion leaves intact); return jump lands at entry+%v; trampoline % x", layouts[i], l.n, c["lands_at"], mem[l.ph:l.ph+32]), c)
			continue
		}
		j := vmon.DecodeJumpBytes(mem[l.ph+l.n:l.ph+l.n+13], phAddr+uintptr(l.n), false)
		if j.Kind != vmon.JumpRel || j.Target != entry+uintptr(l.n) {
			rep.Violate("C15/amd64-trampoline-return-destination", fmt.Sprintf("instruction lengths %v: after the %d moved bytes the trampoline holds % x, want a jump to entry+%d", layouts[i], l.n, mem[l.ph+l.n:l.ph+l.n+13], l.n), c)
			continue
		}
		rep.Stat("return_layouts_exact", 1)
		rep.Class(fmt.Sprintf("return/first-intact-boundary=%d/last-instruction=%d", l.n, layouts[i][len(layouts[i])-1]))
	}
	rep.Stat("max:return_layouts", int64(len(ls)))
	syscall.Mprotect(mem, syscall.PROT_READ|syscall.PROT_WRITE|syscall.PROT_EXEC)
	for i := range mem {
		p := i % slot
		if mem[i] != orig[i] && p >= 96 {
			rep.Violate("C15/amd64-trampoline-return-destination", fmt.Sprintf("building a trampoline changed the function itself at slot offset %d", p), nil)
			break
		}
	}
}

var c15OriginPh = func(a int) int {
	fmt.Fprintln(io.Discard, "only a placeholder, never called")
	fmt.Fprintln(io.Discard, "only a placeholder, never called")
	fmt.Fprintln(io.Discard, "only a placeholder, never called")
	return -1000
}

var c15OriginPh2 = func(a int) int {
	fmt.Fprintln(io.Discard, "only another placeholder, never called")
	fmt.Fprintln(io.Discard, "only another placeholder, never called")
	fmt.Fprintln(io.Discard, "only another placeholder, never called")
	return -2000
}
