//go:build go1.21

package patch

import (
	"fmt"
	"testing"

	c15lib "github.com/tencent/goom/zzverif/c15lib"
	"github.com/tencent/goom/zzverif/vmon"
)

func TestC15Amd64Patch(t *testing.T) {
	rep := vmon.NewReport("C15")
	defer rep.Write()
	seed := vmon.Seed()
	rng := vmon.NewRng(seed, 15)
	nb := 4
	nrand := 1_000_000
	band := 4096
	if vmon.Thorough() {
		nb, nrand, band = 24, 50_000_000, 65536
	}
	// (1) absolute entry jump: every value of every 16-bit lane over several bases
	bases := []uint64{0, ^uint64(0), 0x00007fffdeadbeef}
	for i := 0; i < nb; i++ {
		bases = append(bases, rng.Uint64())
	}
	vmon.Parallel(len(bases)*4, func(bi int) {
		base, lane := bases[bi/4], uint(bi%4)
		{
			n := int64(0)
			for v := uint64(0); v < 65536; v++ {
				n++
				to := base&^(uint64(0xffff)<<(16*lane)) | v<<(16*lane)
				b := jmpToFunctionValue(0x401000, uintptr(to))
				if why := c15lib.Amd64Abs(b, to, true); why != "" {
					rep.Violate("C15/amd64-entry-jump", why, map[string]interface{}{"to": fmt.Sprintf("%#x", to), "bytes": fmt.Sprintf("%x", b)})
				}
			}
			rep.Class(fmt.Sprintf("entry-abs/lane%d", lane))
			rep.Eval(n)
		}
	})
	rep.Stat("lane_values_exhausted_per_base", 4*65536)
	rep.Stat("bases", int64(len(bases)))

	// (2) trampoline return: decision band around +-2 GiB, exhaustively for k in [-band,band]
	check := func(from, to uint64, class string) {
		b := jmpToOriginFunctionValue(uintptr(from), uintptr(to))
		rep.Eval(1)
		var why string
		if c15lib.IsRelForm(b) {
			why = c15lib.Amd64Rel(b, from, to)
			rep.Class(class + "/rel")
			if why != "" {
				d := int64(from - to)
				key := "C15/amd64-return-jump-rel32"
				if from > to && d >= 0x7ffffffc && d <= 0x7fffffff {
					key = "C15/rel32-boundary-band"
				}
				rep.Violate(key, why, map[string]interface{}{"from": fmt.Sprintf("%#x", from), "to": fmt.Sprintf("%#x", to), "from-to": fmt.Sprintf("%#x", from-to), "bytes": fmt.Sprintf("%x", b)})
			}
			return
		}
		rep.Class(class + "/abs")
		if why = c15lib.Amd64Abs(b, to, false); why != "" {
			rep.Violate("C15/amd64-return-jump-abs", why, map[string]interface{}{"from": fmt.Sprintf("%#x", from), "to": fmt.Sprintf("%#x", to), "bytes": fmt.Sprintf("%x", b)})
		}
	}
	froms := []uint64{0x0000000100000000, 0x0000000000401000 + 1<<32, 0x00007f0000000000}
	for i := 0; i < nb; i++ {
		froms = append(froms, 1<<32+rng.Uint64()%(1<<46))
	}
	for _, from := range froms {
		for k := -band; k <= band; k++ {
			d := uint64(int64(1<<31) + int64(k))
			check(from, from+d, "band+")
			check(from, from-d, "band-")
		}
		for k := -64; k <= 64; k++ { // near zero distance
			check(from, from+uint64(int64(k)), "near")
		}
	}
	rep.Stat("boundary_band_pairs", int64(len(froms))*int64(2*(2*band+1)))
	// (3) random pairs: half close (within +-4 GiB), half anywhere in the 47-bit space
	for i := 0; i < nrand; i++ {
		from := 1<<32 + rng.Uint64()%(1<<46)
		var to uint64
		if i&1 == 0 {
			to = from + uint64(int64(rng.Uint64()%(1<<33))-(1<<32))
		} else {
			to = rng.Uint64() % (1 << 47)
		}
		check(from, to, "random")
	}
	rep.Stat("random_pairs", int64(nrand))
	b := jmpToOriginFunctionValue(0x500000, 0x400000)
	rep.Sample(map[string]interface{}{"emitter": "jmpToOriginFunctionValue", "from": "0x500000", "to": "0x400000", "bytes": fmt.Sprintf("%x", b)})
	b = jmpToFunctionValue(0, 0xc000123456)
	rep.Sample(map[string]interface{}{"emitter": "jmpToFunctionValue", "to": "0xc000123456", "bytes": fmt.Sprintf("%x", b)})
}
