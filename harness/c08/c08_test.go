//go:build go1.21

package c08

import (
	"errors"
	"fmt"
	"os"
	"reflect"
	"strings"
	"testing"
	"unsafe"

	mocker "github.com/tencent/goom"
	varscopy "github.com/tencent/goom/zzverif/c08/a/github.com/tencent/goom/zzverif/c08/vars"
	"github.com/tencent/goom/zzverif/c08/vars"
	"github.com/tencent/goom/zzverif/vmon"
)

const pkgPath = "github.com/tencent/goom/zzverif/c08/vars"

func f1() int { return 1 }
func f2() int { return 2 }

var fnInIface = func() string { return "called" }

var ch1, ch2 = make(chan int), make(chan int, 3)
var e1, e2 = errors.New("e1"), errors.New("e2")
var sp1, sp2 = &vars.S{A: 11}, &vars.S{A: 12}

// CopyLinked keeps the copy of the vars package (same names behind a longer import path) in the binary.
var CopyLinked = len(varscopy.Descs)

func values(typ string) []interface{} {
	switch typ {
	case "int":
		return []interface{}{20, 30, 0, -1 << 63}
	case "int8":
		return []interface{}{int8(1), int8(127), int8(0)}
	case "uint64":
		return []interface{}{uint64(0), uint64(7), ^uint64(0)}
	case "float64":
		return []interface{}{0.0, -1.25, 1e300}
	case "bool":
		return []interface{}{false, true}
	case "string":
		return []interface{}{"", "mock-a", "mock-b"}
	case "[]int":
		return []interface{}{[]int{9}, []int{}, []int{7, 8}, []int(nil), []int{1, 2, 3} /* deep-equal to the original, another object */}
	case "map[string]int":
		return []interface{}{map[string]int{"m": 1}, map[string]int{}, map[string]int(nil), map[string]int{"o": 1} /* deep-equal to the original */}
	case "S":
		return []interface{}{vars.S{A: 5}, vars.S{}, vars.S{A: 6, B: "x", P: sp1}, vars.S{A: 1, B: "o", P: &vars.S{A: 2}} /* deep-equal, other inner pointer */}
	case "[3]int":
		return []interface{}{[3]int{}, [3]int{9, 9, 9}}
	case "*S":
		return []interface{}{sp1, sp2, (*vars.S)(nil), &vars.S{A: 3} /* deep-equal pointee, another object */}
	case "func() int":
		return []interface{}{f1, f2}
	case "chan int":
		return []interface{}{ch1, ch2}
	case "interface{}":
		// among them typed nils: an interface holding one is not nil
		return []interface{}{5, "s", vars.S{A: 1}, sp1, string([]byte("boxed")) /* equal string, other backing array */, (*vars.S)(nil), []int(nil), map[string]int(nil), fnInIface /* a func is a value like any other for an interface{} variable */}
	case "error":
		return []interface{}{e1, e2, (*ptrErr)(nil)}
	case "[40]byte":
		return []interface{}{[40]byte{9}, [40]byte{}}
	}
	panic(typ)
}

// ptrErr implements error on the pointer: (*ptrErr)(nil) in an error variable is a non-nil error
type ptrErr struct{ msg string }

func (e *ptrErr) Error() string {
	if e == nil {
		return "nil ptrErr"
	}
	return e.msg
}

func memOf(addr unsafe.Pointer, n uintptr) string {
	return fmt.Sprintf("%x", unsafe.Slice((*byte)(addr), int(n)))
}

// same reports whether the variable currently holds want (identity for reference kinds, memory image otherwise)
func same(t reflect.Type, addr unsafe.Pointer, want interface{}) (bool, string) {
	cur := reflect.NewAt(t, addr).Elem()
	if t.Kind() == reflect.Interface {
		if want == nil {
			return cur.IsNil(), "nil interface"
		}
		if cur.IsNil() {
			return false, "interface is nil"
		}
		if cur.Elem().Type() != reflect.TypeOf(want) {
			return false, fmt.Sprintf("dynamic type %s", cur.Elem().Type())
		}
		if cur.Elem().Kind() == reflect.Func {
			return cur.Elem().Pointer() == reflect.ValueOf(want).Pointer(), "identity of the boxed func"
		}
		w := reflect.New(t).Elem()
		w.Set(reflect.ValueOf(want))
		// pointer-shaped dynamic values share the data word; others are compared deeply
		return reflect.DeepEqual(cur.Interface(), want), "deep equality of boxed value"
	}
	w := reflect.New(t).Elem()
	if want != nil {
		w.Set(reflect.ValueOf(want))
	}
	return memOf(addr, t.Size()) == memOf(w.Addr().UnsafePointer(), t.Size()), "memory image"
}

func TestC08(t *testing.T) {
	rep := vmon.NewReport("C08")
	defer rep.Write()
	shard, _ := vmon.Shard()
	rng := vmon.NewRng(vmon.Seed(), uint64(800+shard))
	nh := vmon.EnvInt("VERIF_C08_HIST", 30)
	for _, d := range vars.Descs {
		for _, exported := range []bool{true, false} {
			addr, read := d.XAddr, d.XRead
			if !exported {
				addr, read = d.UAddr, d.URead
			}
			typ := reflect.TypeOf(d.XPtr).Elem()
			vals := values(d.Type)
			if exported {
				switch typ.Kind() {
				case reflect.Interface, reflect.Ptr, reflect.Map, reflect.Slice, reflect.Func, reflect.Chan:
					// the untyped nil a user writes: Set(nil) / a callback returning nil makes the variable nil
					// (by name the variable's type is taken from the value, so there this cannot be said)
					vals = append(append([]interface{}{}, vals...), nil)
				}
			}
			if !exported && typ.Kind() == reflect.Interface {
				// UnExportedVar learns the variable's type from the value passed to Set, which for an interface-typed
				// variable is the dynamic type: the variable's words are overwritten with the concrete representation.
				// Observed on raw memory only (the corrupted interface must not be touched through Go), then repaired.
				rawIfaceCase(rep, d, addr, vals)
				continue
			}
			for h := 0; h < nh; h++ {
				snapBits := memOf(addr, typ.Size())
				snapVal := read()
				b := mocker.Create()
				mk := func() mocker.VarMock {
					if exported {
						return b.Var(d.XPtr)
					}
					return b.UnExportedVar(pkgPath + ".u" + d.Name)
				}
				nset := rng.Intn(5)
				if h == 0 {
					nset = 0
				}
				if h == 1 {
					nset = 2
				}
				if h == 2 || rng.Chance(1, 12) {
					// a long history: "however many times it was Set or Applied in between"
					nset = 17 + rng.Intn(60)
				}
				var hist []string
				c := map[string]interface{}{"var": d.Name, "type": d.Type, "exported": exported}
				fail := func(key, what string) {
					c["history"] = hist
					rep.Violate(key, fmt.Sprintf("%s %s (%s): %s after %v", map[bool]string{true: "exported", false: "unexported"}[exported], d.Name, d.Type, what, hist), c)
				}
				step := func(name string, f func()) (ok bool) {
					hist = append(hist, name)
					rep.Journal(map[string]interface{}{"var": d.Name, "exported": exported, "hist": hist})
					defer func() {
						if r := recover(); r != nil {
							ok = false
							key := "C08/step-panicked"
							switch {
							case strings.Contains(name, "<nil>") && exported:
								key = "C08/set-nil-panics"
							case !exported && len(name) > 5 && name[:5] == "Apply":
								key = "C08/unexported-apply-panics"
							case nset == 0 || len(hist) > 0 && noSetBefore(hist):
								key = "C08/cancel-without-set-panics"
							case typ.Kind() == reflect.Interface && snapVal == nil:
								key = "C08/nil-interface-restore-panics"
							}
							fail(key, fmt.Sprintf("%s panicked: %v", name, firstLine(r)))
						}
					}()
					f()
					return true
				}
				alive := true
				var vm mocker.VarMock
				if alive {
					alive = step("lookup", func() { vm = mk() })
				}
				if alive && rng.Chance(1, 3) {
					// the builder is asked a second time before anything was set; the user goes on with the object
					// obtained first
					alive = step("lookup-again-before-any-set (first object kept)", func() { _ = mk() })
				}
				if alive && rng.Chance(1, 3) {
					// the program itself assigns the variable after the mocker was obtained and before the first mock:
					// "the value it had before its first mock" is this one
					w := vals[rng.Intn(len(vals))]
					reflect.NewAt(typ, addr).Elem().Set(restoreValue(typ, w))
					snapBits, snapVal = memOf(addr, typ.Size()), read()
					hist = append(hist, fmt.Sprintf("program assigns %s", show(w)))
				}
				for i := 0; i < nset && alive; i++ {
					v := vals[rng.Intn(len(vals))]
					if rng.Bool() || typ.Kind() == reflect.Interface && v == nil {
						alive = step(fmt.Sprintf("Set(%s)", show(v)), func() { vm.Set(v) })
					} else {
						rt := typ
						if typ.Kind() == reflect.Interface && v != nil && rng.Bool() {
							// the callback is declared with the concrete type of what it returns (func() *MyErr for an
							// error variable): assignable to the variable, not identical with its type
							rt = reflect.TypeOf(v)
						} else if !exported && typ.Kind() != reflect.Interface && v != nil && rng.Chance(1, 3) {
							// by name the variable's type is learnt from the value: a table-driven test declares its
							// callbacks func() interface{} and returns values of the variable's own type
							rt = reflect.TypeOf((*interface{})(nil)).Elem()
						}
						fn := reflect.MakeFunc(reflect.FuncOf(nil, []reflect.Type{rt}, false), func([]reflect.Value) []reflect.Value {
							w := reflect.New(rt).Elem()
							if v != nil {
								w.Set(reflect.ValueOf(v))
							}
							return []reflect.Value{w}
						}).Interface()
						alive = step(fmt.Sprintf("Apply(func() %s ->%s)", rt, show(v)), func() { vm.Apply(fn) })
					}
					if !alive {
						break
					}
					rep.Eval(1)
					if ok, how := same(typ, addr, v); !ok {
						fail("C08/set-not-observed", fmt.Sprintf("variable does not hold the mocked value %s (%s)", show(v), how))
					}
					if got := read(); !reflect.DeepEqual(got, v) && !(isFuncOrChan(typ) || v == nil || reflect.TypeOf(v).Kind() == reflect.Func) {
						fail("C08/reader-sees-other-value", fmt.Sprintf("reader in the defining package sees %v, want %v", got, v))
					}
					if rng.Chance(1, 3) { // asking again continues with the same mocker
						alive = step("lookup-again", func() { vm = mk() })
					}
				}
				cancelOps := 1 + rng.Intn(2)
				for k := 0; k < cancelOps && alive; k++ {
					if rng.Bool() {
						alive = step("Reset", func() { b.Reset() })
					} else {
						alive = step("Cancel", func() { vm.Cancel() })
					}
					if !alive {
						break
					}
					rep.Eval(1)
					if got := memOf(addr, typ.Size()); got != snapBits {
						key := "C08/not-restored"
						if nset >= 2 {
							key = "C08/origin-overwritten-by-second-set"
						}
						fail(key, fmt.Sprintf("variable holds %v (memory %s), before the first mock it held %v (memory %s)", read(), got, snapVal, snapBits))
						break
					}
				}
				// a second round through the mocker object the user still holds (or a fresh lookup): mocked again, then
				// Reset - the pre-mock value is back once more
				if alive && rng.Bool() {
					kept := rng.Bool()
					if !kept {
						alive = step("lookup-after-cancel", func() { vm = mk() })
					}
					v := vals[rng.Intn(len(vals))]
					if alive && !(typ.Kind() == reflect.Interface && v == nil) {
						alive = step(fmt.Sprintf("Set(%s)[second round, kept object: %v]", show(v), kept), func() { vm.Set(v) })
						if alive {
							rep.Eval(1)
							if ok, how := same(typ, addr, v); !ok {
								fail("C08/set-not-observed", fmt.Sprintf("second round: variable does not hold the mocked value %s (%s)", show(v), how))
							}
							if rng.Bool() {
								alive = step("Reset", func() { b.Reset() })
							} else {
								alive = step("Cancel", func() { vm.Cancel() })
							}
							if alive {
								if got := memOf(addr, typ.Size()); got != snapBits {
									fail("C08/not-restored", fmt.Sprintf("second round: variable holds %v (memory %s), before the first mock it held %v (memory %s)", read(), got, snapVal, snapBits))
								}
							}
						}
					}
					rep.Stat("second_rounds", 1)
				}
				// everything of this builder is cancelled now. The program assigns the variable itself; asking the same
				// builder for the variable again, cancelling that never-set mock and resetting the builder leave it alone
				if alive && rng.Chance(1, 2) {
					w := vals[rng.Intn(len(vals))]
					reflect.NewAt(typ, addr).Elem().Set(restoreValue(typ, w))
					bitsW := memOf(addr, typ.Size())
					var vm2 mocker.VarMock
					for _, st := range []struct {
						name string
						do   func()
					}{
						{"lookup-after-own-assignment", func() { vm2 = mk() }},
						{"Cancel[never set]", func() { vm2.Cancel() }},
						{"Reset[nothing set]", func() { b.Reset() }},
					} {
						if alive = step(st.name, st.do); !alive {
							break
						}
						rep.Eval(1)
						if got := memOf(addr, typ.Size()); got != bitsW {
							fail("C08/unset-mock-changed-the-variable", fmt.Sprintf("the program assigned %s after all mocks were cancelled; after %s the variable holds %v (memory %s, assigned memory %s)", show(w), st.name, read(), got, bitsW))
							break
						}
					}
					rep.Stat("own_assignments_after_cancel", 1)
				}
				outcome := "ok"
				if !alive {
					outcome = "panicked"
				}
				rep.Class(fmt.Sprintf("%s/%s/sets%d/cancels%d/%s", d.Type, map[bool]string{true: "exported", false: "unexported"}[exported], nset, cancelOps, outcome))
				// put the variable back for the next history whatever happened
				reflect.NewAt(typ, addr).Elem().Set(restoreValue(typ, snapVal))
				if h < 1 && exported && d.Name == "Int" {
					rep.Sample(map[string]interface{}{"var": d.Name, "history": hist})
				}
				if h == 1 && !exported && d.Name == "Map" {
					rep.Sample(map[string]interface{}{"var": "u" + d.Name, "history": hist})
				}
			}
		}
	}
}

// TestC08ShortPaths: by-name variables of packages whose import path has a single element (the standard library's
// top-level packages): "os.Args" is package os, variable Args - nothing is prepended to it.
func TestC08ShortPaths(t *testing.T) {
	rep := vmon.NewReport("C08")
	defer rep.Write()
	saved := append([]string{}, os.Args...)
	for round := 0; round < 3; round++ {
		b := mocker.Create()
		var perr interface{}
		func() {
			defer func() { perr = recover() }()
			b.UnExportedVar("os.Args").Set([]string{"mocked", fmt.Sprint(round)})
		}()
		rep.Eval(2)
		c := map[string]interface{}{"path": "os.Args", "round": round}
		if perr != nil {
			rep.Violate("C08/short-path-not-found", fmt.Sprintf("UnExportedVar(\"os.Args\").Set panicked: %v", firstLine(perr)), c)
			break
		}
		if len(os.Args) != 2 || os.Args[0] != "mocked" || os.Args[1] != fmt.Sprint(round) {
			rep.Violate("C08/set-not-observed", fmt.Sprintf("os.Args = %v after Set([mocked %d])", os.Args, round), c)
		}
		b.Reset()
		if !reflect.DeepEqual(os.Args, saved) {
			rep.Violate("C08/not-restored", fmt.Sprintf("os.Args = %v after Reset, want %v", os.Args, saved), c)
			os.Args = saved
		}
	}
	// the same identifier in two packages (the checked-in copy of the variable package lives under a longer import
	// path), mocked through one builder: each is its own variable
	{
		const copyPath = "github.com/tencent/goom/zzverif/c08/a/github.com/tencent/goom/zzverif/c08/vars"
		find := func(ds []vars.Desc, name string) *vars.Desc {
			for i := range ds {
				if ds[i].Name == name {
					return &ds[i]
				}
			}
			return nil
		}
		for _, name := range []string{"Int", "String"} {
			d1 := find(vars.Descs, name)
			var d2 *vars.Desc
			for i := range varscopy.Descs {
				if varscopy.Descs[i].Name == name {
					dd := vars.Desc(varscopy.Descs[i])
					d2 = &dd
				}
			}
			if d1 == nil || d2 == nil {
				continue
			}
			v1, v2 := values(d1.Type)[0], values(d1.Type)[1]
			o1, o2 := d1.URead(), d2.URead()
			b := mocker.Create()
			var perr interface{}
			func() {
				defer func() { perr = recover() }()
				b.UnExportedVar(pkgPath + ".u" + name).Set(v1)
				b.UnExportedVar(copyPath + ".u" + name).Set(v2)
			}()
			rep.Eval(4)
			c := map[string]interface{}{"name": "u" + name}
			if perr != nil {
				rep.Violate("C08/step-panicked", fmt.Sprintf("u%s in two packages through one builder: %v", name, firstLine(perr)), c)
			} else if g1, g2 := d1.URead(), d2.URead(); !reflect.DeepEqual(g1, v1) || !reflect.DeepEqual(g2, v2) {
				rep.Violate("C08/set-not-observed", fmt.Sprintf("u%s of package vars set to %v and u%s of its copy under a longer path set to %v through one builder: readers see %v and %v", name, v1, name, v2, g1, g2), c)
			}
			func() { defer func() { recover() }(); b.Reset() }()
			if g1, g2 := d1.URead(), d2.URead(); !reflect.DeepEqual(g1, o1) || !reflect.DeepEqual(g2, o2) {
				rep.Violate("C08/not-restored", fmt.Sprintf("u%s in two packages after Reset: %v and %v, want %v and %v", name, g1, g2, o1, o2), c)
				reflect.NewAt(reflect.TypeOf(d1.XPtr).Elem(), d1.UAddr).Elem().Set(restoreValue(reflect.TypeOf(d1.XPtr).Elem(), o1))
				reflect.NewAt(reflect.TypeOf(d2.XPtr).Elem(), d2.UAddr).Elem().Set(restoreValue(reflect.TypeOf(d2.XPtr).Elem(), o2))
			}
			rep.Class("same-identifier-two-packages/" + name)
		}
	}
	rep.Class("short-path/os.Args")
	rep.Class("short-path/three-rounds")
}

func noSetBefore(hist []string) bool {
	for _, h := range hist {
		if len(h) > 3 && (h[:3] == "Set" || h[:5] == "Apply") {
			return false
		}
	}
	return true
}

func restoreValue(t reflect.Type, v interface{}) reflect.Value {
	w := reflect.New(t).Elem()
	if v != nil {
		w.Set(reflect.ValueOf(v))
	}
	return w
}

func isFuncOrChan(t reflect.Type) bool { return t.Kind() == reflect.Func || t.Kind() == reflect.Chan }

func show(v interface{}) string {
	rv := reflect.ValueOf(v)
	if rv.IsValid() && (rv.Kind() == reflect.Func || rv.Kind() == reflect.Chan) {
		return fmt.Sprintf("%s@%x", rv.Kind(), rv.Pointer())
	}
	s := fmt.Sprintf("%#v", v)
	if len(s) > 60 {
		s = s[:60]
	}
	return s
}

func firstLine(v interface{}) string {
	s := fmt.Sprint(v)
	for i := 0; i < len(s); i++ {
		if s[i] == '\n' {
			return s[:i]
		}
	}
	return s
}

func rawIfaceCase(rep *vmon.Report, d vars.Desc, addr unsafe.Pointer, vals []interface{}) {
	words := (*[2]uintptr)(addr)
	snap := *words
	for _, v := range vals {
		if v == nil {
			continue
		}
		b := mocker.Create()
		var perr interface{}
		func() {
			defer func() { perr = recover() }()
			b.UnExportedVar(pkgPath + ".u" + d.Name).Set(v)
		}()
		got := *words
		*words = snap // repair before anything reads the variable as an interface
		rep.Eval(1)
		rep.Class("unexported-interface-var/" + d.Type)
		want := *(*[2]uintptr)(unsafe.Pointer(&v))
		if d.Type == "error" {
			e := v.(error)
			want = *(*[2]uintptr)(unsafe.Pointer(&e))
		}
		if perr != nil {
			rep.Violate("C08/unexported-interface-var", fmt.Sprintf("unexported %s (%s): Set(%s) panicked: %v", d.Name, d.Type, show(v), firstLine(perr)), nil)
			continue
		}
		typeWordOK := got[0] == want[0]
		if !typeWordOK {
			rep.Violate("C08/unexported-interface-var", fmt.Sprintf("unexported %s (%s): after Set(%s) the variable's type word is %#x, an interface holding that value has %#x: the variable's memory was overwritten with the value's concrete representation", d.Name, d.Type, show(v), got[0], want[0]),
				map[string]interface{}{"var": "u" + d.Name, "type": d.Type, "value": show(v)})
		}
		// do not Reset: the mocker would write the "origin" it read through the wrong type; memory is already repaired
	}
}
