//go:build go1.21

package c08

import (
	"fmt"
	"runtime"
	"sync"
	"testing"

	mocker "github.com/tencent/goom"
	"github.com/tencent/goom/zzverif/vmon"
)

type gcObj struct {
	id   int
	data [6]int64
}

var (
	gcPtr   *gcObj
	gcMap   map[string]*gcObj
	gcSlice []*gcObj
	gcIface interface{}
	gcFunc  func() int
	gcStr   string
	gcSt    struct {
		P *gcObj
		N int
	}
)

var (
	gcMu        sync.Mutex
	gcFinalized = map[int]bool{}
)

func gcFreedOf(base int) (n int) {
	gcMu.Lock()
	defer gcMu.Unlock()
	for id := range gcFinalized {
		if id > base && id <= base+6 {
			n++
		}
	}
	return
}

//go:noinline
func newGcObj(id int) *gcObj {
	o := &gcObj{id: id}
	o.data[5] = int64(id) * 7
	runtime.SetFinalizer(o, func(x *gcObj) { gcMu.Lock(); gcFinalized[x.id] = true; gcMu.Unlock(); x.id = -1 })
	return o
}

//go:noinline
func fillGcVars(base int) {
	gcPtr = newGcObj(base + 1)
	gcMap = map[string]*gcObj{"k": newGcObj(base + 2)}
	gcSlice = []*gcObj{newGcObj(base + 3)}
	gcIface = newGcObj(base + 4)
	o := newGcObj(base + 5)
	gcFunc = func() int { return o.id }
	gcStr = string([]byte(fmt.Sprintf("pre-mock-%d", base)))
	gcSt.P, gcSt.N = newGcObj(base+6), base
}

var gcChurn [][]byte

// TestC08GC: the value a variable had before its mock is a heap object nothing else refers to; the mock stays for several
// collections (with allocation churn so that freed memory is reused); Reset/Cancel brings back that very object, alive.
func TestC08GC(t *testing.T) {
	rep := vmon.NewReport("C08")
	defer rep.Write()
	rounds := vmon.EnvInt("VERIF_C08_GCROUNDS", 12)
	for r := 0; r < rounds; r++ {
		base := 1000 * (r + 1)
		fillGcVars(base)
		b := mocker.Create()
		rep.Journal(map[string]interface{}{"part": "gc", "round": r, "crashkey": "C08/pre-mock-value-freed-while-mocked"})
		vms := []mocker.VarMock{b.Var(&gcPtr), b.Var(&gcMap), b.Var(&gcSlice), b.Var(&gcIface), b.Var(&gcFunc), b.Var(&gcStr), b.Var(&gcSt)}
		other := &gcObj{id: -5}
		vms[0].Set(other)
		vms[1].Set(map[string]*gcObj{})
		vms[2].Set([]*gcObj{})
		vms[3].Set(5)
		vms[4].Set(func() int { return -5 })
		vms[5].Set("mock")
		vms[6].Set(struct {
			P *gcObj
			N int
		}{nil, -5})
		if r%2 == 1 { // mocked a second time before the collections
			vms[0].Set(&gcObj{id: -6})
			vms[3].Set("again")
		}
		for k := 0; k < 4; k++ {
			runtime.GC()
			gcChurn = gcChurn[:0]
			for j := 0; j < 2000; j++ {
				gcChurn = append(gcChurn, make([]byte, 64))
			}
		}
		runtime.Gosched()
		freed := gcFreedOf(base)
		rep.Eval(7)
		c := map[string]interface{}{"round": r}
		if freed > 0 {
			rep.Violate("C08/pre-mock-value-freed-while-mocked", fmt.Sprintf("round %d: %d of the 6 heap objects that were the variables' values before the mock were collected while the variables were mocked; Reset would put dangling references back", r, freed), c)
			// do not touch the restored values: they point into freed memory
			for _, vm := range vms {
				func() { defer func() { recover() }(); vm.Cancel() }()
			}
			gcPtr, gcMap, gcSlice, gcIface, gcFunc, gcSt.P = nil, nil, nil, nil, nil, nil
			continue
		}
		if r%3 == 0 {
			b.Reset()
		} else {
			for _, vm := range vms {
				vm.Cancel()
			}
		}
		ok := gcPtr != nil && gcPtr.id == base+1 && gcPtr.data[5] == int64(base+1)*7 &&
			gcMap["k"] != nil && gcMap["k"].id == base+2 &&
			len(gcSlice) == 1 && gcSlice[0].id == base+3 &&
			gcIface != nil && gcIface.(*gcObj).id == base+4 &&
			gcFunc != nil && gcFunc() == base+5 &&
			gcStr == fmt.Sprintf("pre-mock-%d", base) &&
			gcSt.P != nil && gcSt.P.id == base+6 && gcSt.N == base
		if !ok {
			rep.Violate("C08/not-restored", fmt.Sprintf("round %d: after the collections and Reset/Cancel the variables do not hold their pre-mock objects: ptr %+v map %v slice %v iface %v str %q struct %+v", r, gcPtr, gcMap, gcSlice, gcIface, gcStr, gcSt), c)
		}
		rep.Class(fmt.Sprintf("gc/round%%3=%d/twice=%v", r%3, r%2 == 1))
	}
	rep.Stat("gc_rounds", int64(rounds))
	rep.Stat("gc_collections_while_mocked", int64(rounds*4))
}
