//go:build go1.21

package c11

var sink [8]int
var pad int

//go:noinline
func S0(a int) int { return a*2 + 0 }

//go:noinline
func H0(a int) int { return a ^ 16384 }

//go:noinline
func S1(a int) int { return a*3 + 1 + pad*3 }

//go:noinline
func H1(a int) int { return a ^ 16385 }

//go:noinline
func S2(a int) int { return a*4 + 2 + pad*3 }

//go:noinline
func H2(a int) int { return a ^ 16386 }

//go:noinline
func S3(a int) int { return a*5 + 3 + pad*3 }

//go:noinline
func H3(a int) int { return a ^ 16387 }

//go:noinline
func S4(a int) int { return a*6 + 4 }

//go:noinline
func H4(a int) int { return a ^ 16388 }

//go:noinline
func S5(a int) int { return a*7 + 5 + pad*3 }

//go:noinline
func H5(a int) int { return a ^ 16389 }

//go:noinline
func S6(a int) int { return a*8 + 6 + pad*3 }

//go:noinline
func H6(a int) int { return a ^ 16390 }

//go:noinline
func S7(a int) int { return a*9 + 7 + pad*3 }

//go:noinline
func H7(a int) int { return a ^ 16391 }

//go:noinline
func S8(a int) int { return a*10 + 8 }

//go:noinline
func H8(a int) int { return a ^ 16392 }

//go:noinline
func S9(a int) int { return a*11 + 9 + pad*3 }

//go:noinline
func H9(a int) int { return a ^ 16393 }

//go:noinline
func S10(a int) int { return a*12 + 10 + pad*3 }

//go:noinline
func H10(a int) int { return a ^ 16394 }

//go:noinline
func S11(a int) int { return a*13 + 11 + pad*3 }

//go:noinline
func H11(a int) int { return a ^ 16395 }

//go:noinline
func S12(a int) int { return a*14 + 12 }

//go:noinline
func H12(a int) int { return a ^ 16396 }

//go:noinline
func S13(a int) int { return a*15 + 13 + pad*3 }

//go:noinline
func H13(a int) int { return a ^ 16397 }

//go:noinline
func S14(a int) int { return a*16 + 14 + pad*3 }

//go:noinline
func H14(a int) int { return a ^ 16398 }

//go:noinline
func S15(a int) int { return a*17 + 15 + pad*3 }

//go:noinline
func H15(a int) int { return a ^ 16399 }

//go:noinline
func S16(a int) int { return a*18 + 16 }

//go:noinline
func H16(a int) int { return a ^ 16400 }

//go:noinline
func S17(a int) int { return a*19 + 17 + pad*3 }

//go:noinline
func H17(a int) int { return a ^ 16401 }

//go:noinline
func S18(a int) int { return a*20 + 18 + pad*3 }

//go:noinline
func H18(a int) int { return a ^ 16402 }

//go:noinline
func S19(a int) int { return a*21 + 19 + pad*3 }

//go:noinline
func H19(a int) int { return a ^ 16403 }

//go:noinline
func S20(a int) int { return a*22 + 20 }

//go:noinline
func H20(a int) int { return a ^ 16404 }

//go:noinline
func S21(a int) int { return a*23 + 21 + pad*3 }

//go:noinline
func H21(a int) int { return a ^ 16405 }

//go:noinline
func S22(a int) int { return a*24 + 22 + pad*3 }

//go:noinline
func H22(a int) int { return a ^ 16406 }

//go:noinline
func S23(a int) int { return a*25 + 23 + pad*3 }

//go:noinline
func H23(a int) int { return a ^ 16407 }

//go:noinline
func S24(a int) int { return a*26 + 24 }

//go:noinline
func H24(a int) int { return a ^ 16408 }

//go:noinline
func S25(a int) int { return a*27 + 25 + pad*3 }

//go:noinline
func H25(a int) int { return a ^ 16409 }

//go:noinline
func S26(a int) int { return a*28 + 26 + pad*3 }

//go:noinline
func H26(a int) int { return a ^ 16410 }

//go:noinline
func S27(a int) int { return a*29 + 27 + pad*3 }

//go:noinline
func H27(a int) int { return a ^ 16411 }

//go:noinline
func S28(a int) int { return a*30 + 28 }

//go:noinline
func H28(a int) int { return a ^ 16412 }

//go:noinline
func S29(a int) int { return a*31 + 29 + pad*3 }

//go:noinline
func H29(a int) int { return a ^ 16413 }

//go:noinline
func S30(a int) int { return a*32 + 30 + pad*3 }

//go:noinline
func H30(a int) int { return a ^ 16414 }

//go:noinline
func S31(a int) int { return a*33 + 31 + pad*3 }

//go:noinline
func H31(a int) int { return a ^ 16415 }

var phS0 = func(a int) int {
	x := a
	for i := 0; i < len(sink); i++ {
		x = x*31 + i
		sink[i&7] += x
		if x&1 == 0 {
			x ^= sink[(i+1)&7]
		} else {
			x += sink[(i+3)&7] * 7
		}
		sink[(i+5)&7] -= x >> 3
		if x%7 == 3 {
			x = x*x + sink[(i+2)&7]
		}
		sink[(i+6)&7] ^= x << 2
		x += sink[(i+4)&7]*13 - sink[(i+7)&7]*17
	}
	return x
}

var phS1 = func(a int) int {
	x := a
	for i := 0; i < len(sink); i++ {
		x = x*31 + i
		sink[i&7] += x
		if x&1 == 0 {
			x ^= sink[(i+1)&7]
		} else {
			x += sink[(i+3)&7] * 7
		}
		sink[(i+5)&7] -= x >> 3
		if x%7 == 3 {
			x = x*x + sink[(i+2)&7]
		}
		sink[(i+6)&7] ^= x << 2
		x += sink[(i+4)&7]*13 - sink[(i+7)&7]*17
	}
	return x
}

var phS2 = func(a int) int {
	x := a
	for i := 0; i < len(sink); i++ {
		x = x*31 + i
		sink[i&7] += x
		if x&1 == 0 {
			x ^= sink[(i+1)&7]
		} else {
			x += sink[(i+3)&7] * 7
		}
		sink[(i+5)&7] -= x >> 3
		if x%7 == 3 {
			x = x*x + sink[(i+2)&7]
		}
		sink[(i+6)&7] ^= x << 2
		x += sink[(i+4)&7]*13 - sink[(i+7)&7]*17
	}
	return x
}

var phS3 = func(a int) int {
	x := a
	for i := 0; i < len(sink); i++ {
		x = x*31 + i
		sink[i&7] += x
		if x&1 == 0 {
			x ^= sink[(i+1)&7]
		} else {
			x += sink[(i+3)&7] * 7
		}
		sink[(i+5)&7] -= x >> 3
		if x%7 == 3 {
			x = x*x + sink[(i+2)&7]
		}
		sink[(i+6)&7] ^= x << 2
		x += sink[(i+4)&7]*13 - sink[(i+7)&7]*17
	}
	return x
}

var phS4 = func(a int) int {
	x := a
	for i := 0; i < len(sink); i++ {
		x = x*31 + i
		sink[i&7] += x
		if x&1 == 0 {
			x ^= sink[(i+1)&7]
		} else {
			x += sink[(i+3)&7] * 7
		}
		sink[(i+5)&7] -= x >> 3
		if x%7 == 3 {
			x = x*x + sink[(i+2)&7]
		}
		sink[(i+6)&7] ^= x << 2
		x += sink[(i+4)&7]*13 - sink[(i+7)&7]*17
	}
	return x
}

var phS5 = func(a int) int {
	x := a
	for i := 0; i < len(sink); i++ {
		x = x*31 + i
		sink[i&7] += x
		if x&1 == 0 {
			x ^= sink[(i+1)&7]
		} else {
			x += sink[(i+3)&7] * 7
		}
		sink[(i+5)&7] -= x >> 3
		if x%7 == 3 {
			x = x*x + sink[(i+2)&7]
		}
		sink[(i+6)&7] ^= x << 2
		x += sink[(i+4)&7]*13 - sink[(i+7)&7]*17
	}
	return x
}

var phS6 = func(a int) int {
	x := a
	for i := 0; i < len(sink); i++ {
		x = x*31 + i
		sink[i&7] += x
		if x&1 == 0 {
			x ^= sink[(i+1)&7]
		} else {
			x += sink[(i+3)&7] * 7
		}
		sink[(i+5)&7] -= x >> 3
		if x%7 == 3 {
			x = x*x + sink[(i+2)&7]
		}
		sink[(i+6)&7] ^= x << 2
		x += sink[(i+4)&7]*13 - sink[(i+7)&7]*17
	}
	return x
}

var phS7 = func(a int) int {
	x := a
	for i := 0; i < len(sink); i++ {
		x = x*31 + i
		sink[i&7] += x
		if x&1 == 0 {
			x ^= sink[(i+1)&7]
		} else {
			x += sink[(i+3)&7] * 7
		}
		sink[(i+5)&7] -= x >> 3
		if x%7 == 3 {
			x = x*x + sink[(i+2)&7]
		}
		sink[(i+6)&7] ^= x << 2
		x += sink[(i+4)&7]*13 - sink[(i+7)&7]*17
	}
	return x
}

var phS8 = func(a int) int {
	x := a
	for i := 0; i < len(sink); i++ {
		x = x*31 + i
		sink[i&7] += x
		if x&1 == 0 {
			x ^= sink[(i+1)&7]
		} else {
			x += sink[(i+3)&7] * 7
		}
		sink[(i+5)&7] -= x >> 3
		if x%7 == 3 {
			x = x*x + sink[(i+2)&7]
		}
		sink[(i+6)&7] ^= x << 2
		x += sink[(i+4)&7]*13 - sink[(i+7)&7]*17
	}
	return x
}

var phS9 = func(a int) int {
	x := a
	for i := 0; i < len(sink); i++ {
		x = x*31 + i
		sink[i&7] += x
		if x&1 == 0 {
			x ^= sink[(i+1)&7]
		} else {
			x += sink[(i+3)&7] * 7
		}
		sink[(i+5)&7] -= x >> 3
		if x%7 == 3 {
			x = x*x + sink[(i+2)&7]
		}
		sink[(i+6)&7] ^= x << 2
		x += sink[(i+4)&7]*13 - sink[(i+7)&7]*17
	}
	return x
}

var phS10 = func(a int) int {
	x := a
	for i := 0; i < len(sink); i++ {
		x = x*31 + i
		sink[i&7] += x
		if x&1 == 0 {
			x ^= sink[(i+1)&7]
		} else {
			x += sink[(i+3)&7] * 7
		}
		sink[(i+5)&7] -= x >> 3
		if x%7 == 3 {
			x = x*x + sink[(i+2)&7]
		}
		sink[(i+6)&7] ^= x << 2
		x += sink[(i+4)&7]*13 - sink[(i+7)&7]*17
	}
	return x
}

var phS11 = func(a int) int {
	x := a
	for i := 0; i < len(sink); i++ {
		x = x*31 + i
		sink[i&7] += x
		if x&1 == 0 {
			x ^= sink[(i+1)&7]
		} else {
			x += sink[(i+3)&7] * 7
		}
		sink[(i+5)&7] -= x >> 3
		if x%7 == 3 {
			x = x*x + sink[(i+2)&7]
		}
		sink[(i+6)&7] ^= x << 2
		x += sink[(i+4)&7]*13 - sink[(i+7)&7]*17
	}
	return x
}

var phS12 = func(a int) int {
	x := a
	for i := 0; i < len(sink); i++ {
		x = x*31 + i
		sink[i&7] += x
		if x&1 == 0 {
			x ^= sink[(i+1)&7]
		} else {
			x += sink[(i+3)&7] * 7
		}
		sink[(i+5)&7] -= x >> 3
		if x%7 == 3 {
			x = x*x + sink[(i+2)&7]
		}
		sink[(i+6)&7] ^= x << 2
		x += sink[(i+4)&7]*13 - sink[(i+7)&7]*17
	}
	return x
}

var phS13 = func(a int) int {
	x := a
	for i := 0; i < len(sink); i++ {
		x = x*31 + i
		sink[i&7] += x
		if x&1 == 0 {
			x ^= sink[(i+1)&7]
		} else {
			x += sink[(i+3)&7] * 7
		}
		sink[(i+5)&7] -= x >> 3
		if x%7 == 3 {
			x = x*x + sink[(i+2)&7]
		}
		sink[(i+6)&7] ^= x << 2
		x += sink[(i+4)&7]*13 - sink[(i+7)&7]*17
	}
	return x
}

var phS14 = func(a int) int {
	x := a
	for i := 0; i < len(sink); i++ {
		x = x*31 + i
		sink[i&7] += x
		if x&1 == 0 {
			x ^= sink[(i+1)&7]
		} else {
			x += sink[(i+3)&7] * 7
		}
		sink[(i+5)&7] -= x >> 3
		if x%7 == 3 {
			x = x*x + sink[(i+2)&7]
		}
		sink[(i+6)&7] ^= x << 2
		x += sink[(i+4)&7]*13 - sink[(i+7)&7]*17
	}
	return x
}

var phS15 = func(a int) int {
	x := a
	for i := 0; i < len(sink); i++ {
		x = x*31 + i
		sink[i&7] += x
		if x&1 == 0 {
			x ^= sink[(i+1)&7]
		} else {
			x += sink[(i+3)&7] * 7
		}
		sink[(i+5)&7] -= x >> 3
		if x%7 == 3 {
			x = x*x + sink[(i+2)&7]
		}
		sink[(i+6)&7] ^= x << 2
		x += sink[(i+4)&7]*13 - sink[(i+7)&7]*17
	}
	return x
}

var phS16 = func(a int) int {
	x := a
	for i := 0; i < len(sink); i++ {
		x = x*31 + i
		sink[i&7] += x
		if x&1 == 0 {
			x ^= sink[(i+1)&7]
		} else {
			x += sink[(i+3)&7] * 7
		}
		sink[(i+5)&7] -= x >> 3
		if x%7 == 3 {
			x = x*x + sink[(i+2)&7]
		}
		sink[(i+6)&7] ^= x << 2
		x += sink[(i+4)&7]*13 - sink[(i+7)&7]*17
	}
	return x
}

var phS17 = func(a int) int {
	x := a
	for i := 0; i < len(sink); i++ {
		x = x*31 + i
		sink[i&7] += x
		if x&1 == 0 {
			x ^= sink[(i+1)&7]
		} else {
			x += sink[(i+3)&7] * 7
		}
		sink[(i+5)&7] -= x >> 3
		if x%7 == 3 {
			x = x*x + sink[(i+2)&7]
		}
		sink[(i+6)&7] ^= x << 2
		x += sink[(i+4)&7]*13 - sink[(i+7)&7]*17
	}
	return x
}

var phS18 = func(a int) int {
	x := a
	for i := 0; i < len(sink); i++ {
		x = x*31 + i
		sink[i&7] += x
		if x&1 == 0 {
			x ^= sink[(i+1)&7]
		} else {
			x += sink[(i+3)&7] * 7
		}
		sink[(i+5)&7] -= x >> 3
		if x%7 == 3 {
			x = x*x + sink[(i+2)&7]
		}
		sink[(i+6)&7] ^= x << 2
		x += sink[(i+4)&7]*13 - sink[(i+7)&7]*17
	}
	return x
}

var phS19 = func(a int) int {
	x := a
	for i := 0; i < len(sink); i++ {
		x = x*31 + i
		sink[i&7] += x
		if x&1 == 0 {
			x ^= sink[(i+1)&7]
		} else {
			x += sink[(i+3)&7] * 7
		}
		sink[(i+5)&7] -= x >> 3
		if x%7 == 3 {
			x = x*x + sink[(i+2)&7]
		}
		sink[(i+6)&7] ^= x << 2
		x += sink[(i+4)&7]*13 - sink[(i+7)&7]*17
	}
	return x
}

var phS20 = func(a int) int {
	x := a
	for i := 0; i < len(sink); i++ {
		x = x*31 + i
		sink[i&7] += x
		if x&1 == 0 {
			x ^= sink[(i+1)&7]
		} else {
			x += sink[(i+3)&7] * 7
		}
		sink[(i+5)&7] -= x >> 3
		if x%7 == 3 {
			x = x*x + sink[(i+2)&7]
		}
		sink[(i+6)&7] ^= x << 2
		x += sink[(i+4)&7]*13 - sink[(i+7)&7]*17
	}
	return x
}

var phS21 = func(a int) int {
	x := a
	for i := 0; i < len(sink); i++ {
		x = x*31 + i
		sink[i&7] += x
		if x&1 == 0 {
			x ^= sink[(i+1)&7]
		} else {
			x += sink[(i+3)&7] * 7
		}
		sink[(i+5)&7] -= x >> 3
		if x%7 == 3 {
			x = x*x + sink[(i+2)&7]
		}
		sink[(i+6)&7] ^= x << 2
		x += sink[(i+4)&7]*13 - sink[(i+7)&7]*17
	}
	return x
}

var phS22 = func(a int) int {
	x := a
	for i := 0; i < len(sink); i++ {
		x = x*31 + i
		sink[i&7] += x
		if x&1 == 0 {
			x ^= sink[(i+1)&7]
		} else {
			x += sink[(i+3)&7] * 7
		}
		sink[(i+5)&7] -= x >> 3
		if x%7 == 3 {
			x = x*x + sink[(i+2)&7]
		}
		sink[(i+6)&7] ^= x << 2
		x += sink[(i+4)&7]*13 - sink[(i+7)&7]*17
	}
	return x
}

var phS23 = func(a int) int {
	x := a
	for i := 0; i < len(sink); i++ {
		x = x*31 + i
		sink[i&7] += x
		if x&1 == 0 {
			x ^= sink[(i+1)&7]
		} else {
			x += sink[(i+3)&7] * 7
		}
		sink[(i+5)&7] -= x >> 3
		if x%7 == 3 {
			x = x*x + sink[(i+2)&7]
		}
		sink[(i+6)&7] ^= x << 2
		x += sink[(i+4)&7]*13 - sink[(i+7)&7]*17
	}
	return x
}

var phS24 = func(a int) int {
	x := a
	for i := 0; i < len(sink); i++ {
		x = x*31 + i
		sink[i&7] += x
		if x&1 == 0 {
			x ^= sink[(i+1)&7]
		} else {
			x += sink[(i+3)&7] * 7
		}
		sink[(i+5)&7] -= x >> 3
		if x%7 == 3 {
			x = x*x + sink[(i+2)&7]
		}
		sink[(i+6)&7] ^= x << 2
		x += sink[(i+4)&7]*13 - sink[(i+7)&7]*17
	}
	return x
}

var phS25 = func(a int) int {
	x := a
	for i := 0; i < len(sink); i++ {
		x = x*31 + i
		sink[i&7] += x
		if x&1 == 0 {
			x ^= sink[(i+1)&7]
		} else {
			x += sink[(i+3)&7] * 7
		}
		sink[(i+5)&7] -= x >> 3
		if x%7 == 3 {
			x = x*x + sink[(i+2)&7]
		}
		sink[(i+6)&7] ^= x << 2
		x += sink[(i+4)&7]*13 - sink[(i+7)&7]*17
	}
	return x
}

var phS26 = func(a int) int {
	x := a
	for i := 0; i < len(sink); i++ {
		x = x*31 + i
		sink[i&7] += x
		if x&1 == 0 {
			x ^= sink[(i+1)&7]
		} else {
			x += sink[(i+3)&7] * 7
		}
		sink[(i+5)&7] -= x >> 3
		if x%7 == 3 {
			x = x*x + sink[(i+2)&7]
		}
		sink[(i+6)&7] ^= x << 2
		x += sink[(i+4)&7]*13 - sink[(i+7)&7]*17
	}
	return x
}

var phS27 = func(a int) int {
	x := a
	for i := 0; i < len(sink); i++ {
		x = x*31 + i
		sink[i&7] += x
		if x&1 == 0 {
			x ^= sink[(i+1)&7]
		} else {
			x += sink[(i+3)&7] * 7
		}
		sink[(i+5)&7] -= x >> 3
		if x%7 == 3 {
			x = x*x + sink[(i+2)&7]
		}
		sink[(i+6)&7] ^= x << 2
		x += sink[(i+4)&7]*13 - sink[(i+7)&7]*17
	}
	return x
}

var phS28 = func(a int) int {
	x := a
	for i := 0; i < len(sink); i++ {
		x = x*31 + i
		sink[i&7] += x
		if x&1 == 0 {
			x ^= sink[(i+1)&7]
		} else {
			x += sink[(i+3)&7] * 7
		}
		sink[(i+5)&7] -= x >> 3
		if x%7 == 3 {
			x = x*x + sink[(i+2)&7]
		}
		sink[(i+6)&7] ^= x << 2
		x += sink[(i+4)&7]*13 - sink[(i+7)&7]*17
	}
	return x
}

var phS29 = func(a int) int {
	x := a
	for i := 0; i < len(sink); i++ {
		x = x*31 + i
		sink[i&7] += x
		if x&1 == 0 {
			x ^= sink[(i+1)&7]
		} else {
			x += sink[(i+3)&7] * 7
		}
		sink[(i+5)&7] -= x >> 3
		if x%7 == 3 {
			x = x*x + sink[(i+2)&7]
		}
		sink[(i+6)&7] ^= x << 2
		x += sink[(i+4)&7]*13 - sink[(i+7)&7]*17
	}
	return x
}

var phS30 = func(a int) int {
	x := a
	for i := 0; i < len(sink); i++ {
		x = x*31 + i
		sink[i&7] += x
		if x&1 == 0 {
			x ^= sink[(i+1)&7]
		} else {
			x += sink[(i+3)&7] * 7
		}
		sink[(i+5)&7] -= x >> 3
		if x%7 == 3 {
			x = x*x + sink[(i+2)&7]
		}
		sink[(i+6)&7] ^= x << 2
		x += sink[(i+4)&7]*13 - sink[(i+7)&7]*17
	}
	return x
}

var phS31 = func(a int) int {
	x := a
	for i := 0; i < len(sink); i++ {
		x = x*31 + i
		sink[i&7] += x
		if x&1 == 0 {
			x ^= sink[(i+1)&7]
		} else {
			x += sink[(i+3)&7] * 7
		}
		sink[(i+5)&7] -= x >> 3
		if x%7 == 3 {
			x = x*x + sink[(i+2)&7]
		}
		sink[(i+6)&7] ^= x << 2
		x += sink[(i+4)&7]*13 - sink[(i+7)&7]*17
	}
	return x
}

var Steady = []func(int) int{S0, S1, S2, S3, S4, S5, S6, S7, S8, S9, S10, S11, S12, S13, S14, S15, S16, S17, S18, S19, S20, S21, S22, S23, S24, S25, S26, S27, S28, S29, S30, S31}
var Hot = []func(int) int{H0, H1, H2, H3, H4, H5, H6, H7, H8, H9, H10, H11, H12, H13, H14, H15, H16, H17, H18, H19, H20, H21, H22, H23, H24, H25, H26, H27, H28, H29, H30, H31}
var PhS = []*func(int) int{&phS0, &phS1, &phS2, &phS3, &phS4, &phS5, &phS6, &phS7, &phS8, &phS9, &phS10, &phS11, &phS12, &phS13, &phS14, &phS15, &phS16, &phS17, &phS18, &phS19, &phS20, &phS21, &phS22, &phS23, &phS24, &phS25, &phS26, &phS27, &phS28, &phS29, &phS30, &phS31}

func SteadyOrig(k, a int) int { return a*(k+2) + k }
func HotOrig(k, a int) int    { return a ^ (0x4000 + k) }

// R0: frameless function whose loop head lies inside its first 13 bytes: goom must refuse an origin trampoline for it.
//
//go:noinline
func R0(n int) int {
	x := 7000
	for i := 0; i < n; i++ {
		x = x*3 + 1
		x ^= x >> 3
	}
	return x
}

var phR0 = func(a int) int {
	x := a
	for i := 0; i < len(sink); i++ {
		x = x*31 + i
		sink[i&7] += x
		if x&1 == 0 {
			x ^= sink[(i+1)&7]
		} else {
			x += sink[(i+3)&7] * 7
		}
		sink[(i+5)&7] -= x >> 3
		if x%7 == 3 {
			x = x*x + sink[(i+2)&7]
		}
		sink[(i+6)&7] ^= x << 2
		x += sink[(i+4)&7]*13 - sink[(i+7)&7]*17
	}
	return x
}

// R1: frameless function whose loop head lies inside its first 13 bytes: goom must refuse an origin trampoline for it.
//
//go:noinline
func R1(n int) int {
	x := 7001
	for i := 0; i < n; i++ {
		x = x*3 + 1
		x ^= x >> 3
	}
	return x
}

var phR1 = func(a int) int {
	x := a
	for i := 0; i < len(sink); i++ {
		x = x*31 + i
		sink[i&7] += x
		if x&1 == 0 {
			x ^= sink[(i+1)&7]
		} else {
			x += sink[(i+3)&7] * 7
		}
		sink[(i+5)&7] -= x >> 3
		if x%7 == 3 {
			x = x*x + sink[(i+2)&7]
		}
		sink[(i+6)&7] ^= x << 2
		x += sink[(i+4)&7]*13 - sink[(i+7)&7]*17
	}
	return x
}

// R2: frameless function whose loop head lies inside its first 13 bytes: goom must refuse an origin trampoline for it.
//
//go:noinline
func R2(n int) int {
	x := 7002
	for i := 0; i < n; i++ {
		x = x*3 + 1
		x ^= x >> 3
	}
	return x
}

var phR2 = func(a int) int {
	x := a
	for i := 0; i < len(sink); i++ {
		x = x*31 + i
		sink[i&7] += x
		if x&1 == 0 {
			x ^= sink[(i+1)&7]
		} else {
			x += sink[(i+3)&7] * 7
		}
		sink[(i+5)&7] -= x >> 3
		if x%7 == 3 {
			x = x*x + sink[(i+2)&7]
		}
		sink[(i+6)&7] ^= x << 2
		x += sink[(i+4)&7]*13 - sink[(i+7)&7]*17
	}
	return x
}

var Rej = []func(int) int{R0, R1, R2}
var PhR = []*func(int) int{&phR0, &phR1, &phR2}

func RejOrig(k, n int) int {
	x := 7000 + k
	for i := 0; i < n; i++ {
		x = x*3 + 1
		x ^= x >> 3
	}
	return x
}

type CM struct{ v int }

//go:noinline
func (c *CM) M0(a int) int { return c.v + a*2 + 9000 + pad*3 }

//go:noinline
func (c *CM) M1(a int) int { return c.v + a*3 + 9001 + pad*3 }

//go:noinline
func (c *CM) M2(a int) int { return c.v + a*4 + 9002 + pad*3 }

//go:noinline
func (c *CM) M3(a int) int { return c.v + a*5 + 9003 + pad*3 }

//go:noinline
func (c *CM) M4(a int) int { return c.v + a*6 + 9004 + pad*3 }

//go:noinline
func (c *CM) M5(a int) int { return c.v + a*7 + 9005 + pad*3 }

//go:noinline
func (c *CM) M6(a int) int { return c.v + a*8 + 9006 + pad*3 }

//go:noinline
func (c *CM) M7(a int) int { return c.v + a*9 + 9007 + pad*3 }

//go:noinline
func (c *CM) M8(a int) int { return c.v + a*10 + 9008 + pad*3 }

//go:noinline
func (c *CM) M9(a int) int { return c.v + a*11 + 9009 + pad*3 }

//go:noinline
func (c *CM) M10(a int) int { return c.v + a*12 + 9010 + pad*3 }

//go:noinline
func (c *CM) M11(a int) int { return c.v + a*13 + 9011 + pad*3 }

type CI interface {
	Get(a int) int
	Name() string
}

var IVars [12]CI

var CMCall = []func(int) int{func(a int) int { return (&CM{v: 1}).M0(a) }, func(a int) int { return (&CM{v: 1}).M1(a) }, func(a int) int { return (&CM{v: 1}).M2(a) }, func(a int) int { return (&CM{v: 1}).M3(a) }, func(a int) int { return (&CM{v: 1}).M4(a) }, func(a int) int { return (&CM{v: 1}).M5(a) }, func(a int) int { return (&CM{v: 1}).M6(a) }, func(a int) int { return (&CM{v: 1}).M7(a) }, func(a int) int { return (&CM{v: 1}).M8(a) }, func(a int) int { return (&CM{v: 1}).M9(a) }, func(a int) int { return (&CM{v: 1}).M10(a) }, func(a int) int { return (&CM{v: 1}).M11(a) }}
var CMName = []string{"M0", "M1", "M2", "M3", "M4", "M5", "M6", "M7", "M8", "M9", "M10", "M11"}

func CMOrig(k, a int) int { return 1 + a*(k+2) + 9000 + k }

// ---- one instantiation of a generic function per mocker (all of different GC shape, so each has a body of its own)

//go:noinline
func GenHot[T any]() int {
	var z T
	_ = z
	return genBase + pad
}

var genBase = 4400

type genTarget struct {
	Fn   interface{}
	Call func() int
	Orig int
}

var GenTargets = []genTarget{
	{GenHot[int], GenHot[int], 4400}, {GenHot[string], GenHot[string], 4400}, {GenHot[[2]int], GenHot[[2]int], 4400}, {GenHot[float64], GenHot[float64], 4400},
	{GenHot[int8], GenHot[int8], 4400}, {GenHot[uint16], GenHot[uint16], 4400}, {GenHot[[3]byte], GenHot[[3]byte], 4400}, {GenHot[struct{ a, b int }], GenHot[struct{ a, b int }], 4400},
	{GenHot[[]int], GenHot[[]int], 4400}, {GenHot[complex128], GenHot[complex128], 4400}, {GenHot[int32], GenHot[int32], 4400}, {GenHot[[5]int64], GenHot[[5]int64], 4400},
}
