//go:build go1.21

package c11

import (
	"fmt"
	"os"
	"runtime"
	"sync"
	"sync/atomic"
	"syscall"
	"testing"
	"time"
	"unsafe"

	mocker "github.com/tencent/goom"
	"github.com/tencent/goom/arg"
	"github.com/tencent/goom/zzverif/vmon"
)

const marker = 1 << 44

type fail struct {
	key, what string
}

func TestC11(t *testing.T) {
	rep := vmon.NewReport("C11")
	defer rep.Write()
	shard, _ := vmon.Shard()
	rng := vmon.NewRng(vmon.Seed(), uint64(1100+shard))
	rounds := vmon.EnvInt("VERIF_C11_ROUNDS", 5)
	iters := vmon.EnvInt("VERIF_C11_ITERS", 25)
	img := vmon.SnapshotText()
	// layout: which steady functions share a page with a churned one
	hotPages := map[uintptr]bool{}
	for _, h := range Hot {
		hotPages[vmon.FuncCodePtr(h)>>12] = true
	}
	sharing := 0
	for _, s := range Steady {
		if hotPages[vmon.FuncCodePtr(s)>>12] {
			sharing++
		}
	}
	rep.StatMax("max:steady_functions_sharing_a_page_with_a_churned_one", int64(sharing))
	if sharing == 0 {
		rep.Inconclusive = "no steady function shares a code page with a churned one"
		return
	}
	var phRanges []vmon.Range
	for _, p := range PhS {
		a := vmon.FuncCodePtr(*p)
		phRanges = append(phRanges, vmon.Range{Start: a, End: a + 400})
	}
	var writersActive int64
	var fails []fail
	var fmu sync.Mutex
	addFail := func(key, what string) {
		fmu.Lock()
		if len(fails) < 20 {
			fails = append(fails, fail{key, what})
		}
		fmu.Unlock()
	}
	unwritable := unwritableFunc()
	if unwritable == nil {
		rep.Note("unwritable-target", "no read-only shared mapping could be set up: the failing-apply builder is not exercised")
	}
	var faultAttempts, faultedApplies int64
	flushFails := func() {
		fmu.Lock()
		for _, f := range fails {
			rep.Violate(f.key, f.what, nil)
		}
		fails = nil
		fmu.Unlock()
	}
	// before any concurrency: instantiations of a generic function mocked one by one (also in the race-instrumented
	// build, where every wrapper calls the race detector's hooks before the function it forwards to)
	{
		rep.Journal(map[string]interface{}{"part": "generic targets, sequential", "crashkey": "C11/generic-target-in-instrumented-build"})
		rep.JournalSync()
		gb := mocker.Create()
		for i, g := range GenTargets {
			gb.Func(g.Fn).Return(100 + i)
		}
		for i, g := range GenTargets {
			rep.Eval(1)
			if got := g.Call(); got != 100+i {
				addFail("C11/generic-target-in-instrumented-build", fmt.Sprintf("generic instantiation %d mocked with Return(%d) returns %d", i, 100+i, got))
			}
		}
		if got := Hot[0](5); got != HotOrig(0, 5) {
			addFail("C11/generic-target-in-instrumented-build", fmt.Sprintf("an unrelated function returns %d (want %d) while generic instantiations are mocked", got, HotOrig(0, 5)))
		}
		gb.Reset()
		for i, g := range GenTargets {
			if got := g.Call(); got != g.Orig {
				addFail("C11/generic-target-in-instrumented-build", fmt.Sprintf("generic instantiation %d returns %d after Reset, want %d", i, got, g.Orig))
			}
		}
		rep.Journal(map[string]interface{}{"part": "generic targets done"})
		rep.Class("generic-targets-sequential")
	}
	for r := 0; r < rounds; r++ {
		M := 2 + rng.Intn(11)
		N := 2 + rng.Intn(23)
		entries := map[string]uintptr{}
		for k := range Steady {
			entries[fmt.Sprintf("github.com/tencent/goom/zzverif/c11.S%d", k)] = vmon.FuncCodePtr(Steady[k])
			entries[fmt.Sprintf("github.com/tencent/goom/zzverif/c11.H%d", k)] = vmon.FuncCodePtr(Hot[k])
		}
		rep.Journal(map[string]interface{}{"round": r, "mockers": M, "callers": N, "crashkey": "C11/crash", "entries": entries})
		rep.JournalSync()
		// steady mocks, installed before any concurrency
		sb := mocker.Create()
		steadyWant := make([]func(a int) int, len(Steady))
		for k := range Steady {
			k := k
			if k%4 == 2 {
				// conditional stub with In clauses: every concurrent caller is judged on its own argument
				sb.Func(Steady[k]).Return(300000+k).In(1, 2, 3, 5, 8).Return(400000 + k).When(arg.In(13, 21)).Return(500000 + k)
				steadyWant[k] = func(a int) int {
					switch a {
					case 1, 2, 3, 5, 8:
						return 400000 + k
					case 13, 21:
						return 500000 + k
					}
					return 300000 + k
				}
			} else if k%2 == 0 {
				sb.Func(Steady[k]).Return(100000 + k)
				steadyWant[k] = func(a int) int { return 100000 + k }
			} else {
				ph := PhS[k]
				// idempotent under the C03 known finding (re-entry after stack growth): origin|marker
				sb.Func(Steady[k]).Origin(ph).Apply(func(a int) int { return (*ph)(a) | marker })
				steadyWant[k] = func(a int) int { return SteadyOrig(k, a) | marker }
			}
		}
		var stop int32
		var steadyCalls, overlapped, patchOps, rejections int64
		var wg, mg sync.WaitGroup
		bar := vmon.NewSpinBarrier(M + N)
		for c := 0; c < N; c++ {
			wg.Add(1)
			go func(c int) {
				defer wg.Done()
				rg := vmon.NewRng(vmon.Seed()*977+uint64(r), uint64(c+100*shard))
				bar.Wait()
				n, ov := int64(0), int64(0)
				for atomic.LoadInt32(&stop) == 0 || n < 2000 {
					k := rg.Intn(len(Steady))
					a := rg.Intn(1000)
					if rg.Bool() {
						a = rg.Intn(24)
					}
					w := atomic.LoadInt64(&writersActive) > 0
					got := Steady[k](a)
					if w {
						ov++
					}
					n++
					if want := steadyWant[k](a); got != want {
						addFail("C11/steady-call-wrong", fmt.Sprintf("steadily mocked S%d(%d) = %d, want %d (round %d, %d mockers, %d callers)", k, a, got, want, r, M, N))
						break
					}
					if n%64 == 0 {
						runtime.Gosched()
					}
				}
				atomic.AddInt64(&steadyCalls, n)
				atomic.AddInt64(&overlapped, ov)
			}(c)
		}
		per := len(Hot) / M
		for m := 0; m < M; m++ {
			mg.Add(1)
			go func(m int) {
				defer mg.Done()
				rg := vmon.NewRng(vmon.Seed()*31337+uint64(r), uint64(m+1000*shard))
				mine := Hot[m*per : (m+1)*per]
				b := mocker.Create()
				api := func(f func()) {
					atomic.AddInt64(&writersActive, 1)
					f()
					atomic.AddInt64(&writersActive, -1)
					atomic.AddInt64(&patchOps, 1)
				}
				expect := func(step string, k int, a, want int) bool {
					if got := mine[k](a); got != want {
						addFail("C11/own-instruction-not-in-effect", fmt.Sprintf("mocker %d: after %s H%d(%d) = %d, want %d (round %d)", m, step, m*per+k, a, got, want, r))
						return false
					}
					return true
				}
				bar.Wait()
				for it := 0; it < iters; it++ {
					k := rg.Intn(len(mine))
					id := m*per + k
					v := 200000 + m*1000 + it
					api(func() { b.Func(mine[k]).Return(v) })
					if !expect("Return", k, 5, v) {
						return
					}
					api(func() { b.Func(mine[k]).Apply(func(a int) int { return v + 1 }) })
					if !expect("Apply", k, 5, v+1) {
						return
					}
					api(func() { b.Func(mine[k]).When(77).Return(v + 2) })
					if !expect("When", k, 77, v+2) {
						return
					}
					if rg.Chance(1, 3) {
						runtime.Gosched()
					}
					// own method and own interface variable (stub space is acquired concurrently by all mockers)
					if m < len(CMName) {
						api(func() { b.Struct(&CM{}).Method(CMName[m]).Return(v + 3) })
						if got := CMCall[m](5); got != v+3 {
							addFail("C11/own-instruction-not-in-effect", fmt.Sprintf("mocker %d: after Struct.Method.Return CM.%s(5) = %d, want %d", m, CMName[m], got, v+3))
							return
						}
						api(func() {
							b.Interface(&IVars[m]).Method("Get").Apply(func(ctx *mocker.IContext, a int) int { return v + 4 + a })
							b.Interface(&IVars[m]).Method("Name").As(func(ctx *mocker.IContext) string { return "" }).Return(fmt.Sprint("n", v))
						})
						if got, nm := IVars[m].Get(5), IVars[m].Name(); got != v+9 || nm != fmt.Sprint("n", v) {
							addFail("C11/own-instruction-not-in-effect", fmt.Sprintf("mocker %d: own interface variable answers (%d,%q), want (%d,%q)", m, got, nm, v+9, fmt.Sprint("n", v)))
							return
						}
					}
					// own instantiation of a generic function (goom scans the instantiation's wrapper for the shared body)
					if m < len(GenTargets) {
						api(func() { b.Func(GenTargets[m].Fn).Return(v + 5) })
						if got := GenTargets[m].Call(); got != v+5 {
							addFail("C11/own-instruction-not-in-effect", fmt.Sprintf("mocker %d: after Func(generic instantiation %d).Return: %d, want %d", m, m, got, v+5))
							return
						}
					}
					api(func() { b.Reset() })
					if !expect("Reset", k, 5, HotOrig(id, 5)) {
						return
					}
					if m < len(GenTargets) {
						if got := GenTargets[m].Call(); got != GenTargets[m].Orig {
							addFail("C11/own-instruction-not-in-effect", fmt.Sprintf("mocker %d: after Reset generic instantiation %d returns %d, want %d", m, m, got, GenTargets[m].Orig))
							return
						}
					}
					if m < len(CMName) {
						if got := CMCall[m](5); got != CMOrig(m, 5) || IVars[m] != nil {
							addFail("C11/own-instruction-not-in-effect", fmt.Sprintf("mocker %d: after Reset CM.%s(5) = %d (want %d), interface variable nil=%v", m, CMName[m], got, CMOrig(m, 5), IVars[m] == nil))
							return
						}
					}
					// nobody else's targets may have been touched by this builder: spot check a neighbour of another mocker
					o := (id + per) % len(Hot)
					_ = o
				}
				b.Reset()
			}(m)
		}
		// rejecters: goroutines whose configuration goom refuses (origin trampoline for a function whose loop head lies in the bytes to be overwritten), again and again,
		// each on a target of its own: a refused attempt must neither disturb anybody nor change the target
		R := 1 + rng.Intn(3)
		for q := 0; q < R; q++ {
			mg.Add(1)
			go func(q int) {
				defer mg.Done()
				tgtFn := Rej[q]
				b := mocker.Create()
				bar2 := 0
				for it := 0; it < iters*4; it++ {
					rejected := false
					func() {
						defer func() {
							if recover() != nil {
								rejected = true
							}
						}()
						atomic.AddInt64(&writersActive, 1)
						defer atomic.AddInt64(&writersActive, -1)
						b.Func(tgtFn).Origin(PhR[q]).Apply(func(a int) int { return -7 })
					}()
					atomic.AddInt64(&patchOps, 1)
					if !rejected {
						addFail("C11/unfaithful-trampoline-accepted", fmt.Sprintf("rejecter %d: an origin trampoline for a function whose loop head lies in its first 13 bytes was accepted", q))
						return
					}
					if got := tgtFn(4); got != RejOrig(q, 4) {
						addFail("C11/rejected-apply-changed-target", fmt.Sprintf("rejecter %d: after a refused apply R%d(4) = %d, want %d", q, q, got, RejOrig(q, 4)))
						return
					}
					bar2++
				}
				atomic.AddInt64(&rejections, int64(bar2))
				b.Reset()
			}(q)
		}
		// every mocker works on targets of its own: they all finish; if none does for minutes they have wedged one another
		// a builder whose target the operating system refuses to make writable (a read-only shared file mapping): its
		// applies fail again and again, with panics it recovers from; nobody else is held up by that
		if unwritable != nil {
			mg.Add(1)
			go func() {
				defer mg.Done()
				fb := mocker.Create()
				for it := 0; it < iters*2; it++ {
					func() {
						defer func() {
							if recover() != nil {
								atomic.AddInt64(&faultedApplies, 1)
							}
						}()
						fb.Func(unwritable).Return(1)
					}()
					func() { defer func() { recover() }(); fb.Reset() }()
					atomic.AddInt64(&faultAttempts, 1)
				}
			}()
		}
		mdone := make(chan struct{})
		go func() { mg.Wait(); close(mdone) }()
		select {
		case <-mdone:
		case <-time.After(time.Duration(vmon.EnvInt("VERIF_C11_STALL_S", 240)) * time.Second):
			addFail("C11/builders-wedged", fmt.Sprintf("round %d: %d independent builders (disjoint targets) and %d rejecters did not finish within the stall limit after %d API operations: they block one another", r, M, R, atomic.LoadInt64(&patchOps)))
			atomic.StoreInt32(&stop, 1)
			rep.Eval(atomic.LoadInt64(&patchOps))
			flushFails()
			return
		}
		atomic.StoreInt32(&stop, 1)
		wg.Wait()
		sb.Reset()
		rep.Eval(steadyCalls + patchOps)
		rep.Stat("steady_calls", steadyCalls)
		rep.Stat("steady_calls_begun_while_a_writer_was_inside_goom", overlapped)
		rep.Stat("patch_api_operations", patchOps)
		rep.Stat("refused_configurations_under_concurrency", rejections)
		rep.Stat("applies_on_an_unwritable_target", atomic.LoadInt64(&faultAttempts))
		rep.Stat("applies_on_an_unwritable_target_that_panicked", atomic.LoadInt64(&faultedApplies))
		rep.Stat("rounds", 1)
		rep.Class(fmt.Sprintf("mockers%d/callers%d", bkt(M), bkt(N)))
		// quiescence: everything restored
		if d := img.DiffOutside(phRanges); len(d) != 0 {
			addFail("C11/not-restored-at-quiescence", fmt.Sprintf("round %d: image differs at %v after every builder was reset", r, d))
		}
		for k := range Steady {
			if Steady[k](3) != SteadyOrig(k, 3) {
				addFail("C11/not-restored-at-quiescence", fmt.Sprintf("round %d: S%d not original after reset", r, k))
			}
		}
		for k := range Hot {
			if Hot[k](3) != HotOrig(k, 3) {
				addFail("C11/not-restored-at-quiescence", fmt.Sprintf("round %d: H%d not original after reset", r, k))
			}
		}
		if r == 0 {
			rep.Sample(map[string]interface{}{"round": r, "mocker_goroutines": M, "caller_goroutines": N, "steady_calls": steadyCalls, "patch_ops": patchOps, "overlapped": overlapped})
		}
		fmu.Lock()
		nf := len(fails)
		fmu.Unlock()
		if nf > 0 {
			break
		}
	}
	for _, f := range fails {
		rep.Violate(f.key, f.what, nil)
	}
}

func bkt(n int) int {
	switch {
	case n <= 2:
		return 2
	case n <= 4:
		return 4
	case n <= 8:
		return 8
	case n <= 16:
		return 16
	}
	return 32
}

// unwritableFunc returns a func(int) int whose code lies in a MAP_SHARED mapping of a memfd reopened read-only:
// mprotect(PROT_WRITE) on it fails with EACCES whatever the process may do. nil if that cannot be set up.
func unwritableFunc() func(int) int {
	name := []byte("c11-unwritable\x00")
	fd, _, errno := syscall.Syscall(319 /* memfd_create */, uintptr(unsafe.Pointer(&name[0])), 0, 0)
	if errno != 0 {
		return nil
	}
	page := make([]byte, syscall.Getpagesize())
	for i := range page {
		page[i] = 0xCC
	}
	// mov eax, 7; nops; ret - long enough for the entry jump
	copy(page, []byte{0xB8, 0x07, 0x00, 0x00, 0x00, 0x90, 0x90, 0x90, 0x90, 0x90, 0x90, 0x90, 0x90, 0x90, 0x90, 0x90, 0xC3})
	// behind it a function that starts with the usual prologue: goom's extent scan of the target ends there instead of
	// running off the end of the mapping
	copy(page[32:], []byte{0x65, 0x48, 0x8b, 0x0c, 0x25, 0x30, 0x00, 0x00, 0x00, 0x48, 0x90, 0xC3})
	if _, err := syscall.Write(int(fd), page); err != nil {
		return nil
	}
	ro, err := os.Open(fmt.Sprintf("/proc/self/fd/%d", fd))
	if err != nil {
		return nil
	}
	mem, err := syscall.Mmap(int(ro.Fd()), 0, len(page), syscall.PROT_READ|syscall.PROT_EXEC, syscall.MAP_SHARED)
	if err != nil {
		mem, err = syscall.Mmap(int(ro.Fd()), 0, len(page), syscall.PROT_READ, syscall.MAP_SHARED)
	}
	if err != nil {
		return nil
	}
	if e := syscall.Mprotect(mem, syscall.PROT_READ|syscall.PROT_WRITE); e == nil {
		return nil
	}
	fv := &struct{ code uintptr }{code: uintptr(unsafe.Pointer(&mem[0]))}
	var f func(int) int
	*(*unsafe.Pointer)(unsafe.Pointer(&f)) = unsafe.Pointer(fv)
	unwritableKeep = append(unwritableKeep, fv, mem, ro)
	return f
}

var unwritableKeep []interface{}
