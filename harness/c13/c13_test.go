//go:build go1.21

package c13

import (
	"errors"
	"fmt"
	"reflect"
	"strings"
	"testing"
	"unsafe"

	mocker "github.com/tencent/goom"
	"github.com/tencent/goom/arg"
	"github.com/tencent/goom/erro"
	"github.com/tencent/goom/zzverif/vmon"
)

//go:noinline
func F1(a int) int { return -1 }

//go:noinline
func F2(a int, s string) int { return -2 }

//go:noinline
func F3(a int8, b int64, s string) (int, string, error) { return -3, "o", nil }

//go:noinline
func F4(p *int, f float32, xs []int) (int16, bool) { return -4, false }

//go:noinline
func FV(s string, xs ...int) int { return -7 }

//go:noinline
func FV3(s string, n int, f float64, xs ...int) int { return -77 }

//go:noinline
func FVI(a int, xs ...interface{}) (int, error) { return -8, nil }

type P2 struct{ X, Y int }
type p1 struct{ X int }
type p3 struct{ X, Y, Z int }

//go:noinline
func F5(p P2, n int) (P2, int) { return P2{-9, -9}, -9 }

type T struct{ v int }

// holder13 starts with an interface: &h and &h.I are one address
type holder13 struct {
	I
	n int
}

//go:noinline
func (t *T) M(a int, s string) int { return -5 }

// FT has exactly the function type of the method expression (*T).M
//
//go:noinline
//go:noinline
func FT(t *T, a int, s string) int { return -55 }

//go:noinline
func foo(a int) int { return -6 }

//go:noinline
func fooBar(a int) int { return -66 }

type I interface {
	Get(a int, s string) int
	Put(x int)
}
type NotIface struct{ v int }

func (n *NotIface) Get(a int, s string) int { return 0 }
func (n *NotIface) Put(x int)               {}

var iv I

// Held implements I and has methods of its own besides
type Held struct{ v int }

func (h *Held) Get(a int, s string) int { return -21 }
func (h *Held) Put(x int)               {}

//go:noinline
func (h *Held) Extra(a int) int { return -22 }

//go:noinline
func (h *Held) Extra2(a int, s string) int { return -23 }

var ivHeld I = &Held{}
var errT = reflect.TypeOf((*error)(nil)).Elem()

func sizeVariant(t reflect.Type) reflect.Type {
	switch t.Size() {
	case 1:
		return reflect.TypeOf(int64(0))
	case 8:
		if t.Kind() == reflect.Ptr {
			return reflect.TypeOf("")
		}
		return reflect.TypeOf(int8(0))
	case 16:
		return reflect.TypeOf(int32(0))
	default:
		return reflect.TypeOf(int8(0))
	}
}

func zeroFn(t reflect.Type) interface{} {
	return reflect.MakeFunc(t, func(args []reflect.Value) []reflect.Value {
		out := make([]reflect.Value, t.NumOut())
		for i := range out {
			out[i] = reflect.Zero(t.Out(i))
		}
		return out
	}).Interface()
}

func sig(t reflect.Type) (ins, outs []reflect.Type) {
	for i := 0; i < t.NumIn(); i++ {
		ins = append(ins, t.In(i))
	}
	for i := 0; i < t.NumOut(); i++ {
		outs = append(outs, t.Out(i))
	}
	return
}

// badCallbacks: every single-slot corruption of the signature
func badCallbacks(t reflect.Type) map[string]interface{} {
	out := map[string]interface{}{}
	ins, outs := sig(t)
	cp := func(x []reflect.Type) []reflect.Type { return append([]reflect.Type{}, x...) }
	vr := t.IsVariadic()
	last := len(ins) - 1
	for i := range ins {
		a := cp(ins)
		a[i] = sizeVariant(ins[i])
		out[fmt.Sprintf("param %d size %d->%d", i, ins[i].Size(), a[i].Size())] = zeroFn(reflect.FuncOf(a, outs, vr && i != last))
		b := append(cp(ins[:i]), ins[i+1:]...)
		out[fmt.Sprintf("param %d dropped", i)] = zeroFn(reflect.FuncOf(b, outs, vr && i != last))
	}
	out["extra param"] = zeroFn(reflect.FuncOf(append(cp(ins), reflect.TypeOf(0)), outs, false))
	for i := range outs {
		a := cp(outs)
		a[i] = sizeVariant(outs[i])
		out[fmt.Sprintf("result %d size %d->%d", i, outs[i].Size(), a[i].Size())] = zeroFn(reflect.FuncOf(ins, a, vr))
		b := append(cp(outs[:i]), outs[i+1:]...)
		out[fmt.Sprintf("result %d dropped", i)] = zeroFn(reflect.FuncOf(ins, b, vr))
	}
	out["extra result"] = zeroFn(reflect.FuncOf(ins, append(cp(outs), reflect.TypeOf(0)), vr))
	return out
}

func goodValue(t reflect.Type) interface{} {
	if t == errT {
		return errors.New("e")
	}
	return reflect.Zero(t).Interface()
}

func badValue(t reflect.Type) interface{} { return reflect.Zero(sizeVariant(t)).Interface() }

type target struct {
	name    string
	fn      interface{}
	handle  func(b *mocker.Builder) mocker.ExportedMocker
	cbType  reflect.Type
	state   func() string           // observable behaviour fingerprint
	prepare func(b *mocker.Builder) // puts the target into "already mocked"
	isIface bool
}

func fp(f func() interface{}) string {
	defer func() { recover() }()
	return fmt.Sprint(f())
}

func chainProblem(v interface{}) string {
	err, ok := v.(error)
	if !ok {
		return ""
	}
	n := 0
	for c := err; c != nil; c = erro.Cause(c) {
		n++
		if n > 8 {
			return "cause chain longer than 8 (cyclic?)"
		}
		if t, ok := c.(erro.Traceable); ok && !erro.CauseBy(err, t) {
			return fmt.Sprintf("CauseBy(err, node %d) is false for a node on err's own chain", n)
		}
		if strings.HasSuffix(reflect.TypeOf(c).String(), "erro.TraceableError") && erro.Cause(c) == nil {
			// a TraceableError is the wrapper that retells another error: where the chain ends in one, the typed cause
			// it was made from cannot be reached
			return fmt.Sprintf("the chain ends (node %d) in a *erro.TraceableError without a cause: the typed cause is not reachable", n)
		}
	}
	return ""
}

func TestC13(t *testing.T) {
	rep := vmon.NewReport("C13")
	defer rep.Write()
	img := vmon.SnapshotText()
	ctxT := reflect.TypeOf(&mocker.IContext{})
	ifaceCb := reflect.FuncOf([]reflect.Type{ctxT, reflect.TypeOf(0), reflect.TypeOf("")}, []reflect.Type{reflect.TypeOf(0)}, false)
	targets := []target{
		{name: "F1", fn: F1, handle: func(b *mocker.Builder) mocker.ExportedMocker { return b.Func(F1) }, cbType: reflect.TypeOf(F1),
			state: func() string { return fp(func() interface{} { return F1(1) }) }, prepare: func(b *mocker.Builder) { b.Func(F1).Return(55) }},
		{name: "F2", fn: F2, handle: func(b *mocker.Builder) mocker.ExportedMocker { return b.Func(F2) }, cbType: reflect.TypeOf(F2),
			state: func() string { return fp(func() interface{} { return F2(1, "s") }) }, prepare: func(b *mocker.Builder) { b.Func(F2).Return(55) }},
		{name: "F3", fn: F3, handle: func(b *mocker.Builder) mocker.ExportedMocker { return b.Func(F3) }, cbType: reflect.TypeOf(F3),
			state:   func() string { return fp(func() interface{} { a, b, c := F3(1, 2, "s"); return fmt.Sprint(a, b, c) }) },
			prepare: func(b *mocker.Builder) { b.Func(F3).Return(55, "m", nil) }},
		{name: "F4", fn: F4, handle: func(b *mocker.Builder) mocker.ExportedMocker { return b.Func(F4) }, cbType: reflect.TypeOf(F4),
			state:   func() string { return fp(func() interface{} { a, b := F4(nil, 1, nil); return fmt.Sprint(a, b) }) },
			prepare: func(b *mocker.Builder) { b.Func(F4).Return(int16(55), true) }},
		{name: "FV", fn: FV, handle: func(b *mocker.Builder) mocker.ExportedMocker { return b.Func(FV) }, cbType: reflect.TypeOf(FV),
			state: func() string { return fp(func() interface{} { return FV("s", 1, 2) }) }, prepare: func(b *mocker.Builder) { b.Func(FV).Return(55) }},
		{name: "FV3", fn: FV3, handle: func(b *mocker.Builder) mocker.ExportedMocker { return b.Func(FV3) }, cbType: reflect.TypeOf(FV3),
			state: func() string { return fp(func() interface{} { return FV3("s", 2, 1.5, 1, 2) }) }, prepare: func(b *mocker.Builder) { b.Func(FV3).Return(55) }},
		{name: "FVI", fn: FVI, handle: func(b *mocker.Builder) mocker.ExportedMocker { return b.Func(FVI) }, cbType: reflect.TypeOf(FVI),
			state:   func() string { return fp(func() interface{} { a, e := FVI(1, "x", 2); return fmt.Sprint(a, e) }) },
			prepare: func(b *mocker.Builder) { b.Func(FVI).Return(55, nil) }},
		{name: "F5", fn: F5, handle: func(b *mocker.Builder) mocker.ExportedMocker { return b.Func(F5) }, cbType: reflect.TypeOf(F5),
			state:   func() string { return fp(func() interface{} { a, n := F5(P2{1, 2}, 3); return fmt.Sprint(a, n) }) },
			prepare: func(b *mocker.Builder) { b.Func(F5).Return(P2{55, 55}, 55) }},
		{name: "FArr", fn: FArr, handle: func(b *mocker.Builder) mocker.ExportedMocker { return b.Func(FArr) }, cbType: reflect.TypeOf(FArr),
			state:   func() string { return fp(func() interface{} { a, b := FArr(1); return fmt.Sprint(a, b) }) },
			prepare: func(b *mocker.Builder) { b.Func(FArr).Return([4]int32{55}, [3]byte{55}) }},
		{name: "GenT[int]", fn: GenT[int], handle: func(b *mocker.Builder) mocker.ExportedMocker { return b.Func(GenT[int]) }, cbType: reflect.TypeOf(GenT[int]),
			state: func() string { return fp(func() interface{} { return GenT[int](1, "s") }) }, prepare: func(b *mocker.Builder) { b.Func(GenT[int]).Return(55) }},
		{name: "T.M", fn: (*T).M, handle: func(b *mocker.Builder) mocker.ExportedMocker { return b.Struct(&T{}).Method("M") }, cbType: reflect.TypeOf((*T).M),
			state: func() string { return fp(func() interface{} { return (&T{}).M(1, "s") }) }, prepare: func(b *mocker.Builder) { b.Struct(&T{}).Method("M").Return(55) }},
		{name: "FT", fn: FT, handle: func(b *mocker.Builder) mocker.ExportedMocker { return b.Func(FT) }, cbType: reflect.TypeOf(FT),
			state: func() string { return fp(func() interface{} { return FT(&T{}, 1, "s") }) }, prepare: func(b *mocker.Builder) { b.Func(FT).Return(55) }},
		{name: "foo", fn: foo, handle: func(b *mocker.Builder) mocker.ExportedMocker {
			return b.ExportFunc("foo").As(func(a int) int { return 0 })
		}, cbType: reflect.TypeOf(foo),
			state: func() string { return fp(func() interface{} { return foo(1) }) }, prepare: func(b *mocker.Builder) { b.ExportFunc("foo").As(func(a int) int { return 0 }).Return(55) }},
		{name: "I.Get", isIface: true, handle: func(b *mocker.Builder) mocker.ExportedMocker {
			return b.Interface(&iv).Method("Get").As(zeroFn(ifaceCb))
		}, cbType: ifaceCb,
			state: func() string {
				w := *(*[2]uintptr)(unsafe.Pointer(&iv))
				if w[0] == 0 {
					return "nil-interface"
				}
				return fp(func() interface{} { return iv.Get(1, "s") })
			},
			prepare: func(b *mocker.Builder) { b.Interface(&iv).Method("Get").As(zeroFn(ifaceCb)).Return(55) }},
	}
	type mistake struct {
		class string
		desc  string
		do    func(b *mocker.Builder)
	}
	for _, tg := range targets {
		tg := tg
		var ms []mistake
		ins, outs := sig(tg.cbType)
		skip := 0
		if tg.name == "T.M" || tg.isIface {
			skip = 1
		}
		for d, cb := range badCallbacks(tg.cbType) {
			cb, d := cb, d
			if tg.isIface && strings.HasPrefix(d, "param 0") {
				d = "context parameter: " + d
			}
			if tg.isIface && (d == "extra param" || strings.Contains(d, "result") || strings.Contains(d, "size") && !strings.HasPrefix(d, "context")) {
				// interface callbacks are checked for the context parameter and the parameter count only
				if d != "extra result" && !strings.Contains(d, "dropped") {
					continue
				}
				if strings.Contains(d, "result") {
					continue
				}
			}
			ms = append(ms, mistake{"callback-signature", d, func(b *mocker.Builder) { tg.handle(b).Apply(cb) }})
		}
		nargs := len(ins) - skip
		if tg.cbType.IsVariadic() {
			nargs-- // a condition may list zero variadic elements: only fewer than the fixed parameters is too few
		}
		for k := 1; k < nargs; k++ {
			k := k
			ms = append(ms, mistake{"when-too-few-arguments", fmt.Sprintf("%d of %d", k, nargs), func(b *mocker.Builder) {
				as := make([]interface{}, k)
				for i := range as {
					as[i] = goodValue(ins[skip+i])
				}
				tg.handle(b).When(as...)
			}})
			if !tg.cbType.IsVariadic() {
				// the LAST k parameters' values (what the list would be had the first parameters been a receiver)
				ms = append(ms, mistake{"when-too-few-arguments", fmt.Sprintf("the last %d of %d", k, nargs), func(b *mocker.Builder) {
					as := make([]interface{}, k)
					for i := range as {
						as[i] = goodValue(ins[skip+nargs-k+i])
					}
					tg.handle(b).When(as...)
				}})
			}
		}
		// an In clause one of whose alternatives lists too few arguments, the offender first, in the middle and last;
		// and an arg.In expression with an ill-formed (empty tuple) alternative in front of a good one
		if !tg.cbType.IsVariadic() && !tg.isIface && nargs >= 2 {
			for pos := 0; pos < 3; pos++ {
				pos := pos
				ms = append(ms, mistake{"in-alternative-too-few-arguments", fmt.Sprintf("alternative %d of 3 has %d of %d", pos, nargs-1, nargs), func(b *mocker.Builder) {
					full := make([]interface{}, nargs)
					for i := range full {
						full[i] = goodValue(ins[skip+i])
					}
					alts := []interface{}{append([]interface{}{}, full...), append([]interface{}{}, full...), append([]interface{}{}, full...)}
					alts[pos] = append([]interface{}{}, full[:nargs-1]...)
					tg.handle(b).When(full...).In(alts...)
				}})
			}
		}
		if !tg.cbType.IsVariadic() && !tg.isIface && nargs >= 1 {
			ms = append(ms, mistake{"arg-in-ill-formed-alternative", "When(arg.In([]interface{}{}, v), ...)", func(b *mocker.Builder) {
				as := make([]interface{}, nargs)
				for i := range as {
					as[i] = goodValue(ins[skip+i])
				}
				as[0] = arg.In([]interface{}{}, as[0])
				tg.handle(b).When(as...)
			}})
		}
		if len(outs) > 0 {
			// no value at all, on each route that takes a value list
			ms = append(ms, mistake{"return-too-few-values", fmt.Sprintf("Return() with 0 of %d", len(outs)), func(b *mocker.Builder) {
				tg.handle(b).Return()
			}})
			ms = append(ms, mistake{"return-too-few-values", fmt.Sprintf("When(..).Return() with 0 of %d", len(outs)), func(b *mocker.Builder) {
				as := make([]interface{}, nargs)
				for i := range as {
					as[i] = goodValue(ins[skip+i])
				}
				tg.handle(b).When(as...).Return()
			}})
			ms = append(ms, mistake{"return-too-few-values", fmt.Sprintf("Return(good).AndReturn() with 0 of %d", len(outs)), func(b *mocker.Builder) {
				vs := make([]interface{}, len(outs))
				for i := range vs {
					vs[i] = goodValue(outs[i])
				}
				as := make([]interface{}, nargs)
				for i := range as {
					as[i] = goodValue(ins[skip+i])
				}
				tg.handle(b).When(as...).Return(vs...).AndReturn()
			}})
		}
		if len(outs) >= 2 {
			ms = append(ms, mistake{"returns-sequence-too-few-values", "an empty tuple after a good one", func(b *mocker.Builder) {
				vs := make([]interface{}, len(outs))
				for i := range vs {
					vs[i] = goodValue(outs[i])
				}
				tg.handle(b).Returns(vs, []interface{}{})
			}})
		}
		for k := 1; k < len(outs); k++ {
			k := k
			ms = append(ms, mistake{"return-too-few-values", fmt.Sprintf("%d of %d", k, len(outs)), func(b *mocker.Builder) {
				vs := make([]interface{}, k)
				for i := range vs {
					vs[i] = goodValue(outs[i])
				}
				tg.handle(b).Return(vs...)
			}})
		}
		for i := range outs {
			i := i
			if outs[i].Kind() == reflect.Interface {
				continue // any value is assignable size-wise to an interface result
			}
			ms = append(ms, mistake{"return-value-size", fmt.Sprintf("position %d: %s for %s", i, sizeVariant(outs[i]), outs[i]), func(b *mocker.Builder) {
				vs := make([]interface{}, len(outs))
				for j := range vs {
					vs[j] = goodValue(outs[j])
				}
				vs[i] = badValue(outs[i])
				tg.handle(b).Return(vs...)
			}})
		}
		// struct results / struct condition arguments: a struct of ANOTHER type that is smaller or larger
		for i := range outs {
			i := i
			if outs[i].Kind() != reflect.Struct {
				continue
			}
			for _, bad := range []interface{}{p1{1}, p3{1, 2, 3}} {
				bad := bad
				ms = append(ms, mistake{"return-value-size", fmt.Sprintf("position %d: %T (%d bytes) for %s (%d bytes)", i, bad, reflect.TypeOf(bad).Size(), outs[i], outs[i].Size()), func(b *mocker.Builder) {
					vs := make([]interface{}, len(outs))
					for j := range vs {
						vs[j] = goodValue(outs[j])
					}
					vs[i] = bad
					tg.handle(b).Return(vs...)
				}})
			}
		}
		// array results: an array of another length or element size is another size
		for i := range outs {
			i := i
			if outs[i].Kind() != reflect.Array {
				continue
			}
			for _, bt := range []reflect.Type{reflect.ArrayOf(outs[i].Len()-2, outs[i].Elem()), reflect.ArrayOf(outs[i].Len()+2, outs[i].Elem()), reflect.ArrayOf(outs[i].Len(), reflect.TypeOf(int64(0)))} {
				bad := reflect.Zero(bt).Interface()
				ms = append(ms, mistake{"return-value-size", fmt.Sprintf("position %d: %T (%d bytes) for %s (%d bytes)", i, bad, bt.Size(), outs[i], outs[i].Size()), func(b *mocker.Builder) {
					vs := make([]interface{}, len(outs))
					for j := range vs {
						vs[j] = goodValue(outs[j])
					}
					vs[i] = bad
					tg.handle(b).Return(vs...)
				}})
			}
		}
		for i := skip; i < len(ins); i++ {
			i := i
			if ins[i].Kind() != reflect.Struct || tg.cbType.IsVariadic() {
				continue
			}
			for _, bad := range []interface{}{p1{1}, p3{1, 2, 3}} {
				bad := bad
				ms = append(ms, mistake{"when-argument-size", fmt.Sprintf("argument %d: %T for %s", i-skip, bad, ins[i]), func(b *mocker.Builder) {
					as := make([]interface{}, len(ins)-skip)
					for j := range as {
						as[j] = goodValue(ins[skip+j])
					}
					as[i-skip] = bad
					tg.handle(b).When(as...)
				}})
			}
		}
		// Returns(...): a sequence whose k-th element does not fit (validated element by element)
		for i := range outs {
			i := i
			if outs[i].Kind() == reflect.Interface {
				continue
			}
			for _, pos := range []int{0, 1} {
				pos := pos
				ms = append(ms, mistake{"returns-sequence-bad-element", fmt.Sprintf("element %d, position %d: %s for %s", pos, i, sizeVariant(outs[i]), outs[i]), func(b *mocker.Builder) {
					tuple := func(bad bool) interface{} {
						vs := make([]interface{}, len(outs))
						for j := range vs {
							vs[j] = goodValue(outs[j])
						}
						if bad {
							vs[i] = badValue(outs[i])
						}
						if len(vs) == 1 {
							return vs[0]
						}
						return vs
					}
					if pos == 0 {
						tg.handle(b).Returns(tuple(true), tuple(false))
					} else {
						tg.handle(b).Returns(tuple(false), tuple(true))
					}
				}})
			}
		}
		if len(outs) >= 2 {
			ms = append(ms, mistake{"returns-sequence-too-few-values", "bare values for a multi-result function", func(b *mocker.Builder) {
				tg.handle(b).Returns(goodValue(outs[0]), goodValue(outs[0]))
			}})
		}
		for _, m := range ms {
			for _, pre := range []bool{false, true} {
				if m.class == "in-alternative-too-few-arguments" && !pre {
					// goes through an existing configuration (a well-formed When in front of the ill-formed clause):
					// only issued on a target that is already stubbed
					continue
				}
				if tg.isIface {
					iv = nil
				}
				b0 := mocker.Create()
				if pre {
					tg.prepare(b0)
				}
				before := tg.state()
				diffBefore := fmt.Sprint(img.Diff())
				ivWords := *(*[2]uintptr)(unsafe.Pointer(&iv))
				rep.Journal(map[string]interface{}{"target": tg.name, "class": m.class, "desc": m.desc, "premocked": pre})
				var perr interface{}
				func() {
					defer func() { perr = recover() }()
					m.do(b0)
				}()
				rep.Eval(1)
				c := map[string]interface{}{"target": tg.name, "mistake": m.class, "detail": m.desc, "already_mocked": pre}
				rep.Class(fmt.Sprintf("%s/%s/premocked=%v", tg.name, m.class, pre))
				if perr != nil && !viaWhen(m.desc) && m.class != "in-alternative-too-few-arguments" {
					// the same mistake once more through the same builder: refused again
					var perr2 interface{}
					func() {
						defer func() { perr2 = recover() }()
						m.do(b0)
					}()
					rep.Eval(1)
					if perr2 == nil {
						rep.Violate("C13/mistake-accepted-on-second-attempt", fmt.Sprintf("%s: %s (%s) was refused the first time (%v) and accepted when repeated through the same builder", tg.name, m.class, m.desc, firstLine13(perr)), c)
					}
				}
				if perr == nil {
					key := "C13/mistake-accepted"
					if strings.HasPrefix(m.desc, "Return() with 0") {
						key = "C13/return-without-values-accepted"
					}
					rep.Violate(key, fmt.Sprintf("%s: %s (%s) was not rejected", tg.name, m.class, m.desc), c)
				} else if why := chainProblem(perr); why != "" {
					rep.Violate("C13/cause-chain", fmt.Sprintf("%s: %s (%s): %s", tg.name, m.class, m.desc, why), c)
				}
				// the mistake follows a well-formed When(...) in the same chain; that call is a configuration of its
				// own which installs the stub, so only the rejection itself is asserted
				if viaWhen(m.desc) {
					b0.Reset()
					if tg.isIface {
						iv = nil
					}
					continue
				}
				if after := tg.state(); after != before {
					rep.Violate("C13/behaviour-changed-by-rejected-call", fmt.Sprintf("%s: %s (%s): behaviour before %q after %q", tg.name, m.class, m.desc, before, after), c)
				}
				if d := fmt.Sprint(img.Diff()); d != diffBefore {
					rep.Violate("C13/image-changed-by-rejected-call", fmt.Sprintf("%s: %s (%s): image diff before %s after %s", tg.name, m.class, m.desc, diffBefore, d), c)
				}
				if w := *(*[2]uintptr)(unsafe.Pointer(&iv)); tg.isIface && w != ivWords {
					rep.Violate("C13/interface-variable-changed-by-rejected-call", fmt.Sprintf("%s: %s (%s)", tg.name, m.class, m.desc), c)
				}
				// a correct configuration right afterwards must work (no lock left held, nothing half-done)
				done := make(chan interface{}, 1)
				go func() {
					defer func() { done <- recover() }()
					b1 := mocker.Create()
					tg.prepare(b1)
					if s := tg.state(); !strings.Contains(s, "55") {
						panic(fmt.Sprintf("correct configuration after the rejected call yields %q", s))
					}
					b1.Reset()
				}()
				if r := <-done; r != nil {
					rep.Violate("C13/correct-configuration-fails-afterwards", fmt.Sprintf("%s after %s (%s): %v", tg.name, m.class, m.desc, r), c)
				}
				b0.Reset()
				if tg.isIface {
					iv = nil
				}
			}
		}
	}
	// ---- a refused Return behind a well-formed When on a target that already has a default: the condition never came
	//      to be, so a call with exactly the condition's arguments is served by the default like any other call
	for _, tg := range targets {
		if tg.isIface || tg.cbType.IsVariadic() {
			continue
		}
		ins, outs := sig(tg.cbType)
		skip := 0
		if tg.name == "T.M" {
			skip = 1
		}
		var bads []([]interface{})
		for i := range outs {
			if outs[i].Kind() == reflect.Interface {
				continue
			}
			vs := make([]interface{}, len(outs))
			for j := range vs {
				vs[j] = goodValue(outs[j])
			}
			vs[i] = badValue(outs[i])
			bads = append(bads, vs)
		}
		if len(outs) > 1 {
			bads = append(bads, []interface{}{goodValue(outs[0])}) // too few
		}
		for bi, bad := range bads {
			b0 := mocker.Create()
			tg.prepare(b0)
			as := make([]interface{}, len(ins)-skip)
			callArgs := make([]reflect.Value, 0, len(ins))
			if skip == 1 {
				callArgs = append(callArgs, reflect.ValueOf(&T{}))
			}
			for i := range as {
				as[i] = goodValue(ins[skip+i])
				v := reflect.New(ins[skip+i]).Elem()
				if as[i] != nil {
					v.Set(reflect.ValueOf(as[i]))
				}
				callArgs = append(callArgs, v)
			}
			call := func() (out string) {
				defer func() {
					if r := recover(); r != nil {
						out = fmt.Sprintf("panic: %v", firstLine13(r))
					}
				}()
				rs := reflect.ValueOf(tg.fn).Call(callArgs)
				return fmt.Sprint(rs[0].Interface())
			}
			before := call()
			var perr interface{}
			func() {
				defer func() { perr = recover() }()
				tg.handle(b0).When(as...).Return(bad...)
			}()
			rep.Eval(2)
			c := map[string]interface{}{"target": tg.name, "mistake": "when-then-bad-return", "detail": fmt.Sprint(bad)}
			rep.Class(fmt.Sprintf("%s/when-then-bad-return/%d", tg.name, bi))
			if perr == nil {
				rep.Violate("C13/mistake-accepted", fmt.Sprintf("%s: When(%v).Return(%v) was not rejected", tg.name, as, bad), c)
			} else if after := call(); after != before {
				rep.Violate("C13/refused-clause-left-behind", fmt.Sprintf("%s (default Return(55) in place): When(%v).Return(%v) was refused (%v), yet a call with those arguments now gives %q instead of %q", tg.name, as, bad, firstLine13(perr), after, before), c)
			}
			b0.Reset()
		}
	}
	// ---- mistakes that are not tied to a well-formed handle
	misc := []mistake{
		{"non-function-target", "Func(5)", func(b *mocker.Builder) { b.Func(5).Return(1) }},
		{"non-function-target", "Func(\"s\")", func(b *mocker.Builder) { b.Func("F1").Apply(func() {}) }},
		{"non-function-target", "Func(&struct)", func(b *mocker.Builder) { b.Func(&T{}).Return(1) }},
		{"non-function-callback", "Apply(5)", func(b *mocker.Builder) { b.Func(F1).Apply(5) }},
		{"unknown-method", "Struct(&T{}).Method(Nope)", func(b *mocker.Builder) { b.Struct(&T{}).Method("Nope").Return(1) }},
		{"unknown-method", "Struct(&T{}).Method(m) [another letter case of M]", func(b *mocker.Builder) { b.Struct(&T{}).Method("m").Return(1) }},
		{"unknown-method", "Struct(&T{}).Method(m).Apply [another letter case of M]", func(b *mocker.Builder) {
			b.Struct(&T{}).Method("m").Apply(func(t *T, a int, s string) int { return 0 })
		}},
		{"unknown-method", "Struct(&T{}).Method(m).When [another letter case of M]", func(b *mocker.Builder) { b.Struct(&T{}).Method("m").When(1, "a").Return(1) }},
		{"unknown-method", "Interface(&iv).Method(get) [another letter case of Get]", func(b *mocker.Builder) {
			b.Interface(&iv).Method("get").Apply(zeroFn(ifaceCb))
		}},
		{"unknown-method", "Struct(&T{}).Method(\" M\")", func(b *mocker.Builder) { b.Struct(&T{}).Method(" M").Return(1) }},
		{"unknown-method", "Struct(&T{}).Method(\"\")", func(b *mocker.Builder) { b.Struct(&T{}).Method("").Return(1) }},
		{"unknown-method", "Struct(&T{}).ExportMethod(nope).Apply", func(b *mocker.Builder) { b.Struct(&T{}).ExportMethod("nope").Apply(func(t *T) {}) }},
		{"unknown-method", "Interface(&iv).Method(Nope)", func(b *mocker.Builder) { b.Interface(&iv).Method("Nope") }},
		// the variable holds a value whose own type has more methods than the interface: those are not the interface's
		{"unknown-method", "Interface(&held).Method(Extra) [method of the held value's type only]", func(b *mocker.Builder) {
			b.Interface(&ivHeld).Method("Extra").As(func(ctx *mocker.IContext, a int) int { return 0 }).Return(1)
		}},
		{"unknown-method", "Interface(&held).Method(Extra).Apply", func(b *mocker.Builder) {
			b.Interface(&ivHeld).Method("Extra").Apply(func(ctx *mocker.IContext, a int) int { return 0 })
		}},
		{"unknown-method", "Interface(&held).Method(Extra2).Apply [same signature as Get]", func(b *mocker.Builder) {
			b.Interface(&ivHeld).Method("Extra2").Apply(func(ctx *mocker.IContext, a int, s string) int { return 0 })
		}},
		{"unknown-method", "Interface(&iv).Method(Nope).Apply [callback fits the first method]", func(b *mocker.Builder) {
			b.Interface(&iv).Method("Nope").Apply(func(ctx *mocker.IContext, a int, s string) int { return 0 })
		}},
		{"unknown-method", "Interface(&iv).Method(Nope).As.Return", func(b *mocker.Builder) {
			b.Interface(&iv).Method("Nope").As(func(ctx *mocker.IContext, a int, s string) int { return 0 }).Return(1)
		}},
		// callbacks whose function type PRINTS like the target's, with a function-local type that shadows the name of the
		// package-level one and has another size
		// a mocker object the user kept, whose own mock was lifted again: the refusal of an ill-formed callback puts
		// nothing back
		{"callback-signature", "kept Func(F1) mocker: Apply, Cancel, then Apply(two parameters)", func(b *mocker.Builder) {
			m := b.Func(F1)
			m.Apply(func(a int) int { return 9 })
			m.Cancel()
			m.Apply(func(a, c int) int { return 0 })
		}},
		{"callback-signature", "kept Struct(&T{}).Method(M) mocker: Apply, Reset, then Apply(no receiver)", func(b *mocker.Builder) {
			m := b.Struct(&T{}).Method("M")
			m.Apply(func(t *T, a int, s string) int { return 9 })
			b.Reset()
			m.Apply(func(a int) int { return 0 })
		}},
		{"too-few-return-values", "kept Func(F1) mocker: Return(1), Cancel, then Apply(two parameters)", func(b *mocker.Builder) {
			m := b.Func(F1)
			m.Return(1)
			m.Cancel()
			m.Apply(func(a, c int) int { return 0 })
		}},
		{"callback-signature", "Func(F5).Apply: first parameter is a local type named P2, 8 instead of 16 bytes", func(b *mocker.Builder) {
			b.Func(F5).Apply(shadowCallbacks()[0])
		}},
		{"callback-signature", "Func(F5).Apply: first result is a local type named P2, 24 instead of 16 bytes", func(b *mocker.Builder) {
			b.Func(F5).Apply(shadowCallbacks()[1])
		}},
		{"unknown-symbol", "ExportFunc(nope).Apply", func(b *mocker.Builder) { b.ExportFunc("nope").Apply(func() {}) }},
		{"unknown-symbol", "ExportFunc(nope).As", func(b *mocker.Builder) { b.ExportFunc("nope").As(func() {}).Return() }},
		{"unknown-symbol", "Pkg(x).ExportFunc(foo).As", func(b *mocker.Builder) {
			b.Pkg("no/such/pkg").ExportFunc("foo").As(func(a int) int { return 0 }).Return(1)
		}},
		{"unknown-symbol", "ExportStruct(nope).Method(m).Apply", func(b *mocker.Builder) { b.ExportStruct("nope").Method("m").Apply(func() {}) }},
		{"unknown-symbol", "UnExportedVar(nope)", func(b *mocker.Builder) { b.UnExportedVar("no/such/pkg.v").Set(1) }},
		// near misses of names that do exist: a proper prefix, a trailing character more or less, the value-receiver
		// spelling of a method that only exists with a pointer receiver
		{"unknown-symbol", "ExportFunc(fo).As [prefix of foo]", func(b *mocker.Builder) { b.ExportFunc("fo").As(func(a int) int { return 0 }).Return(1) }},
		{"unknown-symbol", "ExportFunc(fooB).Apply [prefix of fooBar]", func(b *mocker.Builder) { b.ExportFunc("fooB").Apply(func(a int) int { return 0 }) }},
		{"unknown-symbol", "ExportFunc(foo0).As [foo plus a character]", func(b *mocker.Builder) { b.ExportFunc("foo0").As(func(a int) int { return 0 }).Return(1) }},
		{"unknown-symbol", "ExportFunc(fooa).Apply [foo plus a character]", func(b *mocker.Builder) { b.ExportFunc("fooa").Apply(func(a int) int { return 0 }) }},
		{"unknown-symbol", "ExportFunc(fooBa).As [fooBar minus a character]", func(b *mocker.Builder) { b.ExportFunc("fooBa").As(func(a int) int { return 0 }).Return(1) }},
		{"unknown-symbol", "ExportStruct(T).Method(M).Apply [value-receiver spelling of (*T).M]", func(b *mocker.Builder) {
			b.ExportStruct("T").Method("M").Apply(func(t T, a int, s string) int { return 0 })
		}},
		{"unknown-symbol", "ExportStruct(T).Method(M).As [value-receiver spelling of (*T).M]", func(b *mocker.Builder) {
			b.ExportStruct("T").Method("M").As(func(t T, a int, s string) int { return 0 }).Return(1)
		}},
		{"unknown-symbol", "ExportStruct(*T).Method(M0).Apply [M plus a character]", func(b *mocker.Builder) {
			b.ExportStruct("*T").Method("M0").Apply(func(t *T, a int, s string) int { return 0 })
		}},
		{"unknown-symbol", "ExportStruct(*T).Method(m).Apply [other case]", func(b *mocker.Builder) {
			b.ExportStruct("*T").Method("m").Apply(func(t *T, a int, s string) int { return 0 })
		}},
		{"interface-not-pointer", "Interface(iv value)", func(b *mocker.Builder) {
			var x I = &NotIface{}
			b.Interface(x).Method("Get").Apply(zeroFn(ifaceCb))
		}},
		// containers of interfaces also have an element type that is an interface - they are not pointers to one
		{"interface-not-pointer", "Interface([]I) instead of &s[0]", func(b *mocker.Builder) {
			xs := []I{&NotIface{}}
			b.Interface(xs).Method("Get").Apply(zeroFn(ifaceCb))
		}},
		{"interface-not-pointer", "Interface([]I).As.Return", func(b *mocker.Builder) {
			xs := []I{nil, nil}
			b.Interface(xs).Method("Get").As(zeroFn(ifaceCb)).Return(1)
		}},
		{"interface-not-pointer", "Interface([2]I array pointer)", func(b *mocker.Builder) {
			var xs [2]I
			b.Interface(&xs).Method("Get").Apply(zeroFn(ifaceCb))
		}},
		// an object that starts at the address of an interface variable the builder already knows is still not that variable
		{"interface-not-interface", "Interface(&holder) after Interface(&holder.I) [same address]", func(b *mocker.Builder) {
			h := &holder13{}
			b.Interface(&h.I)
			b.Interface(h).Method("Get").Apply(zeroFn(ifaceCb))
		}},
		{"interface-not-interface", "Interface(&holder).As.Return after Interface(&holder.I).Apply [same address]", func(b *mocker.Builder) {
			h := &holder13{}
			b.Interface(&h.I).Method("Get").Apply(zeroFn(ifaceCb))
			b.Interface(h).Method("Get").As(zeroFn(ifaceCb)).Return(1)
		}},
		{"interface-not-pointer", "Interface(&[2]I) after Interface(&xs[0]) [same address]", func(b *mocker.Builder) {
			xs := new([2]I)
			b.Interface(&xs[0])
			b.Interface(xs).Method("Get").Apply(zeroFn(ifaceCb))
		}},
		{"interface-not-interface", "Interface(&struct)", func(b *mocker.Builder) { b.Interface(&NotIface{}).Method("Get").Apply(zeroFn(ifaceCb)) }},
		{"interface-not-interface", "Interface(&int)", func(b *mocker.Builder) { x := 5; b.Interface(&x).Method("Get").Apply(zeroFn(ifaceCb)) }},
		// the As() template of an interface method lacks parameters of the method: rejected on every route that uses it
		{"interface-as-too-few-parameters", "As(func(ctx, int) int).Return", func(b *mocker.Builder) {
			b.Interface(&iv).Method("Get").As(func(ctx *mocker.IContext, a int) int { return 0 }).Return(1)
		}},
		{"interface-as-too-few-parameters", "As(func(ctx) int).Return", func(b *mocker.Builder) {
			b.Interface(&iv).Method("Get").As(func(ctx *mocker.IContext) int { return 0 }).Return(1)
		}},
		{"interface-as-too-few-parameters", "As(func(ctx, int) int).Returns", func(b *mocker.Builder) {
			b.Interface(&iv).Method("Get").As(func(ctx *mocker.IContext, a int) int { return 0 }).Returns(1, 2)
		}},
		{"interface-as-too-few-parameters", "As(func(ctx, int) int).When", func(b *mocker.Builder) {
			b.Interface(&iv).Method("Get").As(func(ctx *mocker.IContext, a int) int { return 0 }).When(1).Return(1)
		}},
		{"interface-as-too-few-parameters", "Apply(func(ctx, int) int)", func(b *mocker.Builder) {
			b.Interface(&iv).Method("Get").Apply(func(ctx *mocker.IContext, a int) int { return 0 })
		}},
		{"interface-return-without-as", "Interface(&iv).Method(Get).Return", func(b *mocker.Builder) { b.Interface(&iv).Method("Get").Return(1) }},
		{"var-not-pointer", "Var(5)", func(b *mocker.Builder) { b.Var(5).Set(6) }},
	}
	all := func() string {
		return fmt.Sprint(F1(1), F2(1, "s"), (&T{}).M(1, "s"), foo(1), fooBar(1), *(*[2]uintptr)(unsafe.Pointer(&iv)),
			*(*[2]uintptr)(unsafe.Pointer(&ivHeld)), ivHeld.Get(1, "s"), ivHeld.(*Held).Extra(1), ivHeld.(*Held).Extra2(1, "s"))
	}
	for _, m := range misc {
		iv = nil
		before := all()
		b := mocker.Create()
		var perr interface{}
		func() {
			defer func() { perr = recover() }()
			m.do(b)
		}()
		rep.Eval(1)
		rep.Class("misc/" + m.class + "/" + m.desc)
		c := map[string]interface{}{"mistake": m.class, "detail": m.desc}
		if perr != nil {
			// the same mistake once more through the same builder: refused again
			var perr2 interface{}
			func() {
				defer func() { perr2 = recover() }()
				m.do(b)
			}()
			rep.Eval(1)
			if perr2 == nil {
				rep.Violate("C13/mistake-accepted-on-second-attempt", fmt.Sprintf("%s (%s) was refused the first time (%v) and accepted when repeated through the same builder", m.class, m.desc, firstLine13(perr)), c)
			}
		}
		if perr == nil {
			rep.Violate("C13/mistake-accepted", fmt.Sprintf("%s (%s) was not rejected", m.class, m.desc), c)
		} else if why := chainProblem(perr); why != "" {
			rep.Violate("C13/cause-chain", fmt.Sprintf("%s (%s): %s", m.class, m.desc, why), c)
		}
		if after := all(); after != before {
			rep.Violate("C13/behaviour-changed-by-rejected-call", fmt.Sprintf("%s (%s): %q -> %q", m.class, m.desc, before, after), c)
		}
		if d := img.Diff(); len(d) != 0 {
			rep.Violate("C13/image-changed-by-rejected-call", fmt.Sprintf("%s (%s): %v", m.class, m.desc, d), c)
		}
		var rerr interface{}
		func() {
			defer func() { rerr = recover() }()
			b.Reset()
		}()
		if rerr != nil {
			rep.Violate("C13/reset-after-rejected-call-panics", fmt.Sprintf("%s (%s): Builder.Reset panicked: %v", m.class, m.desc, rerr), c)
		}
		// still usable
		b1 := mocker.Create()
		b1.Func(F1).Return(55)
		if F1(1) != 55 {
			rep.Violate("C13/correct-configuration-fails-afterwards", m.desc, c)
		}
		b1.Reset()
	}
	rep.Sample(map[string]interface{}{"target": "F3", "mistake": "callback-signature", "detail": "param 1 size 8->1"})
	rep.Sample(map[string]interface{}{"target": "I.Get", "mistake": "callback without context parameter"})
}

func viaWhen(desc string) bool {
	return strings.HasPrefix(desc, "When(..).Return()") || strings.HasPrefix(desc, "Return(good).AndReturn()")
}

func firstLine13(v interface{}) string {
	s := fmt.Sprint(v)
	if i := strings.IndexByte(s, '\n'); i >= 0 {
		s = s[:i]
	}
	return s
}

//go:noinline
func FArr(a int) ([4]int32, [3]byte) { return [4]int32{-9}, [3]byte{9} }

//go:noinline
func GenT[T any](a T, s string) int { return -31 }

type outerP2 = P2

// shadowCallbacks: inside this function P2 is another type; fmt prints both as c13.P2
func shadowCallbacks() []interface{} {
	var out []interface{}
	{
		type P2 struct{ X int }
		out = append(out, func(p P2, n int) (outerP2, int) { return outerP2{}, 0 })
	}
	{
		type P2 struct{ X, Y, Z int }
		out = append(out, func(p outerP2, n int) (P2, int) { return P2{}, 0 })
	}
	return out
}
