//go:build go1.21

package c18

import (
	"fmt"
	"math"
	"os"
	"reflect"
	"strings"
	"testing"
	"time"

	mocker "github.com/tencent/goom"
	"github.com/tencent/goom/arg"
	"github.com/tencent/goom/zzverif/vmon"
)

type S struct {
	A int
	B string
	C []int
}
type N struct {
	P *S
	M map[string]int
}

func f1()     {}
func f2()     {}
func f3() int { return 1 }

var g18sink int

// g18: instantiations of one generic function are different functions of one Go type (and of one printed name)
//
//go:noinline
func g18[T any]() {
	var t [2]T
	g18sink += len(t)
}

type domain struct {
	name string
	typ  reflect.Type
	gen  func(r *vmon.Rng) interface{}
	// identity: compare funcs by identity; otherwise Go ==/DeepEqual
	isFunc bool
}

func min(a, b int) int {
	if a < b {
		return a
	}
	return b
}

func pick(r *vmon.Rng, vs ...interface{}) interface{} { return vs[r.Intn(len(vs))] }

var s1, s2, s3 = &S{1, "a", []int{1}}, &S{1, "a", []int{1}}, &S{2, "b", nil}
var ps1, ps2, ps3 = &s1, &s2, &s3

func domains() []domain {
	ints := func(bits int, signed bool) func(r *vmon.Rng) int64 {
		return func(r *vmon.Rng) int64 {
			switch r.Intn(4) {
			case 0:
				return int64(r.Intn(4))
			case 1:
				if signed {
					return []int64{-1, -(1 << (bits - 1)), 1<<(bits-1) - 1, 0, 1 << (bits - 2), 1<<(bits-2) + 1, (1<<(bits-1) - 1) - 1, 1 << uint(min(bits-2, 53)), 1<<uint(min(bits-2, 53)) + 1}[r.Intn(9)]
				}
				return 0
			case 2:
				return int64(r.Uint64() >> uint(64-bits+1))
			}
			return int64(r.Intn(3)) - 1
		}
	}
	var ds []domain
	add := func(name string, sample interface{}, g func(r *vmon.Rng) interface{}) {
		ds = append(ds, domain{name: name, typ: reflect.TypeOf(sample), gen: g})
	}
	g8, g16, g32, g64 := ints(8, true), ints(16, true), ints(32, true), ints(64, true)
	add("int", int(0), func(r *vmon.Rng) interface{} { return int(g64(r)) })
	add("int8", int8(0), func(r *vmon.Rng) interface{} { return int8(g8(r)) })
	add("int16", int16(0), func(r *vmon.Rng) interface{} { return int16(g16(r)) })
	add("int32", int32(0), func(r *vmon.Rng) interface{} { return int32(g32(r)) })
	add("int64", int64(0), func(r *vmon.Rng) interface{} { return g64(r) })
	u := func(bits int) func(r *vmon.Rng) uint64 {
		return func(r *vmon.Rng) uint64 {
			switch r.Intn(3) {
			case 0:
				return uint64(r.Intn(4))
			case 1:
				return []uint64{0, 1<<uint(bits) - 1, 1 << uint(bits-1)}[r.Intn(3)] & (1<<uint(bits) - 1 | uint64(0)>>uint(64-bits))
			}
			return r.Uint64() >> uint(64-bits)
		}
	}
	add("uint", uint(0), func(r *vmon.Rng) interface{} {
		if r.Intn(3) == 0 {
			return uint(math.MaxUint64)
		}
		return uint(u(63)(r))
	})
	add("uint8", uint8(0), func(r *vmon.Rng) interface{} { return uint8(u(8)(r)) })
	add("uint16", uint16(0), func(r *vmon.Rng) interface{} { return uint16(u(16)(r)) })
	add("uint32", uint32(0), func(r *vmon.Rng) interface{} { return uint32(u(32)(r)) })
	add("uint64", uint64(0), func(r *vmon.Rng) interface{} {
		if r.Intn(3) == 0 {
			return uint64(math.MaxUint64) - uint64(r.Intn(2))
		}
		return u(63)(r)
	})
	add("uintptr", uintptr(0), func(r *vmon.Rng) interface{} { return uintptr(u(48)(r)) })
	fl := func(r *vmon.Rng) float64 {
		return []float64{1, 1.5, -2.25, 0.1, 0.30000000000000004, 0.3, 1e300, math.MaxFloat64, math.SmallestNonzeroFloat64, 3, 1 << 53, 1<<53 + 2, math.Inf(1), math.Inf(-1), 16777216, 16777218}[r.Intn(16)]
	}
	add("float64", float64(0), func(r *vmon.Rng) interface{} { return fl(r) })
	add("float32", float32(0), func(r *vmon.Rng) interface{} { return float32(fl(r)) })
	// named numeric types with String/Format methods (enums, bit sets, durations): equality is about the number
	add("enum with String()", Level(0), func(r *vmon.Rng) interface{} { return Level(r.Intn(7)) })
	add("os.FileMode", os.FileMode(0), func(r *vmon.Rng) interface{} {
		return pick(r, os.FileMode(0644), os.FileMode(0644|1<<10), os.FileMode(0644|1<<9), os.FileMode(0755), os.ModeDir|0755, os.FileMode(0))
	})
	add("time.Duration", time.Duration(0), func(r *vmon.Rng) interface{} {
		return pick(r, time.Duration(0), time.Second, 1000*time.Millisecond, time.Minute, time.Duration(1), time.Duration(-1))
	})
	// the same for every other kind of number a named type can have
	add("uintptr with String()", Handle(0), func(r *vmon.Rng) interface{} { return Handle(r.Intn(6)) })
	add("uint16 with String()", Port(0), func(r *vmon.Rng) interface{} { return Port(r.Intn(6)) })
	add("int8 with String()", Tiny(0), func(r *vmon.Rng) interface{} { return Tiny(r.Intn(6) - 3) })
	add("uint64 with String()", Mask(0), func(r *vmon.Rng) interface{} { return Mask(uint64(r.Intn(6)) << 60) })
	add("float32 with String()", Ratio(0), func(r *vmon.Rng) interface{} { return pick(r, Ratio(0.25), Ratio(0.26), Ratio(0.3), Ratio(-0.25)) })
	add("float with String()", Celsius(0), func(r *vmon.Rng) interface{} {
		return pick(r, Celsius(20.04), Celsius(20.01), Celsius(20), Celsius(-3.5))
	})
	add("string", "", func(r *vmon.Rng) interface{} {
		// among them different spellings of one number: strings are compared as strings
		return pick(r, "", "a", "b", "5", "5.0", "05", "+5", "5e0", "true", "0x10", "16", " ", "a\x00", "é", "long string value ............................................. x",
			"NaN", "NaN", "Inf", "+Inf", "inf", "-0", "0", "0.5", "0.50", ".5", "1e3", "1000", "1000.0")
	})
	add("bool", false, func(r *vmon.Rng) interface{} { return r.Bool() })
	add("struct", S{}, func(r *vmon.Rng) interface{} {
		return pick(r, S{}, S{1, "a", nil}, S{1, "a", []int{}}, S{1, "a", []int{1}}, S{1, "a", []int{1}}, S{2, "a", []int{1}}, S{1, "b", []int{1, 2}})
	})
	add("array", [3]int{}, func(r *vmon.Rng) interface{} {
		return pick(r, [3]int{}, [3]int{1, 2, 3}, [3]int{1, 2, 4}, [3]int{0, 0, 1})
	})
	add("slice", []int(nil), func(r *vmon.Rng) interface{} {
		// among them windows of one backing array: same first element, different lengths
		return pick(r, []int(nil), []int{}, []int{1}, []int{1}, []int{1, 2}, []int{2, 1}, make([]int, 0, 8),
			sliceBase[:0], sliceBase[:2], sliceBase[:4], sliceBase[:2:2], sliceBase[1:3], sliceBase[:0:0])
	})
	// bytes: arrays of them are values (and not addressable when they arrive as arguments), nil and empty slices differ
	add("byte array", [4]byte{}, func(r *vmon.Rng) interface{} {
		return pick(r, [4]byte{}, [4]byte{1, 2, 3, 4}, [4]byte{1, 2, 3, 5}, [4]byte{0, 0, 0, 1})
	})
	add("named byte array", Digest{}, func(r *vmon.Rng) interface{} {
		return pick(r, Digest{}, Digest{15: 1}, Digest{0: 1}, Digest{15: 1})
	})
	add("byte slice", []byte(nil), func(r *vmon.Rng) interface{} {
		return pick(r, []byte(nil), []byte{}, []byte{1}, []byte{1}, []byte{2}, []byte("ab"), []byte("ab"), make([]byte, 0, 4))
	})
	add("pointer to byte slice", (*[]byte)(nil), func(r *vmon.Rng) interface{} {
		a, b, c, d := []byte(nil), []byte{}, []byte{1}, []byte{1}
		return pick(r, (*[]byte)(nil), &a, &b, &c, &d)
	})
	add("slice of zero-size elements", []struct{}(nil), func(r *vmon.Rng) interface{} {
		return pick(r, []struct{}(nil), []struct{}{}, structSliceBase[:1], structSliceBase[:3], make([]struct{}, 3), make([]struct{}, 1))
	})
	add("pointer to slice", (*[]int)(nil), func(r *vmon.Rng) interface{} {
		a, b, c, d := sliceBase[:2], sliceBase[:4], []int{1, 2}, []int(nil)
		return pick(r, (*[]int)(nil), &a, &b, &c, &d)
	})
	add("map", map[string]int(nil), func(r *vmon.Rng) interface{} {
		return pick(r, map[string]int(nil), map[string]int{}, map[string]int{"a": 1}, map[string]int{"a": 1}, map[string]int{"a": 2}, map[string]int{"a": 1, "b": 2})
	})
	add("ptr", (*S)(nil), func(r *vmon.Rng) interface{} { return pick(r, (*S)(nil), s1, s2, s3, s1) })
	add("ptrptr", (**S)(nil), func(r *vmon.Rng) interface{} { return pick(r, (**S)(nil), ps1, ps2, ps3) })
	add("nested", N{}, func(r *vmon.Rng) interface{} {
		return pick(r, N{}, N{P: s1}, N{P: s2}, N{P: s3}, N{P: s1, M: map[string]int{"k": 1}}, N{P: s2, M: map[string]int{"k": 1}}, N{M: map[string]int{}})
	})
	add("chanless-iface-of-int", struct{ I interface{} }{}, func(r *vmon.Rng) interface{} {
		return struct{ I interface{} }{pick(r, 1, 2, "a", nil, S{1, "a", nil})}
	})
	// a struct of exported fields one of which is an interface: values of different dynamic types that print alike or
	// are equally "true" are different values
	add("struct with interface field", Attr{}, func(r *vmon.Rng) interface{} {
		return Attr{"k", pick(r, 1, 1, int64(1), 1.0, true, "1", uint8(1), nil, 0, false, "", "true", float32(1), Level(1), int64(1))}
	})
	add("struct with two interface fields", Pair{}, func(r *vmon.Rng) interface{} {
		return Pair{pick(r, 1, int64(1), "1", nil), pick(r, true, 1, nil, "true")}
	})
	// structures that reach themselves through pointers
	add("ring pointer", (*Ring)(nil), func(r *vmon.Rng) interface{} { return pick(r, ringA, ringB, ring2, ringC, (*Ring)(nil), ringA) })
	add("ring struct", Ring{}, func(r *vmon.Rng) interface{} { return pick(r, *ringA, *ringB, *ring2, *ringC, Ring{}, Ring{V: 1}) })
	add("tree with parent pointers", (*Tree)(nil), func(r *vmon.Rng) interface{} { return pick(r, treeA, treeB, treeC, treeA.Kids[0], treeB.Kids[0]) })
	ds = append(ds, domain{name: "func", typ: reflect.TypeOf(f1), isFunc: true, gen: func(r *vmon.Rng) interface{} {
		return pick(r, f1, f2, f1, (func())(nil), g18[int], g18[string], g18[int], g18[*S])
	}})
	return ds
}

func nilable(k reflect.Kind) bool {
	switch k {
	case reflect.Chan, reflect.Func, reflect.Interface, reflect.Map, reflect.Ptr, reflect.Slice:
		return true
	}
	return false
}

// oracle: Go equality semantics for same-typed values
func oracle(d domain, x, a interface{}) bool {
	vx, va := reflect.ValueOf(x), reflect.ValueOf(a)
	if nilable(d.typ.Kind()) {
		nx, na := !vx.IsValid() || vx.IsNil(), !va.IsValid() || va.IsNil()
		if nx || na {
			return nx && na
		}
	}
	if d.isFunc {
		return vx.Pointer() == va.Pointer()
	}
	switch d.typ.Kind() {
	case reflect.Ptr:
		return reflect.DeepEqual(vx.Elem().Interface(), va.Elem().Interface())
	case reflect.Struct, reflect.Array, reflect.Slice, reflect.Map:
		return reflect.DeepEqual(x, a)
	}
	return x == a
}

// excluded pairs: NaN and +-0 (outside the statement)
func excludedPair(x, a interface{}) bool {
	f := func(v interface{}) (float64, bool) {
		switch t := v.(type) {
		case float64:
			return t, true
		case float32:
			return float64(t), true
		}
		return 0, false
	}
	fx, ok1 := f(x)
	fa, ok2 := f(a)
	if ok1 && ok2 {
		if math.IsNaN(fx) || math.IsNaN(fa) {
			return true
		}
		if fx == 0 && fa == 0 && math.Signbit(fx) != math.Signbit(fa) {
			return true
		}
	}
	return false
}

func showAll(vs []interface{}) []string {
	var out []string
	for _, v := range vs {
		out = append(out, show(v))
	}
	return out
}

func typed(t reflect.Type, v interface{}) reflect.Value {
	out := reflect.New(t).Elem()
	if v != nil {
		out.Set(reflect.ValueOf(v))
	}
	return out
}

func evalExpr(e arg.Expr, t reflect.Type, a interface{}) (res bool, perr interface{}) {
	defer func() {
		if r := recover(); r != nil {
			perr = r
		}
	}()
	if err := e.Resolve([]reflect.Type{t}, false); err != nil {
		return false, "Resolve: " + err.Error()
	}
	ok, err := e.Eval([]reflect.Value{typed(t, a)}, false)
	if err != nil {
		return false, "Eval: " + err.Error()
	}
	return ok, nil
}

func show(v interface{}) string {
	rv := reflect.ValueOf(v)
	if rv.IsValid() && rv.Kind() == reflect.Ptr && !rv.IsNil() {
		return fmt.Sprintf("&%s", show(rv.Elem().Interface()))
	}
	if rv.IsValid() && rv.Kind() == reflect.Func {
		return fmt.Sprintf("func@%x", rv.Pointer())
	}
	return fmt.Sprintf("%#v", v)
}

// Level prints the same text for every value it has no name for.
type Level int

func (l Level) String() string {
	switch l {
	case 0:
		return "low"
	case 1:
		return "high"
	}
	return "unknown"
}

type Digest [16]uint8

// opaque named numbers whose text says nothing (or not enough) about the value
type Handle uintptr

func (Handle) String() string { return "handle" }

type Port uint16

func (p Port) String() string { return fmt.Sprintf("port(%d)", p/2) }

type Tiny int8

func (t Tiny) String() string {
	if t < 0 {
		return "neg"
	}
	return "nonneg"
}

type Mask uint64

func (Mask) Error() string { return "mask" }

type Ratio float32

func (r Ratio) String() string { return fmt.Sprintf("%.1f", float32(r)) }

// Celsius prints rounded.
type Celsius float64

func (c Celsius) String() string { return fmt.Sprintf("%.1f°C", float64(c)) }

type Attr struct {
	K string
	V interface{}
}
type Pair struct{ A, B interface{} }

// Ring and Tree have exported fields only and reach themselves through pointers
type Ring struct {
	V    int
	Next *Ring
}
type Tree struct {
	Name   string
	Parent *Tree
	Kids   []*Tree
}

func mkRing(vs ...int) *Ring {
	first := &Ring{V: vs[0]}
	cur := first
	for _, v := range vs[1:] {
		cur.Next = &Ring{V: v}
		cur = cur.Next
	}
	cur.Next = first
	return first
}

func mkTree(root string, kids ...string) *Tree {
	t := &Tree{Name: root}
	for _, k := range kids {
		t.Kids = append(t.Kids, &Tree{Name: k, Parent: t})
	}
	return t
}

var ringA, ringB, ring2, ringC = mkRing(1), mkRing(1), mkRing(1, 1), mkRing(1, 2)
var treeA, treeB, treeC = mkTree("r", "a", "b"), mkTree("r", "a", "b"), mkTree("r", "a", "c")

var sliceBase = []int{1, 2, 3, 4}

var structSliceBase = make([]struct{}, 5)

func TestC18(t *testing.T) {
	rep := vmon.NewReport("C18")
	defer rep.Write()
	shard, _ := vmon.Shard()
	rng := vmon.NewRng(vmon.Seed(), uint64(1800+shard))
	npairs := vmon.EnvInt("VERIF_C18_PAIRS", 20000)
	ds := domains()
	// one Any object used for parameters of different types (the exported arg.AnyValues is such an object): resolving it
	// for another parameter does not change what it answers for the first
	if shard == 0 {
		for _, shared := range []arg.Expr{arg.Any(), arg.Any()} {
			for i, d1 := range ds {
				d2 := ds[(i*7+3)%len(ds)]
				v1, v2 := d1.gen(rng), d2.gen(rng)
				ok1, p1 := evalExpr(shared, d1.typ, v1)
				ok2, p2 := evalExpr(shared, d2.typ, v2)
				// the first use again, as its When would evaluate it: no fresh Resolve in between
				ok3, err3 := shared.Eval([]reflect.Value{typed(d1.typ, v1)}, false)
				rep.Eval(3)
				if p1 != nil || p2 != nil || err3 != nil || !ok1 || !ok2 || !ok3 {
					rep.Violate("C18/any-rejects", fmt.Sprintf("one Any object resolved for %s, then for %s: answers %v (%v), %v (%v), and for the %s value again %v (%v); Any accepts everything", d1.typ, d2.typ, ok1, p1, ok2, p2, d1.typ, ok3, err3),
						map[string]interface{}{"first": d1.name, "second": d2.name})
					break
				}
			}
		}
		rep.Class("any/one-object-for-several-parameter-types")
	}
	// an interface-typed parameter: a pointer and its pointee (and a pointer to that pointer) are three different values,
	// whatever they lead to in the end
	if shard == 0 {
		iv, sv, fv := 5, "s", f1
		piv := &iv
		slv := []int{1, 2}
		depth := [][]interface{}{{iv, &iv, &piv}, {sv, &sv}, {S{A: 1}, &S{A: 1}}, {slv, &slv}, {fv, &fv}}
		ifT := reflect.TypeOf((*interface{})(nil)).Elem()
		for _, chain := range depth {
			for i, x := range chain {
				for j, a := range chain {
					got, perr := evalExpr(arg.Equals(x), ifT, a)
					rep.Eval(1)
					if perr != nil || got != (i == j) {
						rep.Violate("C18/equals-wrong", fmt.Sprintf("interface parameter: Equals(%T)(%T) - pointer depth %d against %d of the same innermost value - answers %v (%v), want %v", x, a, i, j, got, perr, i == j),
							map[string]interface{}{"x": fmt.Sprintf("%T", x), "a": fmt.Sprintf("%T", a)})
					}
				}
			}
		}
		rep.Class("equals/pointer-depth-in-interface-parameter")
	}
	// interface domains: interface{} holding values of every other domain (same dynamic type on both sides)
	nd := len(ds)
	ifaceT := reflect.TypeOf((*interface{})(nil)).Elem()
	for i := 0; i < npairs; i++ {
		d := ds[i%nd]
		x, a := d.gen(rng), d.gen(rng)
		if rng.Chance(1, 5) {
			a = x
		} else if rng.Chance(1, 3) {
			a = neighbour(x, rng) // adjacent values: the closest distinct value must not compare equal
		}
		if nilable(d.typ.Kind()) && rng.Chance(1, 8) {
			x = nil // the untyped nil a user writes in When(nil)
		}
		if excludedPair(x, a) {
			continue
		}
		asIface := rng.Chance(1, 4) && x != nil
		pt := d.typ
		if asIface {
			pt = ifaceT
			// an interface holding nil of a nilable type vs nil interface differ in type: keep both typed
		}
		want := oracle(d, x, a)
		rep.Journal(map[string]interface{}{"dom": d.name, "x": show(x), "a": show(a)})
		c := map[string]interface{}{"domain": d.name, "as_interface": asIface, "x": show(x), "a": show(a)}
		key := func(k string) string {
			if d.isFunc && x == nil && !asIface {
				return "C18/nil-func-pattern"
			}
			if strings.Contains(d.name, "String()") || d.name == "os.FileMode" || d.name == "time.Duration" {
				return "C18/named-number-compared-by-its-text"
			}
			return k
		}
		// Equals(x)(a)
		e1 := arg.Equals(x)
		got1, p1 := evalExpr(e1, pt, a)
		rep.Eval(1)
		if p1 != nil {
			rep.Violate(key("C18/equals-panics"), fmt.Sprintf("Equals(%s)(%s) on %s: %v", show(x), show(a), pt, p1), c)
			continue
		}
		if got1 != want {
			rep.Violate(key("C18/equals-wrong"), fmt.Sprintf("Equals(%s)(%s) on %s = %v, Go equality says %v", show(x), show(a), pt, got1, want), c)
		}
		// symmetry
		got2, p2 := evalExpr(arg.Equals(a), pt, x)
		rep.Eval(1)
		if p2 != nil {
			rep.Violate(key("C18/equals-panics"), fmt.Sprintf("Equals(%s)(%s) on %s: %v", show(a), show(x), pt, p2), c)
		} else if got2 != got1 {
			rep.Violate(key("C18/equals-asymmetric"), fmt.Sprintf("Equals(%s)(%s)=%v but Equals(%s)(%s)=%v", show(x), show(a), got1, show(a), show(x), got2), c)
		}
		// In = union of Equals
		y, z := d.gen(rng), d.gen(rng)
		if !excludedPair(y, a) && !excludedPair(z, a) {
			wantIn := want || oracle(d, y, a) || oracle(d, z, a)
			gotIn, p3 := evalExpr(arg.In(x, y, z), pt, a)
			rep.Eval(1)
			if p3 != nil {
				rep.Violate(key("C18/in-panics"), fmt.Sprintf("In(%s,%s,%s)(%s): %v", show(x), show(y), show(z), show(a), p3), c)
			} else if gotIn != wantIn {
				rep.Violate(key("C18/in-not-union"), fmt.Sprintf("In(%s,%s,%s)(%s) = %v, union of Equals says %v", show(x), show(y), show(z), show(a), gotIn, wantIn), c)
			}
		}
		// In with one and with two alternatives (a single alternative that is itself a slice, map or array is ONE value)
		for _, alts := range [][]interface{}{{x}, {y, x}} {
			ok := true
			wantN := false
			for _, al := range alts {
				if excludedPair(al, a) {
					ok = false
				} else {
					wantN = wantN || oracle(d, al, a)
				}
			}
			if !ok {
				continue
			}
			gotN, pN := evalExpr(arg.In(alts...), pt, a)
			rep.Eval(1)
			if pN != nil {
				rep.Violate(key("C18/in-panics"), fmt.Sprintf("In%v(%s) on %s: %v", showAll(alts), show(a), pt, pN), c)
			} else if gotN != wantN {
				rep.Violate(key("C18/in-not-union"), fmt.Sprintf("In%v(%s) on %s = %v, union of Equals says %v", showAll(alts), show(a), pt, gotN, wantN), c)
			}
		}
		// one In object with four alternatives, resolved once, then queried repeatedly: every answer is the union of Equals
		{
			alts := []interface{}{x, y, z, d.gen(rng)}
			ok4 := true
			for _, al := range alts {
				if excludedPair(al, al) {
					ok4 = false
				}
			}
			if ok4 {
				in := arg.In(alts...)
				var rerr interface{}
				func() {
					defer func() { rerr = recover() }()
					if err := in.Resolve([]reflect.Type{pt}, false); err != nil {
						rerr = err
					}
				}()
				var trail []string
				for q := 0; q < 10 && rerr == nil; q++ {
					qa := alts[rng.Intn(len(alts))]
					if q%4 == 3 {
						qa = d.gen(rng)
					}
					skip := false
					wantQ := false
					for _, al := range alts {
						if excludedPair(al, qa) {
							skip = true
						}
						wantQ = wantQ || oracle(d, al, qa)
					}
					if skip {
						continue
					}
					var got bool
					var perr interface{}
					func() {
						defer func() { perr = recover() }()
						got, _ = in.Eval([]reflect.Value{typed(pt, qa)}, false)
					}()
					rep.Eval(1)
					trail = append(trail, fmt.Sprintf("%s->%v", show(qa), got))
					if perr != nil || got != wantQ {
						rep.Violate(key("C18/in-answer-depends-on-history"), fmt.Sprintf("In%v resolved once, query %d: In(...)(%s) = %v (panic %v), union of Equals says %v; earlier queries %v", showAll(alts), q, show(qa), got, perr, wantQ, trail), c)
						break
					}
				}
			}
		}
		// Any
		if ok, p := evalExpr(arg.Any(), pt, a); p != nil || !ok {
			rep.Violate("C18/any-rejects", fmt.Sprintf("Any()(%s) = %v (%v)", show(a), ok, p), c)
		}
		// evaluating again (after other evaluations) gives the same answer
		other := d.gen(rng)
		e1.Eval([]reflect.Value{typed(pt, other)}, false)
		again, err := e1.Eval([]reflect.Value{typed(pt, a)}, false)
		rep.Eval(1)
		if err != nil || again != got1 {
			rep.Violate("C18/evaluation-changes-answer", fmt.Sprintf("Equals(%s)(%s) first %v then %v", show(x), show(a), got1, again), c)
		}
		// the same argument storage holding other contents later on (a caller's reused variable, a pointer whose pointee
		// or a map whose entries changed between two calls): the answer follows the contents, not the storage
		if !excludedPair(x, other) {
			slot := reflect.New(pt).Elem()
			put := func(v interface{}) {
				if v == nil {
					slot.Set(reflect.Zero(pt))
				} else {
					slot.Set(reflect.ValueOf(v))
				}
			}
			put(a)
			r1, _ := e1.Eval([]reflect.Value{slot}, false)
			put(other)
			r2, _ := e1.Eval([]reflect.Value{slot}, false)
			rep.Eval(2)
			if w2 := oracle(d, x, other); r1 != got1 || r2 != w2 {
				rep.Violate("C18/evaluation-changes-answer", fmt.Sprintf("Equals(%s) asked about one variable holding %s and then %s: %v then %v, want %v then %v", show(x), show(a), show(other), r1, r2, got1, w2), c)
			}
			rep.Stat("reused_storage_queries", 1)
			av, ov := reflect.ValueOf(a), reflect.ValueOf(other)
			if av.IsValid() && ov.IsValid() && av.Type() == ov.Type() && ((av.Kind() == reflect.Ptr && !av.IsNil() && !ov.IsNil()) || (av.Kind() == reflect.Map && !av.IsNil() && !ov.IsNil())) {
				var cp reflect.Value
				if av.Kind() == reflect.Ptr {
					cp = reflect.New(av.Type().Elem())
					cp.Elem().Set(av.Elem())
				} else {
					cp = reflect.MakeMap(av.Type())
					for _, k := range av.MapKeys() {
						cp.SetMapIndex(k, av.MapIndex(k))
					}
				}
				slot.Set(cp)
				r1, _ := e1.Eval([]reflect.Value{slot}, false)
				if av.Kind() == reflect.Ptr {
					cp.Elem().Set(ov.Elem())
				} else {
					for _, k := range cp.MapKeys() {
						cp.SetMapIndex(k, reflect.Value{})
					}
					for _, k := range ov.MapKeys() {
						cp.SetMapIndex(k, ov.MapIndex(k))
					}
				}
				r2, _ := e1.Eval([]reflect.Value{slot}, false)
				rep.Eval(2)
				if w2 := oracle(d, x, other); r1 != got1 || r2 != w2 {
					rep.Violate("C18/evaluation-changes-answer", fmt.Sprintf("Equals(%s) asked about the same %s before and after its contents changed from %s to %s: %v then %v, want %v then %v", show(x), av.Kind(), show(a), show(other), r1, r2, got1, w2), c)
				}
				rep.Stat("mutated_pointee_queries", 1)
			}
		}
		cls := d.name
		if asIface {
			cls = "iface:" + d.name
		}
		rep.Class(fmt.Sprintf("%s/%v", cls, want))
		if i < 3 {
			rep.Sample(map[string]interface{}{"domain": d.name, "x": show(x), "a": show(a), "equals": got1})
		}
	}
}

// TestC18Nils: the nils of an interface-typed parameter. The nil interface and typed nils of different types are all
// different values (an interface holding (*S)(nil) is not nil); each equals only itself.
func TestC18Nils(t *testing.T) {
	rep := vmon.NewReport("C18")
	defer rep.Write()
	ifaceT := reflect.TypeOf((*interface{})(nil)).Elem()
	errT := reflect.TypeOf((*error)(nil)).Elem()
	type nv struct {
		name string
		v    interface{}
	}
	nils := []nv{{"nil", nil}, {"(*S)(nil)", (*S)(nil)}, {"(**S)(nil)", (**S)(nil)}, {"[]int(nil)", []int(nil)}, {"map[string]int(nil)", map[string]int(nil)},
		{"(*N)(nil)", (*N)(nil)}, {"[]string(nil)", []string(nil)}, {"(*nilErr)(nil)", (*nilErr)(nil)}, {"(*nilErr2)(nil)", (*nilErr2)(nil)}}
	for _, pt := range []reflect.Type{ifaceT, errT} {
		for i, x := range nils {
			for j, a := range nils {
				if pt == errT {
					// only values that implement error can be arguments or expectations of an error parameter
					okx := x.v == nil || reflect.TypeOf(x.v).Implements(errT)
					oka := a.v == nil || reflect.TypeOf(a.v).Implements(errT)
					if !okx || !oka {
						continue
					}
				}
				want := i == j
				got, perr := evalExpr(arg.Equals(x.v), pt, a.v)
				rep.Eval(1)
				c := map[string]interface{}{"parameter": pt.String(), "x": x.name, "a": a.name}
				if perr != nil {
					rep.Violate("C18/equals-panics", fmt.Sprintf("Equals(%s)(%s) on a %s parameter: %v", x.name, a.name, pt, perr), c)
				} else if got != want {
					rep.Violate("C18/equals-wrong", fmt.Sprintf("Equals(%s)(%s) on a %s parameter = %v, Go equality says %v", x.name, a.name, pt, got, want), c)
				}
				gotIn, perr := evalExpr(arg.In(x.v, 5), pt, a.v)
				if pt == errT {
					gotIn, perr = evalExpr(arg.In(x.v), pt, a.v)
				}
				rep.Eval(1)
				if perr != nil {
					rep.Violate("C18/in-panics", fmt.Sprintf("In(%s, ...)(%s) on a %s parameter: %v", x.name, a.name, pt, perr), c)
				} else if gotIn != want {
					rep.Violate("C18/in-not-union", fmt.Sprintf("In(%s, ...)(%s) on a %s parameter = %v, union of Equals says %v", x.name, a.name, pt, gotIn, want), c)
				}
			}
		}
		rep.Class("nils/" + pt.String())
	}
}

type nilErr struct{}

func (*nilErr) Error() string { return "nilErr" }

type nilErr2 struct{}

func (*nilErr2) Error() string { return "nilErr2" }

// ---- through real When stubs

//go:noinline
func TInt(a int) int { return -1 }

//go:noinline
func TStr(a string) int { return -1 }

//go:noinline
func TF64(a float64) int { return -1 }

//go:noinline
func TU8(a uint8) int { return -1 }

//go:noinline
func TStruct(a S) int { return -1 }

//go:noinline
func TPtr(a *S) int { return -1 }

//go:noinline
func TSlice(a []int) int { return -1 }

//go:noinline
func TMap(a map[string]int) int { return -1 }

//go:noinline
func TIface(a interface{}) int { return -1 }

//go:noinline
func TBool(a bool) int { return -1 }

func TestC18Stubs(t *testing.T) {
	rep := vmon.NewReport("C18")
	defer rep.Write()
	shard, _ := vmon.Shard()
	rng := vmon.NewRng(vmon.Seed(), uint64(1900+shard))
	n := vmon.EnvInt("VERIF_C18_STUBS", 300)
	byName := map[string]domain{}
	for _, d := range domains() {
		byName[d.name] = d
	}
	type tgt struct {
		dom  string
		fn   interface{}
		call func(a interface{}) int
	}
	tgts := []tgt{
		{"int", TInt, func(a interface{}) int { return TInt(a.(int)) }},
		{"string", TStr, func(a interface{}) int { return TStr(a.(string)) }},
		{"float64", TF64, func(a interface{}) int { return TF64(a.(float64)) }},
		{"uint8", TU8, func(a interface{}) int { return TU8(a.(uint8)) }},
		{"struct", TStruct, func(a interface{}) int { return TStruct(a.(S)) }},
		{"ptr", TPtr, func(a interface{}) int { return TPtr(a.(*S)) }},
		{"slice", TSlice, func(a interface{}) int { return TSlice(a.([]int)) }},
		{"map", TMap, func(a interface{}) int { return TMap(a.(map[string]int)) }},
		{"bool", TBool, func(a interface{}) int { return TBool(a.(bool)) }},
		{"iface", TIface, func(a interface{}) int { return TIface(a) }},
	}
	for i := 0; i < n; i++ {
		tg := tgts[i%len(tgts)]
		dn := tg.dom
		if dn == "iface" {
			dn = []string{"int", "string", "struct", "float64", "array"}[rng.Intn(5)]
		}
		d := byName[dn]
		x, y := d.gen(rng), d.gen(rng)
		if excludedPair(x, x) {
			continue
		}
		b := mocker.Create()
		var cerr interface{}
		func() {
			defer func() { cerr = recover() }()
			b.Func(tg.fn).Return(0).When(x).Return(1).When(arg.In(y, x)).Return(2)
		}()
		c := map[string]interface{}{"target": tg.dom, "domain": d.name, "x": show(x), "y": show(y)}
		if cerr != nil {
			rep.Violate("C18/stub-configuration-panics", fmt.Sprintf("When(%s) on %s target: %v", show(x), tg.dom, cerr), c)
			b.Reset()
			continue
		}
		for k := 0; k < 8; k++ {
			a := d.gen(rng)
			if k == 0 {
				a = x
			}
			if excludedPair(x, a) || excludedPair(y, a) {
				continue
			}
			want := 0
			if oracle(d, x, a) {
				want = 1
			} else if oracle(d, y, a) {
				want = 2
			}
			got, perr := 0, interface{}(nil)
			func() {
				defer func() { perr = recover() }()
				got = tg.call(a)
			}()
			rep.Eval(1)
			if perr != nil {
				rep.Violate("C18/stub-call-panics", fmt.Sprintf("%s target called with %s: %v", tg.dom, show(a), perr), c)
			} else if got != want {
				rep.Violate("C18/stub-disagrees-with-equality", fmt.Sprintf("%s target: When(%s)->1, When(In(%s,%s))->2, called with %s returned %d want %d", tg.dom, show(x), show(y), show(x), show(a), got, want), c)
			}
			rep.Class(fmt.Sprintf("stub/%s/%s/%d", tg.dom, d.name, want))
		}
		b.Reset()
	}
}

// neighbour returns a value adjacent to v (v+-1 for integers, the next representable float) or v itself for other kinds.
func neighbour(v interface{}, r *vmon.Rng) interface{} {
	d := int64(1)
	if r.Bool() {
		d = -1
	}
	switch t := v.(type) {
	case int:
		return t + int(d)
	case int8:
		return t + int8(d)
	case int16:
		return t + int16(d)
	case int32:
		return t + int32(d)
	case int64:
		return t + d
	case uint:
		return t + uint(d)
	case uint8:
		return t + uint8(d)
	case uint16:
		return t + uint16(d)
	case uint32:
		return t + uint32(d)
	case uint64:
		return t + uint64(d)
	case uintptr:
		return t + uintptr(d)
	case float64:
		if math.IsInf(t, 0) {
			return t
		}
		return math.Nextafter(t, t+float64(d)*math.Abs(t)+float64(d))
	case float32:
		if math.IsInf(float64(t), 0) {
			return t
		}
		return math.Nextafter32(t, t+float32(d)*float32(math.Abs(float64(t)))+float32(d))
	}
	return v
}
