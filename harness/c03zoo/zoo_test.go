//go:build go1.21

package c03zoo

import (
	"fmt"
	"sync/atomic"
	"testing"
	"unsafe"

	mocker "github.com/tencent/goom"
	"github.com/tencent/goom/zzverif/vmon"
)

func tr(x int) int { return x*3 + 1 }

// zooReentered recognises the open finding C03/reentry-after-stack-growth in one observation: the callback ran n times
// (2..6, one per stack growth at the placeholder's relocated stack check), the result is T^n(expected), and the same
// call made again - the stack has grown by now - runs the callback once and gives T(expected).
func zooReentered(expected, got int, n int64, again func() (int, int64)) bool {
	if n < 2 || n > 6 {
		return false
	}
	tn := expected
	for i := int64(0); i < n; i++ {
		tn = tr(tn)
	}
	if got != tn {
		return false
	}
	r, c := again()
	return r == tr(expected) && c == 1
}

//go:noinline
func descend(d int, f func()) int {
	var pad [40]byte
	pad[d%40] = byte(d)
	if d == 0 {
		f()
		return int(pad[0])
	}
	return descend(d-1, f) + int(pad[d%40])
}

func hasStackCheck(entry uintptr) bool {
	b := vmon.ReadMem(entry, 24)
	for i := 0; i+4 <= len(b); i++ {
		if (b[i] == 0x49 || b[i] == 0x4d) && b[i+1] == 0x3b && b[i+2] == 0x66 && b[i+3] == 0x10 {
			return true
		}
	}
	return false
}

type obs struct {
	r     int
	count int64
	moved bool
}

func TestC03Zoo(t *testing.T) {
	rep := vmon.NewReport("C03")
	defer rep.Write()
	img := vmon.SnapshotText()
	sweepMax := vmon.EnvInt("VERIF_C03_SWEEP", 160)
	var phRanges []vmon.Range
	reentries := int64(0)
	for ti := range ZooTargets {
		tg := &ZooTargets[ti]
		args := []int{1, 2, 5, 9}
		exp := map[int]int{}
		for _, a := range args {
			exp[a] = tg.Call(a)
		}
		entry, ph := tg.Entry(), tg.Ph()
		chk := hasStackCheck(entry)
		side := "ph-after-fn"
		if ph < entry {
			side = "ph-before-fn"
		}
		rep.Journal(map[string]interface{}{"part": "zoo", "target": tg.Name, "shape": tg.Shape, "crashkey": "C03/zoo-crash"})
		rep.JournalSync()
		var cnt int64
		b := mocker.Create()
		var ierr interface{}
		func() {
			defer func() { ierr = recover() }()
			tg.Install(b, &cnt)
		}()
		if ierr != nil {
			rep.Class("zoo-refused/" + tg.Shape)
			rep.Stat("zoo_refused", 1)
			if d := img.DiffOutside(phRanges); len(d) != 0 {
				rep.Violate("C03/refused-but-modified", fmt.Sprintf("%s (%s) refused (%v) but image differs at %v", tg.Name, tg.Shape, ierr, d), nil)
			}
			for _, a := range args {
				if got := tg.Call(a); got != exp[a] {
					rep.Violate("C03/refused-but-behaviour-changed", fmt.Sprintf("%s(%d) = %d want %d after refused apply", tg.Name, a, got, exp[a]), nil)
				}
			}
			b.Reset()
			continue
		}
		phRanges = append(phRanges, vmon.Range{Start: ph, End: ph + 512})
		want := func(a int) (int, int64) {
			if !tg.Recursive {
				return tr(exp[a]), 1
			}
			// recursion inside the original reaches the mock again
			v := tr(tg.K)
			for i := 1; i <= a; i++ {
				v = tr(v + 1)
			}
			return v, int64(a + 1)
		}
		call := func(a int) obs {
			var marker int
			p0 := uintptr(unsafe.Pointer(&marker))
			c0 := atomic.LoadInt64(&cnt)
			r := tg.Call(a)
			c1 := atomic.LoadInt64(&cnt)
			p1 := uintptr(unsafe.Pointer(&marker))
			return obs{r, c1 - c0, p0 != p1}
		}
		judge := func(regime string, a int, depth int, o, again obs) {
			rep.Eval(1)
			w, wc := want(a)
			if o.moved {
				rep.Stat("stack_moves_observed_during_call", 1)
			}
			if o.r == w && o.count == wc {
				return
			}
			c := map[string]interface{}{"target": tg.Name, "shape": tg.Shape, "regime": regime, "arg": a, "depth": depth, "got": o.r, "want": w, "callbacks": o.count, "placeholder": side}
			// one re-entry per stack growth that happens at the placeholder's relocated stack check: a large frame can
			// need more than one growth (each re-entered callback consumes stack again), so callbacks = n in 2..6
			// with result T^n(expected) is the same finding; anything else is not.
			tn := exp[a]
			for i := int64(0); i < o.count && i < 7; i++ {
				tn = tr(tn)
			}
			if !tg.Recursive && chk && o.count >= 2 && o.count <= 6 && o.r == tn && again.r == w && again.count == wc {
				atomic.AddInt64(&reentries, 1)
				rep.Violate("C03/reentry-after-stack-growth", fmt.Sprintf("%s (%s): calling the origin placeholder with little stack headroom re-entered the mock (callback ran %d times, result %d = T^%d(%d))", tg.Name, tg.Shape, o.count, o.r, o.count, exp[a]), c)
				return
			}
			rep.Violate("C03/origin-wrong-result", fmt.Sprintf("%s (%s) %s a=%d depth=%d: got %d (callbacks %d), want %d (callbacks %d)", tg.Name, tg.Shape, regime, a, depth, o.r, o.count, w, wc), c)
		}
		// regime 1: warm, ample stack
		vmon.GrowStack(300)
		for _, a := range args {
			o := call(a)
			judge("warm", a, 0, o, o)
		}
		if !tg.Recursive {
			// regime 2: fresh goroutines
			for i := 0; i < 6; i++ {
				a := args[i%len(args)]
				done := make(chan [2]obs)
				go func() { o := call(a); done <- [2]obs{o, call(a)} }()
				r := <-done
				judge("fresh-goroutine", a, 0, r[0], r[1])
				judge("fresh-goroutine-repeat", a, 0, r[1], r[1])
			}
			// regime 3: depth sweep on fresh goroutines, 64-byte-ish steps across growth boundaries
			for d := 0; d < sweepMax; d++ {
				a := args[d%len(args)]
				done := make(chan [2]obs)
				go func() {
					var r [2]obs
					descend(d, func() { r[0] = call(a); r[1] = call(a) })
					done <- r
				}()
				r := <-done
				judge("depth-sweep", a, d, r[0], r[1])
				judge("depth-sweep-repeat", a, d, r[1], r[1])
			}
		}
		b.Reset()
		c0 := atomic.LoadInt64(&cnt)
		for _, a := range args {
			rep.Eval(1)
			if got := tg.Call(a); got != exp[a] {
				rep.Violate("C03/not-original-after-reset", fmt.Sprintf("%s(%d) = %d want %d after Reset", tg.Name, a, got, exp[a]), nil)
			}
		}
		if atomic.LoadInt64(&cnt) != c0 {
			rep.Violate("C03/callback-after-reset", tg.Name, nil)
		}
		if d := img.DiffOutside(phRanges); len(d) != 0 {
			rep.Violate("C03/image-differs-after-reset", fmt.Sprintf("%s: %v", tg.Name, d), nil)
		}
		rep.Class(fmt.Sprintf("zoo/%s/%s/stackcheck=%v", tg.Shape, side, chk))
		rep.Stat("zoo_targets", 1)
		rep.Stat("zoo:"+side, 1)
		if ti < 2 {
			rep.Sample(map[string]interface{}{"target": tg.Name, "shape": tg.Shape, "prologue": fmt.Sprintf("% x", img.Pristine(entry, 24)), "placeholder": side,
				"expected": exp, "regimes": []string{"warm", "fresh-goroutine", fmt.Sprintf("depth-sweep 0..%d", sweepMax)}})
		}
	}
	rep.Stat("reentries_observed", reentries)
	// one placeholder variable serving one target after another: f, then g, then f again - each time the placeholder
	// must be the original of the function mocked now, not of an earlier one
	var sh []*ZooTarget
	for ti := range ZooTargets {
		if ZooTargets[ti].InstallShared != nil && !ZooTargets[ti].Recursive {
			sh = append(sh, &ZooTargets[ti])
		}
	}
	phRanges = append(phRanges, vmon.Range{Start: ZooSharedPh(), End: ZooSharedPh() + 512})
	vmon.GrowStack(300)
	for i := 0; i+1 < len(sh); i++ {
		for step, tg := range []*ZooTarget{sh[i], sh[i+1], sh[i]} {
			rep.Journal(map[string]interface{}{"part": "zoo-shared-placeholder", "target": tg.Name, "step": step, "crashkey": "C03/zoo-crash"})
			rep.JournalSync()
			exp := map[int]int{}
			for _, a := range []int{1, 2, 5, 9} {
				exp[a] = tg.Call(a)
			}
			var cnt int64
			b := mocker.Create()
			var ierr interface{}
			func() { defer func() { ierr = recover() }(); tg.InstallShared(b, &cnt) }()
			if ierr != nil {
				rep.Stat("zoo_shared_refused", 1)
				b.Reset()
				continue
			}
			for _, a := range []int{1, 2, 5, 9} {
				c0 := atomic.LoadInt64(&cnt)
				got := tg.Call(a)
				n := atomic.LoadInt64(&cnt) - c0
				rep.Eval(1)
				if got != tr(exp[a]) && zooReentered(exp[a], got, n, func() (int, int64) {
					c1 := atomic.LoadInt64(&cnt)
					r := tg.Call(a)
					return r, atomic.LoadInt64(&cnt) - c1
				}) {
					// a collection shrank the stack GrowStack had prepared: the known re-entry, met in this scenario
					atomic.AddInt64(&reentries, 1)
					rep.Violate("C03/reentry-after-stack-growth", fmt.Sprintf("%s (%s), shared placeholder: calling the origin placeholder with little stack headroom re-entered the mock (callback ran %d times, result %d = T^%d(%d))", tg.Name, tg.Shape, n, got, n, exp[a]),
						map[string]interface{}{"target": tg.Name, "shape": tg.Shape, "regime": "shared-placeholder", "step": step})
					continue
				}
				if got != tr(exp[a]) || n != 1 {
					rep.Violate("C03/origin-wrong-result", fmt.Sprintf("%s (%s) mocked with a placeholder that served %s before (step %d of f,g,f): %s(%d) = %d with %d callback run(s), want %d with 1",
						tg.Name, tg.Shape, sh[i+(1-step%2)].Name, step, tg.Name, a, got, n, tr(exp[a])), map[string]interface{}{"target": tg.Name, "shape": tg.Shape, "regime": "shared-placeholder", "step": step})
					break
				}
			}
			b.Reset()
			for _, a := range []int{1, 2, 5, 9} {
				if got := tg.Call(a); got != exp[a] {
					rep.Violate("C03/not-original-after-reset", fmt.Sprintf("%s(%d) = %d want %d after Reset (shared placeholder)", tg.Name, a, got, exp[a]), nil)
				}
			}
			rep.Stat("zoo_shared_placeholder_steps", 1)
		}
		if d := img.DiffOutside(phRanges); len(d) != 0 {
			rep.Violate("C03/image-differs-after-reset", fmt.Sprintf("shared placeholder, %s/%s: %v", sh[i].Name, sh[i+1].Name, d), nil)
		}
	}
	if len(sh) > 1 {
		rep.Class("zoo/shared-placeholder/f-g-f")
	}
	// two mocks alive at the same time, each with its own placeholder variable of the same function type: each
	// placeholder is the original of its own function
	for i := 0; i+1 < len(sh); i += 2 {
		f, g := sh[i], sh[i+1]
		rep.Journal(map[string]interface{}{"part": "zoo-two-live-origins", "f": f.Name, "g": g.Name, "crashkey": "C03/zoo-crash"})
		rep.JournalSync()
		ef, eg := map[int]int{}, map[int]int{}
		for _, a := range []int{1, 2, 5, 9} {
			ef[a], eg[a] = f.Call(a), g.Call(a)
		}
		var cf, cg int64
		bf, bg := mocker.Create(), mocker.Create()
		var ierr interface{}
		func() { defer func() { ierr = recover() }(); f.Install(bf, &cf); g.Install(bg, &cg) }()
		if ierr == nil {
			for _, a := range []int{1, 2, 5, 9} {
				cf0, cg0 := atomic.LoadInt64(&cf), atomic.LoadInt64(&cg)
				rf, rg := f.Call(a), g.Call(a)
				nf, ng := atomic.LoadInt64(&cf)-cf0, atomic.LoadInt64(&cg)-cg0
				rep.Eval(2)
				known := false
				for _, x := range []struct {
					t      *ZooTarget
					c      *int64
					e, got int
					n      int64
				}{{f, &cf, ef[a], rf, nf}, {g, &cg, eg[a], rg, ng}} {
					x := x
					if x.got != tr(x.e) && zooReentered(x.e, x.got, x.n, func() (int, int64) {
						c1 := atomic.LoadInt64(x.c)
						r := x.t.Call(a)
						return r, atomic.LoadInt64(x.c) - c1
					}) {
						atomic.AddInt64(&reentries, 1)
						known = true
						rep.Violate("C03/reentry-after-stack-growth", fmt.Sprintf("%s (%s), two live origins: calling the origin placeholder with little stack headroom re-entered the mock (callback ran %d times, result %d = T^%d(%d))", x.t.Name, x.t.Shape, x.n, x.got, x.n, x.e),
							map[string]interface{}{"target": x.t.Name, "shape": x.t.Shape, "regime": "two-live-origins"})
						if x.t == f {
							rf = tr(ef[a])
						} else {
							rg = tr(eg[a])
						}
					}
				}
				_ = known
				if rf != tr(ef[a]) || rg != tr(eg[a]) {
					rep.Violate("C03/origin-wrong-result", fmt.Sprintf("%s and %s mocked at the same time, each with its own placeholder: %s(%d) = %d want %d, %s(%d) = %d want %d", f.Name, g.Name, f.Name, a, rf, tr(ef[a]), g.Name, a, rg, tr(eg[a])),
						map[string]interface{}{"regime": "two-live-origins", "f": f.Name, "g": g.Name})
					break
				}
			}
			rep.Stat("zoo_two_live_origin_pairs", 1)
		}
		func() { defer func() { recover() }(); bg.Reset() }()
		func() { defer func() { recover() }(); bf.Reset() }()
		for _, a := range []int{1, 2} {
			if f.Call(a) != ef[a] || g.Call(a) != eg[a] {
				rep.Violate("C03/not-original-after-reset", fmt.Sprintf("%s / %s after Reset of two simultaneous mocks", f.Name, g.Name), nil)
			}
		}
	}
	if len(sh) > 1 {
		rep.Class("zoo/two-live-origins-of-one-type")
	}
}
