//go:build go1.21

package c19

import (
	"errors"
	"fmt"
	"os"
	"strings"
	"testing"

	mocker "github.com/tencent/goom"
	"github.com/tencent/goom/zzverif/vmon"
)

type lazyI interface{ Get(k string) int }

//go:noinline
func lazySecret(a int) int { return a + 1 }

//go:noinline
func lazyReadConfig() string {
	f, err := os.Open("/definitely/not/there")
	if err != nil {
		return "fallback: " + err.Error()
	}
	f.Close()
	return "read"
}

// TestC19LazyTable: a fresh process whose FIRST mock is an interface stub, then a test that makes os.Open fail, then a
// mock of an unexported function by name. What goom loads lazily on the way (the symbol table) it loads at the same
// moments whatever the logging mode - the three outcomes are written out and compared between modes by the driver.
func TestC19LazyTable(t *testing.T) {
	rep := vmon.NewReport("C19")
	defer rep.Write()
	mode := os.Getenv("VERIF_C19_LOG")
	switch mode {
	case "debug":
		mocker.OpenDebug()
	case "trace":
		mocker.OpenTrace()
	}
	var out []string
	step := func(name string, f func() string) {
		defer func() {
			if r := recover(); r != nil {
				s := fmt.Sprint(r)
				if i := strings.IndexByte(s, '\n'); i >= 0 {
					s = s[:i]
				}
				out = append(out, name+": PANIC "+s)
			}
		}()
		out = append(out, name+": "+f())
	}
	b := mocker.Create()
	var v lazyI
	step("interface stub", func() string {
		b.Interface(&v).Method("Get").As(func(ctx *mocker.IContext, k string) int { return 0 }).When("a").Return(1).When("b").Return(2)
		return fmt.Sprint(v.Get("a"), v.Get("b"))
	})
	step("os.Open made to fail", func() string {
		b.Func(os.Open).Return((*os.File)(nil), errors.New("denied"))
		return lazyReadConfig()
	})
	step("unexported function by name", func() string {
		b.ExportFunc("lazySecret").As(func(a int) int { return 0 }).Return(300)
		return fmt.Sprint(lazySecret(3))
	})
	func() { defer func() { recover() }(); b.Reset() }()
	step("after Reset", func() string { return fmt.Sprint(lazySecret(3), v == nil) })
	rep.Eval(int64(len(out)))
	rep.Class("lazy-table/" + mode)
	rep.Class("lazy-table/steps")
	if tp := os.Getenv("VERIF_C19_TRANSCRIPT"); tp != "" {
		os.WriteFile(tp, []byte(strings.Join(out, "\n")+"\n"), 0o644)
	}
}
