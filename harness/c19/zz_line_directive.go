//go:build go1.21

package c19

import mocker "github.com/tencent/goom"

// Code below carries a //line directive with a bare file name, as generated parsers (goyacc, ragel) do: the
// frames of these functions have no directory part.

//line rules.y:57
func callFromGenerated(a int) int { return F1(a) + 1 }

//line rules.y:80
func applyFromGenerated(b *mocker.Builder, k int) {
	b.Func(F1).Apply(func(a int) int { return a + k })
}

//line rules.y:90
func resetFromGenerated(b *mocker.Builder) { b.Reset() }
