//go:build go1.21

package c19

import (
	"bytes"
	"container/list"
	"errors"
	"fmt"
	"github.com/tencent/goom/erro"
	"io"
	"os"
	"path"
	"path/filepath"
	"runtime"
	"strconv"
	"strings"
	"sync"
	"sync/atomic"
	"syscall"
	"testing"
	"time"

	mocker "github.com/tencent/goom"
	"github.com/tencent/goom/arg"
	"github.com/tencent/goom/zzverif/vmon"
)

type Node struct {
	Name string
	Next *Node
	priv int
}
type hidden struct {
	a int
	b *hidden
	c interface{}
}
type BadStringer struct{ n int }

func (b BadStringer) String() string { panic("String() of BadStringer panics") }

type BadErr struct{ n int }

func (b *BadErr) Error() string { panic("Error() of BadErr panics") }

type NilRecv struct{ n int }

func (p *NilRecv) String() string { return fmt.Sprint(p.n) } // panics on a nil receiver

//go:noinline
func F1(a int) int { return -1 }

//go:noinline
func F2(a int, s string) (int, string) { return -2, "o" }

//go:noinline
func FV(s string, xs ...int) int { return -3 }

//go:noinline
func FVI(xs ...interface{}) string { return "orig" }

//go:noinline
func FMany(a, b, c, d, e, f, g, h, i, j, k int, s string, x float64) (int, float64) { return -4, -4 }

//go:noinline
func FPtr(p *Node, q *int, e error, i interface{}) (*Node, error, interface{}) {
	return nil, errors.New("o"), 0
}

//go:noinline
func FHid(h hidden, hp *hidden) hidden { return hidden{} }

type Ring struct {
	Next, Prev *Ring
	V          int
}

var ring2 = func() *Ring { a, b := &Ring{}, &Ring{}; a.Next, a.Prev, b.Next, b.Prev = b, b, a, a; return a }()
var lst = func() *list.List { l := list.New(); l.PushBack(nil); l.PushBack(nil); return l }()

//go:noinline
func FRing(r *Ring, l *list.List, e *list.Element) (*Ring, *list.List) { return nil, nil }

//go:noinline
func FRing2() (*Ring, *list.List) { return nil, nil }

//go:noinline
func FBad(b BadStringer, e error, n *NilRecv) (BadStringer, error, *NilRecv) {
	return BadStringer{}, nil, nil
}

type T struct{ v int }

//go:noinline
func (t *T) M(a int, s string) int { return -5 }

//go:noinline
func (t T) V(a int) int { return -6 }

//go:noinline
func (t *T) MV(xs ...string) int { return -7 }

type I interface {
	Get(a int, s string) int
	Put(n *Node, xs ...string) error
}

var iv I

var lines []string

func rec(format string, a ...interface{}) { lines = append(lines, fmt.Sprintf(format, a...)) }

func try(name string, f func()) {
	defer func() {
		if r := recover(); r != nil {
			s := fmt.Sprint(r)
			if i := strings.IndexByte(s, '\n'); i >= 0 {
				s = s[:i]
			}
			rec("%s: PANIC %s", name, s)
		}
	}()
	f()
}

func TestC19(t *testing.T) {
	rep := vmon.NewReport("C19")
	defer rep.Write()
	mode := os.Getenv("VERIF_C19_LOG")
	switch mode {
	case "debug":
		mocker.OpenDebug()
	case "trace":
		mocker.OpenTrace()
	case "debug+trace":
		mocker.OpenDebug()
		mocker.OpenTrace()
	case "close-first":
		// a teardown that normalises to "off" without anything having been opened: still off
		mocker.CloseDebug()
		mocker.CloseTrace()
	case "toggled-off":
		mocker.OpenTrace()
		mocker.CloseTrace()
		mocker.OpenDebug()
		mocker.CloseDebug()
		mocker.CloseTrace()
	case "reopened":
		mocker.OpenDebug()
		mocker.CloseDebug()
		mocker.CloseTrace()
		mocker.OpenTrace()
	}
	rng := vmon.NewRng(vmon.Seed(), 19)
	n := vmon.EnvInt("VERIF_C19_SCEN", 40)
	cyc := &Node{Name: "a"}
	cyc.Next = &Node{Name: "b", Next: cyc}
	hcyc := &hidden{a: 1}
	hcyc.b = hcyc
	hcyc.c = hcyc
	x := 5
	for s := 0; s < n; s++ {
		b := mocker.Create()
		k := rng.Intn(1000)
		// callbacks
		try("apply F1", func() {
			b.Func(F1).Apply(func(a int) int { rec("cb F1 a=%d", a); return a + k })
			rec("F1 -> %d", F1(k))
		})
		try("apply F2", func() {
			b.Func(F2).Apply(func(a int, s string) (int, string) { rec("cb F2 %d %q", a, s); return a * 2, s + "!" })
			r, t := F2(k, "s")
			rec("F2 -> %d %q", r, t)
		})
		try("apply FV", func() {
			b.Func(FV).Apply(func(s string, xs ...int) int {
				rec("cb FV %q %v nil=%v", s, xs, xs == nil)
				if len(xs) > 0 {
					xs[0] += 1000 // the callee shares the caller's slice when called with s...
				}
				return len(xs) + k
			})
			rec("FV -> %d %d %d", FV("a"), FV("b", 1), FV("c", 1, 2, k))
			shared := []int{1, 2, 3}
			var none []int
			rec("FV slice forms -> %d %d shared[0]=%d", FV("d", shared...), FV("e", none...), shared[0])
		})
		try("apply FVI", func() {
			b.Func(FVI).Apply(func(xs ...interface{}) string {
				rec("cb FVI %d nil=%v", len(xs), xs == nil)
				return fmt.Sprint(len(xs))
			})
			rec("FVI -> %s %s", FVI(), FVI(nil, 1, "x", (*Node)(nil), cyc == nil))
		})
		try("apply FMany", func() {
			b.Func(FMany).Apply(func(a, b, c, d, e, f, g, h, i, j, k2 int, s string, x float64) (int, float64) {
				rec("cb FMany %d %d %d %d %d %d %d %d %d %d %d %q %v", a, b, c, d, e, f, g, h, i, j, k2, s, x)
				return a + k2, x * 2
			})
			r, f := FMany(1, 2, 3, 4, 5, 6, 7, 8, 9, 10, k, "many", 1.5)
			rec("FMany -> %d %v", r, f)
		})
		// nasty values through callbacks (the debug wrapper renders arguments and results)
		try("apply FPtr", func() {
			b.Func(FPtr).Apply(func(p *Node, q *int, e error, i interface{}) (*Node, error, interface{}) {
				rec("cb FPtr p==nil:%v q==nil:%v e==nil:%v i==nil:%v", p == nil, q == nil, e == nil, i == nil)
				return p, e, i
			})
			p, e, i := FPtr(nil, nil, nil, nil)
			rec("FPtr(nil...) -> %v %v %v", p == nil, e == nil, i == nil)
			p, e, i = FPtr(cyc, &x, (*BadErr)(nil), (*Node)(nil))
			rec("FPtr(cyc...) -> %v %v %v", p == cyc, e != nil, i != nil)
			p, e, i = FPtr(cyc, &x, &BadErr{1}, BadStringer{2})
			rec("FPtr(bad...) -> %v %v %v", p == cyc, e != nil, i != nil)
		})
		try("apply FHid", func() {
			b.Func(FHid).Apply(func(h hidden, hp *hidden) hidden { rec("cb FHid %d %v", h.a, hp == hcyc); return h })
			r := FHid(*hcyc, hcyc)
			rec("FHid -> %d %v", r.a, r.b == hcyc)
		})
		try("apply FBad", func() {
			b.Func(FBad).Apply(func(b BadStringer, e error, n *NilRecv) (BadStringer, error, *NilRecv) {
				rec("cb FBad %d", b.n)
				return b, e, n
			})
			r, e, n := FBad(BadStringer{k}, &BadErr{k}, nil)
			rec("FBad -> %d %v %v", r.n, e != nil, n == nil)
		})
		try("return FBad", func() {
			b2 := mocker.Create()
			defer b2.Reset()
			b2.Func(FPtr).Return((*Node)(nil), &BadErr{3}, BadStringer{4})
			p, e, i := FPtr(cyc, nil, nil, hcyc)
			rec("FPtr stubbed -> %v %v %v", p == nil, e != nil, i != nil)
		})
		b.Reset()
		// mocks of library functions a logger is likely to use itself: the caller-visible results are the same and the
		// process survives (the callbacks are not recorded: the logger may call them as any other caller would)
		rep.Journal(map[string]interface{}{"scenario": s, "part": "library functions the log path may use", "crashkey": "C19/mocked-log-path-function-recurses"})
		rep.JournalSync()
		try("library functions the log path may use", func() {
			bl := mocker.Create()
			defer bl.Reset()
			var n int64
			cnt := func(name string) { atomic.AddInt64(&n, 1); rep.Stat("library_callback_runs:"+name+":"+mode, 1) }
			bl.Func(os.Getenv).Apply(func(k string) string { cnt("os.Getenv"); return "mocked-" + k })
			bl.Func(os.Getpid).Apply(func() int { cnt("os.Getpid"); return 4242 })
			// results depend on the argument: a call must get ITS result, not that of a call the logger made meanwhile
			bl.Func(strconv.Itoa).Apply(func(i int) string { cnt("strconv.Itoa"); return "itoa" + string(rune('a'+i%26)) })
			bl.Func(filepath.Base).Apply(func(p string) string { cnt("filepath.Base"); return "base" })
			bl.Func(path.Base).Apply(func(p string) string { cnt("path.Base"); return "pbase:" + p })
			bl.Func(strings.ToUpper).Apply(func(p string) string { cnt("strings.ToUpper"); return "UP" })
			rec("library mocks -> %s %d %s %s %s %s", os.Getenv("VERIF_C19_KEY"), os.Getpid(), strconv.Itoa(7), filepath.Base("/a/b"), path.Base("/c/d"), strings.ToUpper("x"))
			bl.Func(F1).Apply(func(a int) int { return a + 1 })
			rec("F1 while library functions are mocked -> %d", F1(k))
			// conditional stubs on the same functions
			bl2 := mocker.Create()
			defer bl2.Reset()
			bl.Reset()
			bl2.Func(strconv.Itoa).Return("many").When(1).Return("one").When(2).Return("two")
			bl2.Func(path.Base).Return("DEFAULT").When("alpha/beta").Return("FIRST")
			rec("library stubs -> %s %s %s %s %s", strconv.Itoa(1), strconv.Itoa(2), strconv.Itoa(77), path.Base("alpha/beta"), path.Base("x/y"))
			if atomic.LoadInt64(&n) > 10000 {
				rec("library mocks: runaway, %d callback runs", n)
			}
		})
		rep.Journal(map[string]interface{}{"scenario": s, "part": "after the library-function mocks"})
		// large by-value arrays, long slices, long strings as arguments and results
		try("long values", func() {
			ba := mocker.Create()
			defer ba.Reset()
			var d [32]byte
			for i := range d {
				d[i] = byte(i + k)
			}
			ba.Func(FArr).Apply(func(x [32]byte, y [20]int, zs []int64, s string) ([32]byte, [17]string) {
				rec("cb FArr %d %d %d %d", x[31], y[19], len(zs), len(s))
				x[0]++
				return x, [17]string{16: "last"}
			})
			r, ss := FArr(d, [20]int{19: k}, make([]int64, 300), strings.Repeat("x", 5000))
			rec("FArr -> %d %d %s", r[0], r[31], ss[16])
			ba.Func(FArr2).Return(d, [64]int{63: 7})
			r2, r3 := FArr2()
			rec("FArr2 stubbed -> %d %d", r2[31], r3[63])
		})
		// configuration and calls issued from frames whose file name has no directory (//line directives)
		try("generated-code frames", func() {
			bg := mocker.Create()
			applyFromGenerated(bg, k)
			rec("generated frame -> %d", callFromGenerated(k))
			resetFromGenerated(bg)
			rec("generated frame after reset -> %d", callFromGenerated(1))
		})
		// cyclic structures whose emptiness can only be decided by walking pointers (rings, intrusive lists)
		try("cyclic all-pointer structures", func() {
			bc := mocker.Create()
			defer bc.Reset()
			bc.Func(FRing).Apply(func(r *Ring, l *list.List, e *list.Element) (*Ring, *list.List) {
				rec("cb FRing %v %d", r != nil, l.Len())
				return r, l
			})
			r1, l1 := FRing(ring2, lst, lst.Front())
			rec("FRing -> %v %v", r1 == ring2, l1 == lst)
			bc.Func(FRing2).Return(ring2, lst)
			r2, l2 := FRing2()
			rec("FRing2 stubbed -> %v %v", r2 == ring2, l2 == lst)
		})
		// conditional + sequenced stubs
		b = mocker.Create()
		try("stubs F1", func() {
			b.Func(F1).Returns(k, k+1, k+2).When(7).Return(700).When(arg.In(8, 9)).Returns(800, 900)
			rec("F1 stubs -> %d %d %d %d %d %d %d %d", F1(1), F1(7), F1(8), F1(2), F1(9), F1(8), F1(3), F1(4))
		})
		try("stubs F2 no default", func() {
			b.Func(F2).When(1, "a").Return(11, "aa").When(arg.Any(), "b").Return(22, "bb")
			r, s := F2(1, "a")
			r2, s2 := F2(k, "b")
			rec("F2 stubs -> %d %q %d %q", r, s, r2, s2)
			F2(k, "zz") // no suitable condition
		})
		try("stubs FV", func() {
			b.Func(FV).Return(-9).When("a", 1, 2).Return(12).When("a").Return(10)
			rec("FV stubs -> %d %d %d", FV("a", 1, 2), FV("a"), FV("q", 1))
		})
		// methods
		try("methods", func() {
			b.Struct(&T{}).Method("M").Apply(func(t *T, a int, s string) int { rec("cb T.M %d %d %q", t.v, a, s); return t.v + a })
			b.Struct(&T{}).Method("MV").Apply(func(t *T, xs ...string) int {
				rec("cb T.MV %d nil=%v", len(xs), xs == nil)
				if len(xs) > 0 {
					xs[0] = "written"
				}
				return len(xs)
			})
			ss := []string{"p", "q"}
			heapKeep19 = ss // the elements live on the heap; slices kept in the caller's frame are the out-parameter sweep's business
			rec("T.MV -> %d %d %d ss[0]=%s", (&T{}).MV(), (&T{}).MV("x"), (&T{}).MV(ss...), ss[0])
			b.Struct(T{}).Method("V").Return(k)
			rec("methods -> %d %d", (&T{v: 3}).M(k, "m"), T{v: 4}.V(1))
		})
		// interface
		try("iface", func() {
			iv = nil
			b.Interface(&iv).Method("Get").Apply(func(ctx *mocker.IContext, a int, s string) int { rec("cb I.Get %d %q", a, s); return a + 1 })
			b.Interface(&iv).Method("Put").As(func(ctx *mocker.IContext, n *Node, xs ...string) error { return nil }).Return(&BadErr{5})
			rec("iface -> %d %v", iv.Get(k, "g"), iv.Put(cyc, "x", "y") != nil)
		})
		// refused configurations: the panic a caller sees (whole text, every line, and the texts along its cause chain)
		for _, rc := range []struct {
			name string
			do   func()
		}{
			{"iface Apply, callback lacks a parameter", func() {
				var j I
				b.Interface(&j).Method("Get").Apply(func(ctx *mocker.IContext, a int) int { return 0 })
			}},
			{"iface Apply, callback has the context only", func() {
				var j I
				b.Interface(&j).Method("Get").Apply(func(ctx *mocker.IContext) int { return 0 })
			}},
			{"iface Apply, no context parameter", func() {
				var j I
				b.Interface(&j).Method("Get").Apply(func(a int, s string) int { return 0 })
			}},
			{"iface As, template lacks a parameter", func() {
				var j I
				b.Interface(&j).Method("Get").As(func(ctx *mocker.IContext, a int) int { return 0 }).Return(1)
			}},
			{"iface unknown method", func() { var j I; b.Interface(&j).Method("Nope") }},
			{"func Apply, parameter missing", func() { b.Func(F2).Apply(func(a int) (int, string) { return 0, "" }) }},
			{"func Apply, result missing", func() { b.Func(F2).Apply(func(a int, s string) int { return 0 }) }},
			{"func Apply, parameter size", func() { b.Func(F1).Apply(func(a int8) int { return 0 }) }},
			{"func Apply, not a function", func() { b.Func(F1).Apply(5) }},
			{"func When, too few arguments", func() { b.Func(F2).When(1) }},
			{"func Return, too few values", func() { b.Func(F2).Return(1) }},
			{"func Return, no value", func() { b.Func(F2).Return() }},
			{"func Return, value size", func() { b.Func(F1).Return(int8(1)) }},
			{"method Apply, receiver missing", func() { b.Struct(&T{}).Method("M").Apply(func(a int, s string) int { return 0 }) }},
			{"method unknown", func() { b.Struct(&T{}).Method("Nope").Return(1) }},
			{"not a function", func() { b.Func(5).Return(1) }},
		} {
			func() {
				defer func() {
					r := recover()
					if r == nil {
						rec("refused %s: accepted", rc.name)
						return
					}
					txt := strings.ReplaceAll(fmt.Sprint(r), "\n", " | ")
					if i := strings.Index(txt, "goroutine "); i > 0 {
						txt = txt[:i] // a stack dump names frames of the logging wrapper; the message in front of it counts
					}
					rec("refused %s: PANIC %T %s", rc.name, r, txt)
					if err, ok := r.(error); ok {
						for c, n := erro.Cause(err), 0; c != nil && n < 6; c, n = erro.Cause(c), n+1 {
							ct := strings.ReplaceAll(c.Error(), "\n", " | ")
							if i := strings.Index(ct, "goroutine "); i > 0 {
								ct = ct[:i]
							}
							rec("refused %s: cause %d %T %s", rc.name, n, c, ct)
						}
					}
				}()
				rc.do()
			}()
			b.Reset()
		}
		// mocks with an origin placeholder: building the trampoline reads, copies and (under trace) dumps the head of the
		// original; targets whose instruction stream differs around the end of the dumped window
		for oi, tf := range originTargets {
			oi, tf := oi, tf
			try(fmt.Sprintf("origin target %d", oi), func() {
				ob := mocker.Create()
				defer ob.Reset()
				var origin = func(i int) int {
					fmt.Fprintln(io.Discard, "only for placeholder, will not call")
					fmt.Fprintln(io.Discard, "only for placeholder, will not call")
					fmt.Fprintln(io.Discard, "only for placeholder, will not call")
					return 0
				}
				ob.Func(tf).Origin(&origin).Apply(func(i int) int { return origin(i) + 100 })
				rec("origin target %d -> mocked %d origin %d", oi, tf(k), origin(5))
			})
		}
		// origins that are leaves of a few instructions with a pc-relative operand in the relocated head
		try("origin of a short leaf returning a string constant", func() {
			ob := mocker.Create()
			defer ob.Reset()
			var origin = func() (string, int) {
				fmt.Fprintln(io.Discard, "only for placeholder, will not call")
				fmt.Fprintln(io.Discard, "only for placeholder, will not call")
				fmt.Fprintln(io.Discard, "only for placeholder, will not call")
				return "", 0
			}
			ob.Func(label19).Origin(&origin).Apply(func() (string, int) { s, n := origin(); return s + "!", n + 1 })
			s1, n1 := label19()
			s2, n2 := origin()
			rec("origin of short leaf (string constant) -> mocked %q %d origin %q %d", s1, n1, s2, n2)
		})
		try("origin of a short leaf reading a global", func() {
			ob := mocker.Create()
			defer ob.Reset()
			var origin = func() int {
				fmt.Fprintln(io.Discard, "only for placeholder, will not call")
				fmt.Fprintln(io.Discard, "only for placeholder, will not call")
				fmt.Fprintln(io.Discard, "only for placeholder, will not call")
				return 0
			}
			leafGlobal19 = 41
			ob.Func(leafG19).Origin(&origin).Apply(func() int { return origin() + 1000 })
			rec("origin of short leaf (global) -> mocked %d origin %d", leafG19(), origin())
		})
		// origin placeholders so small that the relocated head only fits because the padding behind them counts
		for oi, tf := range originTargets {
			oi, tf := oi, tf
			try(fmt.Sprintf("origin target %d, tiny placeholder", oi), func() {
				ob := mocker.Create()
				defer ob.Reset()
				ph := tinyPlaceholders[oi]
				ob.Func(tf).Origin(ph).Apply(func(i int) int { return (*ph)(i) + 200 })
				rec("origin target %d, tiny placeholder -> mocked %d origin %d", oi, tf(k), (*ph)(5))
			})
		}
		// functions so small that the next one starts 32 bytes further, mocked and cancelled in turn: what a cancel writes
		// back is the same bytes whatever is logged
		for vi, variant := range []string{"later neighbour mocked first, cancelled first", "earlier neighbour mocked first, cancelled alone"} {
			fa, fb := tinyNeighbours[2*vi], tinyNeighbours[2*vi+1]
			pa, pb := vmon.FuncCodePtr(fa), vmon.FuncCodePtr(fb)
			snapA, snapB := vmon.ReadMem(pa, 32), vmon.ReadMem(pb, 32)
			try("tiny neighbours: "+variant, func() {
				ba, bb := mocker.Create(), mocker.Create()
				if vi == 0 {
					bb.Func(fb).Apply(func(i int) int { return i + 7000 })
					ba.Func(fa).Apply(func(i int) int { return i + 6000 })
					rec("tiny neighbours (%s): mocked %d %d", variant, fa(k), fb(k))
					bb.Reset()
					ba.Reset()
				} else {
					ba.Func(fa).Apply(func(i int) int { return i + 6000 })
					bb.Func(fb).Apply(func(i int) int { return i + 7000 })
					liveB := vmon.ReadMem(pb, 32)
					ba.Reset()
					if nowB := vmon.ReadMem(pb, 32); !bytes.Equal(nowB, liveB) {
						rec("tiny neighbours (%s): cancelling the earlier one changed the entry of the still mocked later one: % x -> % x", variant, liveB[:16], nowB[:16])
					} else {
						rec("tiny neighbours (%s): earlier cancelled, calls %d %d", variant, fa(k), fb(k))
					}
					bb.Reset()
				}
				if nowA, nowB := vmon.ReadMem(pa, 32), vmon.ReadMem(pb, 32); !bytes.Equal(nowA, snapA) || !bytes.Equal(nowB, snapB) {
					rec("tiny neighbours (%s): after both were cancelled the code differs from before: first % x -> % x, second % x -> % x", variant, snapA[:16], nowA[:16], snapB[:16], nowB[:16])
				} else {
					rec("tiny neighbours (%s): restored, calls %d %d (distance %d)", variant, fa(k), fb(k), int64(pb)-int64(pa))
				}
			})
		}
		// a mocked call is over when it returns: nothing of the library is still running (and reading what the arguments
		// point to) while the caller goes on. Counted right after calls whose arguments take long to render
		try("goroutines left behind by mocked calls", func() {
			big := make(map[int]string, 1500)
			for i := 0; i < 1500; i++ {
				big[i] = fmt.Sprint("v", i)
			}
			gb := mocker.Create()
			defer gb.Reset()
			var j I
			gb.Func(FMapArg).Apply(func(m map[int]string, n *Node) int { return len(m) })
			gb.Func(FMapArg2).Return(5).When(big, arg.Any()).Return(7)
			gb.Interface(&j).Method("Put").Apply(func(ctx *mocker.IContext, n *Node, xs ...string) error { return nil })
			many := make([]string, 4000)
			extra, sum := 0, 0
			for r := 0; r < 8; r++ {
				g0 := runtime.NumGoroutine()
				sum += FMapArg(big, &Node{Name: "n"})
				g1 := runtime.NumGoroutine()
				sum += FMapArg2(big, nil)
				g2 := runtime.NumGoroutine()
				_ = j.Put(&Node{Name: "p"}, many...)
				g3 := runtime.NumGoroutine()
				for _, d := range []int{g1 - g0, g2 - g1, g3 - g2} {
					if d > 0 {
						extra += d
					}
				}
			}
			rec("goroutines still running right after 24 mocked calls with large arguments: %d (results %d)", extra, sum)
		})
		// callbacks that panic with nil (in a module below go 1.21 recover() then yields nil): the call is still unwound
		for _, pn := range []struct {
			name string
			set  func(pb *mocker.Builder)
			call func() string
		}{
			{"function with a result", func(pb *mocker.Builder) { pb.Func(F1).Apply(func(a int) int { panic(nil) }) }, func() string { return fmt.Sprint(F1(k)) }},
			{"function without results", func(pb *mocker.Builder) { pb.Func(FNone).Apply(func(a int) { panic(nil) }) }, func() string { FNone(k); return "returned" }},
			{"method", func(pb *mocker.Builder) {
				pb.Struct(&T{}).Method("M").Apply(func(t *T, a int, s string) int { panic(nil) })
			}, func() string { return fmt.Sprint((&T{v: 1}).M(k, "m")) }},
			{"function with a result, real panic value", func(pb *mocker.Builder) { pb.Func(F1).Apply(func(a int) int { panic("boom") }) }, func() string { return fmt.Sprint(F1(k)) }},
		} {
			pb := mocker.Create()
			pn.set(pb)
			func() {
				normal, out := false, ""
				defer func() {
					r := recover()
					rec("callback panics (%s): returned normally=%v result=%q recovered=%v", pn.name, normal, out, r)
				}()
				out = pn.call()
				normal = true
			}()
			pb.Reset()
		}
		// the context object handed to interface callbacks is rendered for the log like any argument; its Data field is the
		// user's and may lead back to the context
		try("iface context whose Data refers back to it", func() {
			var j I
			cb := mocker.Create()
			defer cb.Reset()
			type state struct {
				Ctx   *mocker.IContext
				Calls int
			}
			cb.Interface(&j).Method("Get").Apply(func(ctx *mocker.IContext, a int, s string) int {
				if ctx.Data == nil {
					ctx.Data = &state{Ctx: ctx}
				}
				st := ctx.Data.(*state)
				st.Calls++
				return a + st.Calls
			})
			r1, r2 := j.Get(k, "x"), j.Get(k, "y")
			var j2 I
			cb.Interface(&j2).Method("Get").Apply(func(ctx *mocker.IContext, a int, s string) int {
				ctx.Data = ctx
				return a - 1
			})
			rec("iface self-referential context -> %d %d %d %d", r1, r2, j2.Get(k, "x"), j2.Get(k, "y"))
		})
		// mocker objects kept across the builder's Reset and applied through again, then Reset once more
		try("kept objects across Reset", func() {
			kb := mocker.Create()
			fm := kb.Func(F1)
			mm := kb.Struct(&T{}).Method("M")
			vm := kb.Var(&keptVar19)
			keptVar19 = "origin"
			for round := 1; round <= 3; round++ {
				fm.Apply(func(a int) int { return 100*round + a })
				mm.Apply(func(t *T, a int, s string) int { return 200*round + a })
				vm.Set(fmt.Sprint("round", round))
				rec("kept objects round %d: mocked -> %d %d %s", round, F1(k), (&T{v: 1}).M(k, "m"), keptVar19)
				kb.Reset()
				rec("kept objects round %d: after Reset -> %d %d %s", round, F1(k), (&T{v: 1}).M(k, "m"), keptVar19)
			}
		})
		// the console cannot be written to (a closed capture file in os.Stdout): whatever logging does about that, the
		// mocked call comes back with the callback's result
		try("console unwritable", func() {
			cb := mocker.Create()
			defer cb.Reset()
			saved := os.Stdout
			f, err := os.CreateTemp("", "c19-closed")
			if err != nil {
				rec("console unwritable: no temp file")
				return
			}
			os.Remove(f.Name())
			f.Close()
			done := make(chan string, 1)
			os.Stdout = f
			go func() {
				defer func() {
					if r := recover(); r != nil {
						done <- fmt.Sprintf("panic %v", r)
					}
				}()
				cb.Func(F1).Apply(func(a int) int { return a + 9000 })
				r := F1(k)
				cb.Reset()
				done <- fmt.Sprintf("%d then %d", r, F1(k))
			}()
			var out string
			select {
			case out = <-done:
			case <-time.After(time.Duration(vmon.EnvInt("VERIF_C19_CONSOLE_WAIT_S", 20)) * time.Second):
				out = "no answer (the call never came back)"
			}
			os.Stdout = saved
			rec("console unwritable -> %s", out)
			if strings.HasPrefix(out, "no answer") {
				// a goroutine is stuck inside the log path for good; nothing that follows (a collection, for one) can
				// be trusted to finish: hand in what was observed and end the process here
				if tp := os.Getenv("VERIF_C19_TRANSCRIPT"); tp != "" {
					os.WriteFile(tp, []byte(strings.Join(lines, "\n")+"\n"), 0o644)
				}
				rep.Eval(1)
				rep.Class("mode/" + mode)
				rep.Class("console-unwritable/hung")
				rep.Write()
				os.Exit(0)
			}
		})
		// results of error types that cannot be nil (a uintptr errno, a struct with a value-receiver Error method)
		try("non-nillable error results", func() {
			eb := mocker.Create()
			defer eb.Reset()
			eb.Func(FErrno).Apply(func(a int) (int, syscall.Errno) { return -a, syscall.EBADF })
			n, e := FErrno(k)
			eb.Func(FStructErr).Return(7, codeErr{Code: 42})
			m, se := FStructErr(k)
			eb.Func(FErrno).Return(3, syscall.Errno(0))
			n2, e2 := FErrno(k)
			rec("non-nillable error results -> %d %d | %d %v | %d %d", n, e, m, se, n2, e2)
		})
		try("iface unmocked method", func() {
			var j I
			b2 := mocker.Create()
			defer b2.Reset()
			b2.Interface(&j).Method("Get").As(func(ctx *mocker.IContext, a int, s string) int { return 0 }).When(1, "x").Return(5)
			rec("iface2 -> %d", j.Get(1, "x"))
			j.Put(nil)
		})
		b.Reset()
		rec("after reset -> %d %d %v", F1(1), FV("a"), iv == nil)
		rep.Eval(1)
	}
	// concurrent callers of one mock: with logging on every call passes through the logging interceptor
	{
		b := mocker.Create()
		b.Func(F1).Apply(func(a int) int { return a*2 + 1 })
		b.Func(F2).When(arg.Any(), "k").Return(5, "five")
		var wg sync.WaitGroup
		var wrong int64
		bar := vmon.NewSpinBarrier(8)
		for g := 0; g < 8; g++ {
			wg.Add(1)
			go func(g int) {
				defer wg.Done()
				bar.Wait()
				for i := 0; i < 300; i++ {
					a := g*100000 + i
					if F1(a) != a*2+1 {
						atomic.AddInt64(&wrong, 1)
					}
					if r, s := F2(a, "k"); r != 5 || s != "five" {
						atomic.AddInt64(&wrong, 1)
					}
				}
			}(g)
		}
		wg.Wait()
		b.Reset()
		rec("concurrent callers: calls that received another call's result = %d", atomic.LoadInt64(&wrong))
		rep.Eval(4800)
	}
	// out-parameters living in the caller's frame, called at every stack depth of fresh goroutines (so that the stack
	// is moved at different points of the call): the callback's writes must arrive in the caller's variables
	{
		b := mocker.Create()
		b.Func(FOut).Apply(func(p *int, q *[4]int64, a int, xs ...int16) int {
			burn(20) // the callback itself needs stack
			*p = a + 1
			q[3] = int64(a + 2)
			xs[1] = int16(a + 4)
			return a + 3
		})
		sweep := vmon.EnvInt("VERIF_C19_SWEEP", 260)
		lostOnGrowth, otherWrong := 0, 0
		var lostAt []int
		for d := 0; d < sweep; d++ {
			done := make(chan [2][4]int)
			go func() {
				var out [2][4]int
				descend19(d, func() { out[0] = callFOut(d); out[1] = callFOut(d) })
				done <- out
			}()
			o := <-done
			want := [4]int{d + 1, d + 2, d + 3, d + 4}
			switch {
			case o[0] == want && o[1] == want:
			case o[0] == [4]int{0, 0, d + 3, 0} && o[1] == want:
				// the callback ran with the right scalar argument and returned, but both writes through the pointers
				// went elsewhere; the same call repeated on the (now grown) stack is right
				lostOnGrowth++
				if len(lostAt) < 12 {
					lostAt = append(lostAt, d)
				}
			default:
				otherWrong++
				rec("FOut at depth %d -> %v then %v, want %v", d, o[0], o[1], want)
			}
		}
		b.Reset()
		rec("out-parameters in the caller's frame: %d depths", sweep)
		rep.Eval(int64(sweep))
		rep.Stat("outparam_depths:"+mode, int64(sweep))
		rep.Stat("outparam_writes_lost_on_stack_growth:"+mode, int64(lostOnGrowth))
		rep.Note("outparam_lost_at:"+mode, fmt.Sprint(lostAt))
	}
	rep.Class("mode/" + mode)
	rep.Stat("transcript_lines:"+mode, int64(len(lines)))
	out := os.Getenv("VERIF_C19_TRANSCRIPT")
	if out != "" {
		os.WriteFile(out, []byte(strings.Join(lines, "\n")+"\n"), 0o644)
	}
	if len(lines) > 3 {
		rep.Sample(map[string]interface{}{"mode": mode, "first_lines": lines[:3]})
	}
}

// FOut lets neither pointer escape: callers keep the pointees in their own frames.
//
//go:noinline
func FOut(p *int, q *[4]int64, a int, xs ...int16) int {
	return -8 - *p*0 - int(q[0])*0 - int(xs[0])*0
}

//go:noinline
func callFOut(a int) [4]int {
	var x int
	var arr [4]int64
	var vs [3]int16 // the variadic slice's elements live in this frame too
	r := FOut(&x, &arr, a, vs[:]...)
	return [4]int{x, int(arr[3]), r, int(vs[1])}
}

var heapKeep19 []string

//go:noinline
func descend19(d int, f func()) int {
	var pad [48]byte
	pad[d%48] = byte(d)
	if d == 0 {
		f()
		return int(pad[0])
	}
	return descend19(d-1, f) + int(pad[d%48])
}

//go:noinline
func burn(n int) int {
	var pad [200]byte
	pad[n] = byte(n)
	if n == 0 {
		return int(pad[0])
	}
	return burn(n-1) + int(pad[n])
}

//go:noinline
func FArr(x [32]byte, y [20]int, zs []int64, s string) ([32]byte, [17]string) { return x, [17]string{} }

//go:noinline
func FArr2() ([32]byte, [64]int) { return [32]byte{}, [64]int{} }

var (
	sinkA, sinkB, sinkC, sinkD uint64
	sinkE, sinkF, sinkG        int32
)

//go:noinline
func FMapArg(m map[int]string, n *Node) int { return -9 }

//go:noinline
func FMapArg2(m map[int]string, n *Node) int { return -10 }

//go:noinline
func label19() (string, int) { return "goom", 7 }

var leafGlobal19 int

//go:noinline
func leafG19() int { return leafGlobal19 + 3 }

// tinyNeighbours: pairs of consecutive functions of a few bytes each
var tinyNeighbours = []func(int) int{tn0, tn1, tn2, tn3}

//go:noinline
func tn0(i int) int { return i + 1 }

//go:noinline
func tn1(i int) int { return i + 2 }

//go:noinline
func tn2(i int) int { return i + 3 }

//go:noinline
func tn3(i int) int { return i + 4 }

// originTargets differ in where their 64-bit constants lie relative to the start of the function
var originTargets = []func(int) int{ot0, ot1, ot2, ot3, ot4, ot5}

//go:noinline
func ot0(i int) int {
	sinkA = 0x0606060606060601
	sinkB = 0x0606060606060602
	sinkC = 0x0606060606060603
	sinkD = 0x0606060606060604
	return i + 1
}

//go:noinline
func ot1(i int) int {
	sinkE = int32(i)
	sinkA = 0x0606060606060601
	sinkB = 0x0606060606060602
	sinkC = 0x0606060606060603
	sinkD = 0x0606060606060604
	return i + 1
}

//go:noinline
func ot2(i int) int {
	sinkE = int32(i)
	sinkF = int32(i)
	sinkA = 0x0606060606060601
	sinkB = 0x0606060606060602
	sinkC = 0x0606060606060603
	sinkD = 0x0606060606060604
	return i + 1
}

//go:noinline
func ot3(i int) int {
	sinkE = int32(i)
	sinkF = int32(i)
	sinkG = int32(i)
	sinkA = 0x0606060606060601
	sinkB = 0x0606060606060602
	sinkC = 0x0606060606060603
	sinkD = 0x0606060606060604
	return i + 1
}

//go:noinline
func ot4(i int) int {
	sinkA = 0x0606060606060601 + uint64(i)
	sinkB = 0x0606060606060602
	sinkE = int32(i)
	sinkC = 0x0606060606060603
	sinkD = 0x0606060606060604
	return i + 1
}

//go:noinline
func ot5(i int) int {
	if i > 1000 {
		sinkA = 0x0606060606060601
	}
	sinkB = 0x0606060606060602
	sinkC = 0x0606060606060603
	sinkD = 0x0606060606060604
	return i + 1
}

//go:noinline
func FNone(a int) { sinkE = int32(a) }

var (
	tinyPh0 = func(i int) int { return i - 1 }
	tinyPh1 = func(i int) int { return i - 2 }
	tinyPh2 = func(i int) int { return i - 3 }
	tinyPh3 = func(i int) int { return i - 4 }
	tinyPh4 = func(i int) int { return i - 5 }
	tinyPh5 = func(i int) int { return i - 6 }

	tinyPlaceholders = []*func(int) int{&tinyPh0, &tinyPh1, &tinyPh2, &tinyPh3, &tinyPh4, &tinyPh5}
)

var keptVar19 = "origin"

//go:noinline
func FErrno(a int) (int, syscall.Errno) { return a, 0 }

type codeErr struct{ Code int }

func (c codeErr) Error() string { return fmt.Sprint("code ", c.Code) }

//go:noinline
func FStructErr(a int) (int, codeErr) { return a, codeErr{} }
