//go:build go1.21

package c04

type P2 struct{ X, Y int }

//go:noinline
func F1(a int) int { return -1 }

//go:noinline
func F2(a int, s string) int { return -2 }

//go:noinline
func F3(a uint8, f float64, b bool) int { return -3 }

//go:noinline
func F4(p P2, q *P2) int { return -4 }

//go:noinline
func F5(e interface{}, s string) int { return -5 }

//go:noinline
func F6(a, b, c, d, e int) int { return -6 }

//go:noinline
func V0(xs ...int) int { return -10 - len(xs) }

//go:noinline
func V1(s string, xs ...int) int { return -20 - len(xs) }

//go:noinline
func V2(a int, s string, xs ...string) int { return -30 - len(xs) }

//go:noinline
func V3(a, b, c int, xs ...int) int { return -40 - len(xs) }

//go:noinline
func V4(p *P2, xs ...interface{}) int { return -50 - len(xs) }

type R struct{ v int }

//go:noinline
func (r *R) M1(a int) int { return -60 - r.v }

//go:noinline
func (r R) M2(a int, s string) int { return -70 - r.v }

//go:noinline
func (r *R) MV(a int, xs ...int) int { return -80 - len(xs) }
