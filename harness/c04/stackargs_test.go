//go:build go1.21

package c04

import (
	"fmt"
	"sync"
	"sync/atomic"
	"testing"
	"unsafe"

	mocker "github.com/tencent/goom"
	"github.com/tencent/goom/arg"
	"github.com/tencent/goom/zzverif/vmon"
)

var onStack int64

// FP does not let p escape: callers may keep the pointee on their own stack.
//
//go:noinline
func FP(p *P2, salt int) int { return -7 - salt*0 - p.X*0 }

//go:noinline
func descendFP(d int, f func()) int {
	var pad [64]byte
	pad[d%64] = byte(d)
	if d == 0 {
		f()
		return int(pad[0])
	}
	return descendFP(d-1, f) + int(pad[d%64])
}

//go:noinline
func callFP(k, d int) int {
	loc := P2{X: k, Y: k * 3} // lives in this frame
	var marker int
	if dd := int64(uintptr(unsafe.Pointer(&loc))) - int64(uintptr(unsafe.Pointer(&marker))); dd < 4096 && dd > -4096 {
		atomic.AddInt64(&onStack, 1)
	}
	return FP(&loc, d)
}

// TestC04StackArgs: arguments that point into the caller's stack, calls made at every stack depth so that the
// goroutine's stack is moved at different points of the mock's own call chain, many goroutines so that released stack
// memory is reused at once.
func TestC04StackArgs(t *testing.T) {
	rep := vmon.NewReport("C04")
	defer rep.Write()
	b := mocker.Create()
	w := b.Func(FP).Return(-1)
	for k := 0; k < 8; k++ {
		w = w.When(&P2{X: k, Y: k * 3}, arg.Any()).Return(1000 + k)
	}
	rounds := vmon.EnvInt("VERIF_C04_STACKROUNDS", 200)
	var bad, stale, total int64
	var mu sync.Mutex
	var first []string
	// goroutines born and grown all the time: released stack memory is taken over and overwritten at once
	stopChurn := make(chan struct{})
	var churnWG sync.WaitGroup
	for c := 0; c < vmon.EnvInt("VERIF_C04_STACKCHURN", 4); c++ {
		churnWG.Add(1)
		go func(c int) {
			defer churnWG.Done()
			for i := 0; ; i++ {
				select {
				case <-stopChurn:
					return
				default:
				}
				done := make(chan struct{})
				go func() { descendFP(20+(i*7+c)%200, func() { scribble(i) }); close(done) }()
				<-done
			}
		}(c)
	}
	defer func() { close(stopChurn); churnWG.Wait() }()
	for r := 0; r < rounds; r++ {
		var wg sync.WaitGroup
		for g := 0; g < 32; g++ {
			wg.Add(1)
			go func(g int) {
				defer wg.Done()
				k := g % 8
				d := (r*32 + g) % 220
				var got, again int
				descendFP(d, func() { got = callFP(k, d); again = callFP(k, d) })
				atomic.AddInt64(&total, 1)
				if got != 1000+k {
					if again == 1000+k {
						// wrong once, right when the same call is repeated on the stack as it is now: the argument
						// was read through an address that had been left behind by a stack move
						atomic.AddInt64(&stale, 1)
					} else {
						atomic.AddInt64(&bad, 1)
					}
					mu.Lock()
					if len(first) < 5 {
						first = append(first, fmt.Sprintf("k=%d depth=%d got %d, repeated %d, want %d", k, d, got, again, 1000+k))
					}
					mu.Unlock()
				}
			}(g)
		}
		wg.Wait()
	}
	b.Reset()
	rep.Eval(total)
	rep.Stat("stack_argument_calls", total)
	rep.Class("stackargs/when-by-pointee")
	rep.Class("stackargs/depth-sweep")
	rep.Stat("stack_argument_calls_wrong_once_right_when_repeated", stale)
	if bad > 0 || stale*100 > total {
		rep.Violate("C04/wrong-clause-selected", fmt.Sprintf("%d of %d calls passing a pointer to a caller-frame object selected the wrong clause also when repeated (%d only the first time): %v", bad, total, stale, first), nil)
	} else if stale > 0 {
		rep.Violate("C04/pointer-into-caller-stack", fmt.Sprintf("%d of %d calls passing a pointer to a caller-frame object selected the wrong clause once and the right one when repeated at once: %v", stale, total, first), nil)
	}
	rep.Stat("stack_argument_objects_in_caller_frame", atomic.LoadInt64(&onStack))
	if atomic.LoadInt64(&onStack) == 0 {
		rep.Inconclusive = "the argument objects were not allocated in the caller frame"
	}
}

//go:noinline
func scribble(i int) int {
	var junk [48]P2
	for k := range junk {
		junk[k] = P2{X: -1 - i, Y: -7}
	}
	return junk[i%48].X
}
