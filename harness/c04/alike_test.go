//go:build go1.21

package c04

import (
	"fmt"
	"testing"

	mocker "github.com/tencent/goom"
	"github.com/tencent/goom/zzverif/vmon"
)

//go:noinline
func route(a, b string) int { return -90 - len(a)*0 - len(b)*0 }

// Grade prints the same text for several values
type Grade int

func (g Grade) String() string {
	if g > 3 {
		return "high"
	}
	return "low"
}

//go:noinline
func weigh(g Grade) int { return -91 - int(g)*0 }

//go:noinline
func mixed(e interface{}, n int) int { return -92 - n*0 }

// TestC04InAlike: alternatives of one In clause (and clauses of one stub) that are different values but print alike -
// tuples whose strings concatenate to the same text, named numbers whose String method is not injective, 1 and "1" and
// int64(1) in an interface parameter. Membership is by value: each alternative selects the clause, nothing else does.
func TestC04InAlike(t *testing.T) {
	rep := vmon.NewReport("C04")
	defer rep.Write()
	check := func(name string, got, want int) {
		rep.Eval(1)
		if got != want {
			rep.Violate("C04/alternatives-that-print-alike", fmt.Sprintf("%s = %d, want %d", name, got, want), map[string]interface{}{"case": name})
		}
	}
	guard := func(name string, f func()) {
		defer func() {
			if r := recover(); r != nil {
				rep.Violate("C04/call-panicked", fmt.Sprintf("%s: %v", name, r), nil)
			}
		}()
		f()
	}
	guard("tuples of strings", func() {
		b := mocker.Create()
		defer b.Reset()
		b.Func(route).Return(0).When("x", "y").In([]interface{}{"a b", "c"}, []interface{}{"a", "b c"}, []interface{}{"", "a b c"}).Return(7)
		check(`route("a b","c")`, route("a b", "c"), 7)
		check(`route("a","b c")`, route("a", "b c"), 7)
		check(`route("","a b c")`, route("", "a b c"), 7)
		check(`route("a b c","")`, route("a b c", ""), 0)
		check(`route("x","y")`, route("x", "y"), 0) // the When in front of In never got a Return: not a clause
	})
	// the alternatives are what was given to In when it was called: a row the caller re-uses for the next clause (or
	// changes afterwards) does not change a clause registered before
	guard("alternatives from a re-used row", func() {
		b := mocker.Create()
		defer b.Reset()
		row := []interface{}{"a", "b"}
		w := b.Func(route).Return(0).In(row).Return(10)
		row[0], row[1] = "c", "d"
		w = w.In(row).Return(20)
		row[0], row[1] = "e", "f"
		w.In(row, []interface{}{"g", "h"}).Return(30)
		row[0], row[1] = "never", "registered"
		check(`route("a","b") [row re-used]`, route("a", "b"), 10)
		check(`route("c","d") [row re-used]`, route("c", "d"), 20)
		check(`route("e","f") [row re-used]`, route("e", "f"), 30)
		check(`route("g","h") [row re-used]`, route("g", "h"), 30)
		check(`route("never","registered") [row re-used]`, route("never", "registered"), 0)
	})
	guard("named numbers", func() {
		b := mocker.Create()
		defer b.Reset()
		b.Func(weigh).Return(0).When(Grade(0)).In(Grade(5), Grade(8)).Return(9)
		check("weigh(5)", weigh(5), 9)
		check("weigh(8)", weigh(8), 9)
		check("weigh(6)", weigh(6), 0)
		check("weigh(1)", weigh(1), 0)
		check("weigh(0)", weigh(0), 0)
	})
	guard("interface parameter", func() {
		b := mocker.Create()
		defer b.Reset()
		b.Func(mixed).Return(0).When("zz", 1).In([]interface{}{1, 1}, []interface{}{"1", 1}).Return(5)
		check(`mixed(1,1)`, mixed(1, 1), 5)
		check(`mixed("1",1)`, mixed("1", 1), 5)
		check(`mixed(2,1)`, mixed(2, 1), 0)
		check(`mixed("zz",1)`, mixed("zz", 1), 0)
	})
	rep.Class("in-alike/string-tuples")
	rep.Class("in-alike/named-numbers")
	rep.Class("in-alike/interface-parameter")
}
