//go:build go1.21

package c04

import (
	"fmt"
	"reflect"
	"strings"
	"testing"

	mocker "github.com/tencent/goom"
	"github.com/tencent/goom/arg"
	"github.com/tencent/goom/zzverif/vmon"
)

type target struct {
	name     string
	fn       interface{}
	mock     func(b *mocker.Builder) mocker.ExportedMocker
	method   bool
	original func(nvar int) int
	recv     reflect.Value
}

var p1, p2, p3 = &P2{1, 2}, &P2{1, 2}, &P2{3, 4}

func pool(t reflect.Type) []interface{} {
	switch t {
	case reflect.TypeOf(0):
		return []interface{}{1, 2, 3, 1 << 53, 1<<53 + 1}
	case reflect.TypeOf(""):
		// among them strings that concatenate to one another ("a"+"b" = "ab", "ab"+"" = "ab") and a numeric-looking one
		return []interface{}{"a", "b", "3", "ab", ""}
	case reflect.TypeOf(uint8(0)):
		return []interface{}{uint8(0), uint8(1), uint8(255)}
	case reflect.TypeOf(0.5):
		return []interface{}{0.5, 1.5, -2.0}
	case reflect.TypeOf(true):
		return []interface{}{true, false}
	case reflect.TypeOf(P2{}):
		return []interface{}{P2{1, 2}, P2{3, 4}, P2{1, 3}}
	case reflect.TypeOf(&P2{}):
		return []interface{}{p1, p2, p3, (*P2)(nil)}
	}
	if t.Kind() == reflect.Interface {
		// the nil interface and typed nils are different values of an interface parameter
		// (values of different dynamic types that goom deliberately treats as alike - "1" and 1, int64(1) and 1 - are
		// not mixed: the statement fixes equality for same-typed values only)
		return []interface{}{1, "a", P2{1, 2}, 2, nil, (*P2)(nil), []int(nil)}
	}
	panic("no pool for " + t.String())
}

// pattern for one argument position
type pat struct {
	kind string // val | any | in
	vals []interface{}
}

func (p pat) matches(v interface{}) bool {
	switch p.kind {
	case "any":
		return true
	case "val":
		return reflect.DeepEqual(p.vals[0], v)
	default:
		for _, x := range p.vals {
			if reflect.DeepEqual(x, v) {
				return true
			}
		}
		return false
	}
}

func (p pat) expr() interface{} {
	switch p.kind {
	case "any":
		return arg.Any()
	case "val":
		return p.vals[0]
	default:
		return arg.In(p.vals...)
	}
}

func (p pat) String() string {
	switch p.kind {
	case "any":
		return "Any"
	case "val":
		return fmt.Sprintf("%v", show(p.vals[0]))
	default:
		return fmt.Sprintf("In%v", showAll(p.vals))
	}
}

func show(v interface{}) string {
	if p, ok := v.(*P2); ok {
		if p == nil {
			return "(*P2)(nil)"
		}
		return fmt.Sprintf("&%v", *p)
	}
	return fmt.Sprintf("%#v", v)
}

func showAll(vs []interface{}) []string {
	var s []string
	for _, v := range vs {
		s = append(s, show(v))
	}
	return s
}

// clause: When(p1..pn) or In(tuple, tuple...)
type clause struct {
	isIn   bool
	pats   []pat   // for When
	tuples [][]pat // for In (each pat is val or any)
	typed  []bool  // for In on a func(xs ...T): the alternative is given as a []T instead of a []interface{}
	result int
}

func (c clause) matches(args []interface{}) bool {
	one := func(ps []pat) bool {
		if len(ps) != len(args) {
			return false
		}
		for i, p := range ps {
			if !p.matches(args[i]) {
				return false
			}
		}
		return true
	}
	if !c.isIn {
		return one(c.pats)
	}
	for _, t := range c.tuples {
		if one(t) {
			return true
		}
	}
	return false
}

func (c clause) String() string {
	if !c.isIn {
		return fmt.Sprintf("When%v->%d", c.pats, c.result)
	}
	return fmt.Sprintf("In%v->%d", c.tuples, c.result)
}

func TestC04(t *testing.T) {
	rep := vmon.NewReport("C04")
	defer rep.Write()
	shard, _ := vmon.Shard()
	rng := vmon.NewRng(vmon.Seed(), uint64(400+shard))
	nconf := vmon.EnvInt("VERIF_C04_CONFIGS", 400)
	ncalls := vmon.EnvInt("VERIF_C04_CALLS", 12)
	recvP, recvV := &R{v: 5}, R{v: 6}
	targets := []target{
		{name: "F1", fn: F1, mock: func(b *mocker.Builder) mocker.ExportedMocker { return b.Func(F1) }},
		{name: "F2", fn: F2, mock: func(b *mocker.Builder) mocker.ExportedMocker { return b.Func(F2) }},
		{name: "F3", fn: F3, mock: func(b *mocker.Builder) mocker.ExportedMocker { return b.Func(F3) }},
		{name: "F4", fn: F4, mock: func(b *mocker.Builder) mocker.ExportedMocker { return b.Func(F4) }},
		{name: "F5", fn: F5, mock: func(b *mocker.Builder) mocker.ExportedMocker { return b.Func(F5) }},
		{name: "F6", fn: F6, mock: func(b *mocker.Builder) mocker.ExportedMocker { return b.Func(F6) }},
		{name: "V0", fn: V0, mock: func(b *mocker.Builder) mocker.ExportedMocker { return b.Func(V0) }},
		{name: "V1", fn: V1, mock: func(b *mocker.Builder) mocker.ExportedMocker { return b.Func(V1) }},
		{name: "V2", fn: V2, mock: func(b *mocker.Builder) mocker.ExportedMocker { return b.Func(V2) }},
		{name: "V3", fn: V3, mock: func(b *mocker.Builder) mocker.ExportedMocker { return b.Func(V3) }},
		{name: "V4", fn: V4, mock: func(b *mocker.Builder) mocker.ExportedMocker { return b.Func(V4) }},
		{name: "M1", fn: (*R).M1, method: true, recv: reflect.ValueOf(recvP), mock: func(b *mocker.Builder) mocker.ExportedMocker { return b.Struct(&R{}).Method("M1") }},
		{name: "M2", fn: R.M2, method: true, recv: reflect.ValueOf(recvV), mock: func(b *mocker.Builder) mocker.ExportedMocker { return b.Struct(R{}).Method("M2") }},
		{name: "MV", fn: (*R).MV, method: true, recv: reflect.ValueOf(recvP), mock: func(b *mocker.Builder) mocker.ExportedMocker { return b.Struct(&R{}).Method("MV") }},
	}
	for ci := 0; ci < nconf; ci++ {
		tg := targets[(ci+shard)%len(targets)]
		ft := reflect.TypeOf(tg.fn)
		skip := 0
		if tg.method {
			skip = 1
		}
		var ptypes []reflect.Type
		for i := skip; i < ft.NumIn(); i++ {
			ptypes = append(ptypes, ft.In(i))
		}
		variadic := ft.IsVariadic()
		nfixed := len(ptypes)
		var elem reflect.Type
		if variadic {
			nfixed--
			elem = ptypes[nfixed].Elem()
		}
		typeAt := func(i int) reflect.Type {
			if i < nfixed {
				return ptypes[i]
			}
			return elem
		}
		genTuple := func(n int) []interface{} {
			out := make([]interface{}, n)
			for i := range out {
				p := pool(typeAt(i))
				out[i] = p[rng.Intn(len(p))]
			}
			return out
		}
		arity := func() int {
			if !variadic {
				return nfixed
			}
			return nfixed + rng.Intn(4)
		}
		genPat := func(i int, allowIn bool) pat {
			p := pool(typeAt(i))
			r := rng.Intn(100)
			switch {
			case r < 60 || (!allowIn && r >= 85):
				return pat{"val", []interface{}{p[rng.Intn(len(p))]}}
			case r < 85:
				return pat{"any", nil}
			default:
				return pat{"in", []interface{}{p[rng.Intn(len(p))], p[rng.Intn(len(p))]}}
			}
		}
		hasDefault := rng.Chance(7, 10)
		ncl := rng.Intn(7)
		if !hasDefault && ncl == 0 {
			ncl = 1
		}
		var clauses []clause
		for k := 0; k < ncl; k++ {
			c := clause{result: 1000 + k}
			n := arity()
			if n == 0 && variadic && !(hasDefault || k > 0) {
				// the very first When of a mocker with no argument at all is "no condition given", not a clause; on a
				// stub that already exists When() is the clause "called without variadic elements"
				n = 1
			}
			if variadic && !hasDefault && k == 0 && n < nfixed+1 {
				// the first When of a mocker is checked against the parameter count up front (C13: "too few
				// condition arguments"), so a first clause needs at least one variadic element
				n = nfixed + 1
			}
			if rng.Chance(15, 100) && (hasDefault || k > 0) && n > 0 {
				c.isIn = true
				for tcount := 1 + rng.Intn(3); tcount > 0; tcount-- {
					var tp []pat
					nn := n
					if variadic && rng.Bool() {
						// alternatives of a variadic target need not have the same length
						if nn = arity(); nn == 0 {
							nn = 1
						}
					}
					typed := variadic && nfixed == 0 && rng.Bool()
					for i := 0; i < nn; i++ {
						p := genPat(i, false)
						if typed && p.kind != "val" {
							pl := pool(typeAt(i))
							p = pat{"val", []interface{}{pl[rng.Intn(len(pl))]}}
						}
						tp = append(tp, p)
					}
					c.tuples = append(c.tuples, tp)
					c.typed = append(c.typed, typed)
				}
			} else {
				for i := 0; i < n; i++ {
					c.pats = append(c.pats, genPat(i, true))
				}
			}
			clauses = append(clauses, c)
		}
		desc := fmt.Sprintf("%s default=%v %v", tg.name, hasDefault, clauses)
		rep.Journal(map[string]interface{}{"part": "config", "desc": desc})
		// ---- configure through the public API
		b := mocker.Create()
		var w *mocker.When
		var cerr interface{}
		func() {
			defer func() { cerr = recover() }()
			m := tg.mock(b)
			if hasDefault {
				w = m.Return(999)
			}
			for _, c := range clauses {
				if c.isIn {
					var ts []interface{}
					for ti, tp := range c.tuples {
						var one []interface{}
						for _, p := range tp {
							one = append(one, p.expr())
						}
						if c.typed[ti] {
							sl := reflect.MakeSlice(reflect.SliceOf(elem), 0, len(tp))
							for _, p := range tp {
								sl = reflect.Append(sl, reflect.ValueOf(p.vals[0]))
							}
							ts = append(ts, sl.Interface())
							continue
						}
						if len(one) == 1 && !variadic && rng.Bool() { // bare form documented for single-parameter functions
							ts = append(ts, one[0])
						} else {
							ts = append(ts, one)
						}
					}
					w = w.In(ts...).Return(c.result)
				} else {
					var as []interface{}
					for _, p := range c.pats {
						as = append(as, p.expr())
					}
					if w == nil {
						w = m.When(as...).Return(c.result)
					} else {
						w = w.When(as...).Return(c.result)
					}
				}
			}
		}()
		sigClass := "fixed"
		if variadic {
			sigClass = fmt.Sprintf("variadic-lead%d", nfixed)
		}
		if tg.method {
			sigClass = "method-" + sigClass
		}
		if cerr != nil {
			key := "C04/well-formed-configuration-rejected"
			if variadic && nfixed > 0 {
				key = "C04/variadic-leading-fixed"
			}
			rep.Violate(key, fmt.Sprintf("configuring %s panicked: %v", tg.name, firstLine(cerr)), map[string]interface{}{"config": desc})
			b.Reset()
			continue
		}
		// ---- calls
		callTuples := [][]interface{}{}
		for _, c := range clauses { // aim at each clause
			if c.isIn {
				tp := c.tuples[rng.Intn(len(c.tuples))]
				callTuples = append(callTuples, concretize(tp, typeAt, rng))
			} else {
				callTuples = append(callTuples, concretize(c.pats, typeAt, rng))
			}
		}
		for len(callTuples) < ncalls {
			callTuples = append(callTuples, genTuple(arity()))
		}
		fv := reflect.ValueOf(tg.fn)
		scratch := &P2{} // one caller-side object passed again and again with other contents
		for _, args := range callTuples {
			for i, a := range args {
				if q, ok := a.(*P2); ok && q != nil && typeAt(i) == reflect.TypeOf(q) && rng.Bool() {
					*scratch = *q
					args[i] = scratch
					rep.Stat("calls_passing_one_reused_pointer", 1)
				}
			}
			want, wantPanic, nmatch := 0, false, 0
			first := -1
			for i, c := range clauses {
				if c.matches(args) {
					nmatch++
					if first < 0 {
						first = i
					}
				}
			}
			switch {
			case first >= 0:
				want = clauses[first].result
			case hasDefault:
				want = 999
			default:
				wantPanic = true
			}
			in := []reflect.Value{}
			if tg.method {
				in = append(in, tg.recv)
			}
			for i, a := range args {
				v := reflect.New(typeAt(i)).Elem()
				if a != nil {
					v.Set(reflect.ValueOf(a))
				}
				in = append(in, v)
			}
			got, perr := 0, interface{}(nil)
			func() {
				defer func() { perr = recover() }()
				got = int(fv.Call(in)[0].Int())
			}()
			rep.Eval(1)
			outcome := "default"
			if first >= 0 {
				outcome = "clause"
				if nmatch >= 2 {
					outcome = "first-of-many"
					rep.Stat("first_match_wins_cases_with_2plus_matching_clauses", 1)
				}
			} else if wantPanic {
				outcome = "panic"
			}
			kinds := clauseKinds(clauses)
			rep.Class(fmt.Sprintf("%s/%s/%s", sigClass, kinds, outcome))
			c := map[string]interface{}{"config": desc, "args": showAll(args)}
			keyFor := func(k string) string {
				if first >= 0 && clauses[first].isIn {
					for _, tp := range clauses[first].tuples {
						if len(tp) != len(clauses[first].tuples[0]) {
							return "C04/in-alternatives-of-different-length"
						}
					}
				}
				if variadic && nfixed > 0 {
					return "C04/variadic-leading-fixed"
				}
				return k
			}
			if wantPanic {
				if perr == nil {
					rep.Violate(keyFor("C04/no-match-no-default-did-not-panic"), fmt.Sprintf("%s%v returned %d; no clause matches and there is no default", tg.name, showAll(args), got), c)
				} else if !strings.Contains(fmt.Sprint(perr), "no suitable condition") {
					rep.Violate(keyFor("C04/wrong-panic"), fmt.Sprintf("%s%v panicked with %q, want a 'no suitable condition' message", tg.name, showAll(args), firstLine(perr)), c)
				}
				continue
			}
			if perr != nil {
				rep.Violate(keyFor("C04/call-panicked"), fmt.Sprintf("%s%v panicked: %v (want %d)", tg.name, showAll(args), firstLine(perr), want), c)
				continue
			}
			if got != want {
				rep.Violate(keyFor("C04/wrong-clause-selected"), fmt.Sprintf("%s%v returned %d, want %d (first matching clause %d of %d matching)", tg.name, showAll(args), got, want, first, nmatch), c)
			}
			// same decision through When.Eval for non-variadic targets
			if !variadic && !tg.method && w != nil {
				var ev []interface{}
				var eerr interface{}
				func() {
					defer func() { eerr = recover() }()
					ev = w.Eval(args...)
				}()
				rep.Eval(1)
				if eerr != nil || len(ev) != 1 || ev[0] != want {
					rep.Violate("C04/eval-disagrees", fmt.Sprintf("%s: When.Eval%v = %v (panic %v), want %d", tg.name, showAll(args), ev, firstLine(eerr), want), c)
				}
			}
		}
		b.Reset()
		// the target must still be callable and original
		if ci < 3 {
			rep.Sample(map[string]interface{}{"config": desc, "calls": len(callTuples)})
		}
	}
	if F1(1) != -1 || V1("a", 1) != -21 || (&R{v: 1}).M1(1) != -61 {
		rep.Violate("C04/not-reset", "targets not original at the end", nil)
	}
	rep.Stat("configurations", int64(nconf))
}

func firstLine(v interface{}) string {
	if v == nil {
		return "<nil>"
	}
	s := fmt.Sprint(v)
	if i := strings.IndexByte(s, '\n'); i >= 0 {
		s = s[:i]
	}
	if len(s) > 160 {
		s = s[:160]
	}
	return s
}

func clauseKinds(cs []clause) string {
	w, in, any, ain := 0, 0, 0, 0
	for _, c := range cs {
		if c.isIn {
			in++
		} else {
			w++
		}
		for _, p := range c.pats {
			if p.kind == "any" {
				any = 1
			}
			if p.kind == "in" {
				ain = 1
			}
		}
	}
	b := func(n int) int {
		if n > 2 {
			return 3
		}
		return n
	}
	return fmt.Sprintf("when%d-in%d-any%d-argin%d", b(w), b(in), any, ain)
}

// concretize picks arguments that satisfy the patterns
func concretize(ps []pat, typeAt func(int) reflect.Type, rng *vmon.Rng) []interface{} {
	out := make([]interface{}, len(ps))
	for i, p := range ps {
		switch p.kind {
		case "any":
			pl := pool(typeAt(i))
			out[i] = pl[rng.Intn(len(pl))]
		default:
			out[i] = p.vals[rng.Intn(len(p.vals))]
		}
	}
	return out
}
