//go:build go1.21

package c04

import (
	"fmt"
	"testing"

	mocker "github.com/tencent/goom"
	"github.com/tencent/goom/arg"
	"github.com/tencent/goom/zzverif/vmon"
)

// targets without results: a matching clause, the default and "nothing configured matches" all mean "the call returns
// and the original did not run"
var voidRuns int

//go:noinline
func VoidF(a int, s string) { voidRuns += 1 + a*0 + len(s)*0 }

//go:noinline
func VoidV(a int, xs ...string) { voidRuns += 1 + a*0 + len(xs)*0 }

//go:noinline
func (r *R) VoidM(a int) { voidRuns += 1 + a*0 + r.v*0 }

type VI interface {
	Fire(a int, s string)
	Other() int
}

func TestC04Void(t *testing.T) {
	rep := vmon.NewReport("C04")
	defer rep.Write()
	type conf struct {
		name string
		set  func(m mocker.ExportedMocker, two bool)
	}
	// two: the target takes (int, string); otherwise (int)
	tup := func(two bool, a int, s string) []interface{} {
		if two {
			return []interface{}{a, s}
		}
		return []interface{}{a}
	}
	confs := []conf{
		{"Return()", func(m mocker.ExportedMocker, two bool) { m.Return() }},
		{"When.Return()", func(m mocker.ExportedMocker, two bool) { m.When(tup(two, 1, "a")...).Return() }},
		{"Return().When.Return()", func(m mocker.ExportedMocker, two bool) { m.Return().When(tup(two, 1, "a")...).Return() }},
		{"When.Return().When.Return()", func(m mocker.ExportedMocker, two bool) {
			m.When(tup(two, 1, "a")...).Return().When(tup(two, 2, "b")...).Return()
		}},
		{"When(Any).Return()", func(m mocker.ExportedMocker, two bool) {
			if two {
				m.When(arg.Any(), "a").Return()
			} else {
				m.When(arg.Any()).Return()
			}
		}},
		{"When.In.Return()", func(m mocker.ExportedMocker, two bool) {
			if two {
				m.When(1, "a").In([]interface{}{2, "b"}, []interface{}{3, "c"}).Return()
			} else {
				m.When(1).In(2, 3).Return()
			}
		}},
		{"When.Return().AndReturn()", func(m mocker.ExportedMocker, two bool) { m.When(tup(two, 1, "a")...).Return().AndReturn() }},
	}
	calls := [][2]interface{}{{1, "a"}, {2, "b"}, {3, "c"}, {9, "zz"}, {1, "zz"}}
	type tgt struct {
		name string
		two  bool
		mock func(b *mocker.Builder) mocker.ExportedMocker
		call func(a int, s string)
	}
	recv := &R{v: 3}
	var vi VI
	tgts := []tgt{
		{"VoidF", true, func(b *mocker.Builder) mocker.ExportedMocker { return b.Func(VoidF) }, func(a int, s string) { VoidF(a, s) }},
		{"VoidV", true, func(b *mocker.Builder) mocker.ExportedMocker { return b.Func(VoidV) }, func(a int, s string) { VoidV(a, s) }},
		{"R.VoidM", false, func(b *mocker.Builder) mocker.ExportedMocker { return b.Struct(&R{}).Method("VoidM") }, func(a int, s string) { recv.VoidM(a) }},
		{"VI.Fire", true, func(b *mocker.Builder) mocker.ExportedMocker {
			return b.Interface(&vi).Method("Fire").As(func(ctx *mocker.IContext, a int, s string) {})
		}, func(a int, s string) { vi.Fire(a, s) }},
	}
	for _, tg := range tgts {
		for _, cf := range confs {
			vi = nil
			b := mocker.Create()
			c := map[string]interface{}{"target": tg.name, "configuration": cf.name}
			rep.Journal(map[string]interface{}{"part": "void", "target": tg.name, "conf": cf.name})
			var perr interface{}
			func() {
				defer func() { perr = recover() }()
				cf.set(tg.mock(b), tg.two)
			}()
			rep.Eval(1)
			if perr != nil {
				rep.Violate("C04/well-formed-configuration-rejected", fmt.Sprintf("%s: %s on a target without results: %v", tg.name, cf.name, perr), c)
				b.Reset()
				continue
			}
			for _, cl := range calls {
				before := voidRuns
				var cerr interface{}
				func() {
					defer func() { cerr = recover() }()
					tg.call(cl[0].(int), cl[1].(string))
				}()
				rep.Eval(1)
				if cerr != nil {
					rep.Violate("C04/void-target-call-panics", fmt.Sprintf("%s configured with %s: call (%v, %q) panicked: %v", tg.name, cf.name, cl[0], cl[1], cerr), c)
				}
				if voidRuns != before {
					rep.Violate("C04/void-target-original-ran", fmt.Sprintf("%s configured with %s: call (%v, %q) ran the original", tg.name, cf.name, cl[0], cl[1]), c)
				}
			}
			b.Reset()
			if tg.name != "VI.Fire" {
				before := voidRuns
				tg.call(1, "a")
				if voidRuns != before+1 {
					rep.Violate("C04/void-target-not-restored", fmt.Sprintf("%s after Reset: the original did not run", tg.name), c)
				}
			}
			rep.Class("void/" + tg.name + "/" + cf.name)
		}
	}
	rep.Stat("void_configurations", int64(len(tgts)*len(confs)))
}
