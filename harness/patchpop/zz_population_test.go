//go:build go1.21

package patch

// Links a large population of compiler-emitted functions into the test binary
// and enumerates them from an independent parse of the binary's own pclntab.

import (
	"archive/tar"
	"archive/zip"
	"compress/flate"
	"compress/gzip"
	"container/heap"
	"container/list"
	"crypto/sha256"
	"crypto/tls"
	"crypto/x509"
	"debug/elf"
	"debug/gosym"
	"encoding/asn1"
	"encoding/csv"
	"encoding/gob"
	"encoding/xml"
	"go/ast"
	"go/format"
	"go/parser"
	"go/printer"
	"go/token"
	"go/types"
	"html/template"
	"image/gif"
	"image/jpeg"
	"image/png"
	"math/big"
	"mime/multipart"
	"net/http"
	"net/http/httptest"
	"net/mail"
	"net/rpc"
	"net/smtp"
	"os"
	"regexp"
	"sort"
	"strings"
	"text/tabwriter"
	ttemplate "text/template"
)

// popKeep keeps the linker from discarding the packages.
var popKeep = []interface{}{
	tar.NewReader, zip.NewReader, flate.NewReader, gzip.NewReader, heap.Init, list.New, sha256.Sum256,
	(*tls.Conn).Handshake, (*x509.Certificate).Verify, asn1.Marshal, csv.NewReader, gob.NewDecoder, xml.Unmarshal,
	ast.Inspect, format.Source, parser.ParseFile, (*printer.Config).Fprint, token.NewFileSet, (*types.Config).Check,
	template.New, gif.Decode, jpeg.Decode, png.Decode, (*big.Int).Exp, (*big.Float).Sqrt, (*big.Rat).SetString,
	multipart.NewReader, http.ListenAndServe, (*http.Client).Do, httptest.NewServer, mail.ReadMessage, rpc.Dial, smtp.SendMail,
	regexp.MustCompile, tabwriter.NewWriter, ttemplate.New,
}

type popFunc struct {
	Name       string
	Entry, End uintptr
}

// popFuncs returns every function of the binary, sorted by entry.
func popFuncs() ([]popFunc, error) {
	if len(popKeep) == 0 {
		return nil, os.ErrInvalid
	}
	exe, err := os.Executable()
	if err != nil {
		return nil, err
	}
	f, err := elf.Open(exe)
	if err != nil {
		return nil, err
	}
	defer f.Close()
	ts, ps := f.Section(".text"), f.Section(".gopclntab")
	if ts == nil || ps == nil {
		return nil, os.ErrNotExist
	}
	pd, err := ps.Data()
	if err != nil {
		return nil, err
	}
	tab, err := gosym.NewTable(nil, gosym.NewLineTable(pd, ts.Addr))
	if err != nil {
		return nil, err
	}
	out := make([]popFunc, 0, len(tab.Funcs))
	for i := range tab.Funcs {
		fu := &tab.Funcs[i]
		if fu.Entry < ts.Addr || fu.End > ts.Addr+ts.Size || fu.End <= fu.Entry {
			continue
		}
		out = append(out, popFunc{fu.Name, uintptr(fu.Entry), uintptr(fu.End)})
	}
	sort.Slice(out, func(i, j int) bool { return out[i].Entry < out[j].Entry })
	return out, nil
}

// idlePrefixes: packages nothing in the harness, goom or the runtime executes
// while a patch window is open.
var idlePrefixes = []string{"archive/", "compress/", "container/", "crypto/", "encoding/asn1", "encoding/csv", "encoding/gob", "encoding/xml",
	"go/", "html/", "image/", "math/big", "mime/", "net/", "regexp", "text/", "vendor/", "hash/", "database/", "log.", "log/", "encoding/pem", "encoding/base32"}

func popIdle(name string) bool {
	for _, p := range idlePrefixes {
		if strings.HasPrefix(name, p) {
			return true
		}
	}
	return false
}
