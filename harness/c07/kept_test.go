//go:build go1.21

package c07

import (
	"fmt"
	"runtime"
	"strings"
	"testing"
	"unsafe"

	mocker "github.com/tencent/goom"
	"github.com/tencent/goom/zzverif/vmon"
)

type keptSvc interface {
	Get(k string) int
	Put(k string, v int) int
}

// TestC07Kept: the user keeps the objects Interface(&v).Method(name) returned and goes on configuring through them after
// the builder's Reset, round after round: each round the variable is mocked again, every method reaches the replacement
// configured in THAT round, and Reset gives the variable its pre-mock words back.
func TestC07Kept(t *testing.T) {
	rep := vmon.NewReport("C07")
	defer rep.Write()
	for _, form := range []string{"As.Return", "Apply", "As.When.Return", "mixed"} {
		var v keptSvc
		b := mocker.Create()
		get := b.Interface(&v).Method("Get")
		put := b.Interface(&v).Method("Put")
		asGet := func(ctx *mocker.IContext, k string) int { return -1 }
		asPut := func(ctx *mocker.IContext, k string, x int) int { return -2 }
		for round := 1; round <= 4; round++ {
			round := round
			c := map[string]interface{}{"form": form, "round": round}
			rep.Journal(map[string]interface{}{"part": "kept", "form": form, "round": round, "crashkey": "C07/kept-handle-dies"})
			var perr interface{}
			func() {
				defer func() { perr = recover() }()
				f := form
				if form == "mixed" {
					f = []string{"As.Return", "Apply", "As.When.Return", "Apply"}[round-1]
				}
				switch f {
				case "As.Return":
					get.As(asGet).Return(100 + round)
					put.As(asPut).Return(200 + round)
				case "Apply":
					get.Apply(func(ctx *mocker.IContext, k string) int { return 100 + round })
					put.Apply(func(ctx *mocker.IContext, k string, x int) int { return 200 + round })
				case "As.When.Return":
					get.As(asGet).When("x").Return(100 + round)
					put.As(asPut).When("x", 1).Return(200 + round)
				}
			}()
			rep.Eval(1)
			if perr != nil {
				rep.Violate("C07/kept-handle-configuration-refused", fmt.Sprintf("%s, round %d: %v", form, round, perr), c)
				break
			}
			if *(*uintptr)(unsafe.Pointer(&v)) == 0 {
				rep.Violate("C07/kept-handle-not-mocked", fmt.Sprintf("%s, round %d: the variable is still nil after the configuration", form, round), c)
				break
			}
			var g, p int
			func() {
				defer func() { perr = recover() }()
				g, p = v.Get("x"), v.Put("x", 1)
			}()
			rep.Eval(2)
			if perr != nil {
				rep.Violate("C07/kept-handle-call-panics", fmt.Sprintf("%s, round %d: %v", form, round, perr), c)
			} else if g != 100+round || p != 200+round {
				rep.Violate("C07/kept-handle-stale-replacement", fmt.Sprintf("%s, round %d: Get = %d, Put = %d; this round configured %d and %d", form, round, g, p, 100+round, 200+round), c)
			}
			b.Reset()
			if w := *(*[2]uintptr)(unsafe.Pointer(&v)); w != [2]uintptr{} {
				rep.Violate("C07/not-restored", fmt.Sprintf("%s, round %d: variable words %#x after Reset, want nil", form, round, w), c)
				v = nil
			}
			rep.Class(fmt.Sprintf("kept/%s/round%d", form, round))
		}
		// after the last Reset only ONE of the two methods is configured again through its kept object: the other one
		// is not mocked in this round - calling it is "method not implements", not the replacement of an earlier round
		{
			c := map[string]interface{}{"form": form, "round": "only Get again"}
			var perr interface{}
			func() {
				defer func() { perr = recover() }()
				get.Apply(func(ctx *mocker.IContext, k string) int { return 555 })
			}()
			rep.Eval(2)
			if perr != nil {
				rep.Violate("C07/kept-handle-configuration-refused", fmt.Sprintf("%s, only Get again: %v", form, perr), c)
			} else {
				var g, p int
				var gerr, perr2 interface{}
				func() { defer func() { gerr = recover() }(); g = v.Get("x") }()
				func() { defer func() { perr2 = recover() }(); p = v.Put("x", 1) }()
				if gerr != nil || g != 555 {
					rep.Violate("C07/kept-handle-stale-replacement", fmt.Sprintf("%s, only Get configured again after Reset: Get = %d (panic %v), want 555", form, g, gerr), c)
				}
				if perr2 == nil {
					rep.Violate("C07/replacement-of-an-earlier-round-still-reachable", fmt.Sprintf("%s: after Reset only Get was configured again, yet Put answers %d (a replacement from before the Reset) instead of \"method not implements\"", form, p), c)
				} else if !strings.Contains(fmt.Sprint(perr2), "not implements") {
					rep.Violate("C07/replacement-of-an-earlier-round-still-reachable", fmt.Sprintf("%s: after Reset only Get was configured again; calling Put panics with %q instead of \"method not implements\" (a stub from before the Reset ran)", form, fmt.Sprint(perr2)), c)
				}
			}
			b.Reset()
			v = nil
			rep.Class("kept/" + form + "/only-one-method-again")
		}
	}
}

type keptImpl struct{ n int }

func (k *keptImpl) Get(s string) int {
	if k == nil {
		return -404
	}
	return k.n
}
func (k *keptImpl) Put(s string, v int) int { return v }

type keptFn func(string) int

func (f keptFn) Get(s string) int        { return -405 }
func (f keptFn) Put(s string, v int) int { return v }

// TestC07PreMockValues: what the variable held before the mock - nil, a real object, a typed nil pointer, a nil func
// value of a type that implements the interface - is what it holds again after Reset, word for word.
func TestC07PreMockValues(t *testing.T) {
	rep := vmon.NewReport("C07")
	defer rep.Write()
	obj := &keptImpl{n: 9}
	pre := []struct {
		name string
		val  keptSvc
		get  int
	}{
		{"nil interface", nil, 0},
		{"object", obj, 9},
		{"typed nil pointer", (*keptImpl)(nil), -404},
		{"nil func value", keptFn(nil), -405},
	}
	for _, p := range pre {
		for _, form := range []string{"Apply", "As.Return"} {
			for _, end := range []string{"Reset", "Reset twice", "assigned while mocked, then Reset", "copy of another mocked variable, then Reset"} {
				v := p.val
				before := *(*[2]uintptr)(unsafe.Pointer(&v))
				b := mocker.Create()
				c := map[string]interface{}{"pre_mock_value": p.name, "form": form, "end": end}
				rep.Journal(map[string]interface{}{"part": "pre-mock-values", "pre": p.name, "form": form, "end": end})
				if form == "Apply" {
					b.Interface(&v).Method("Get").Apply(func(ctx *mocker.IContext, k string) int { return 77 })
				} else {
					b.Interface(&v).Method("Get").As(func(ctx *mocker.IContext, k string) int { return 0 }).Return(77)
				}
				rep.Eval(2)
				if got := v.Get("x"); got != 77 {
					rep.Violate("C07/mocked-method-not-reached", fmt.Sprintf("variable holding %s before the mock, %s: Get = %d want 77", p.name, form, got), c)
				}
				switch end {
				case "assigned while mocked, then Reset":
					// the program puts something else into the variable while it is mocked: Reset still puts back what the
					// variable held before the mock
					v = &keptImpl{n: 31}
				case "copy of another mocked variable, then Reset":
					var other keptSvc
					b.Interface(&other).Method("Get").Apply(func(ctx *mocker.IContext, k string) int { return 78 })
					v = other
					if got := v.Get("x"); got != 78 {
						rep.Violate("C07/mocked-method-not-reached", fmt.Sprintf("a copy of another mocked variable: Get = %d want 78", got), c)
					}
				}
				b.Reset()
				if end == "Reset twice" {
					b.Reset()
				}
				after := *(*[2]uintptr)(unsafe.Pointer(&v))
				if after != before {
					rep.Violate("C07/reset-did-not-restore", fmt.Sprintf("variable holding %s before the mock (%s, %s): words %#x after, %#x before", p.name, form, end, after, before), c)
					continue
				}
				if p.val != nil {
					if got := v.Get("x"); got != p.get {
						rep.Violate("C07/reset-did-not-restore", fmt.Sprintf("variable holding %s before the mock: after Reset Get = %d want %d", p.name, got, p.get), c)
					}
				}
				rep.Class(fmt.Sprintf("pre-mock/%s/%s/%s", p.name, form, end))
			}
		}
	}
}

type oneMethod interface{ Only(a int) int }
type twoMethods interface {
	First(a int) int
	Second(a int) int
}

var c07Churn [][]uintptr

// TestC07TableLifetime: the method table a mocked variable points to belongs to the mock; it stays valid across
// collections and the reuse of freed memory for as long as the variable is mocked - also for an interface with a single
// method (nothing is ever added to that table later).
func TestC07TableLifetime(t *testing.T) {
	rep := vmon.NewReport("C07")
	defer rep.Write()
	var one oneMethod
	var two twoMethods
	b := mocker.Create()
	b.Interface(&one).Method("Only").Apply(func(ctx *mocker.IContext, a int) int { return a + 7000 })
	b.Interface(&two).Method("First").Apply(func(ctx *mocker.IContext, a int) int { return a + 8000 })
	rounds := vmon.EnvInt("VERIF_C07_TABLEROUNDS", 30)
	for r := 0; r < rounds; r++ {
		rep.Journal(map[string]interface{}{"part": "table-lifetime", "round": r, "crashkey": "C07/method-table-freed-while-mocked"})
		runtime.GC()
		// blocks of every size class around a method table, filled with a value that is no code address
		c07Churn = c07Churn[:0]
		for _, words := range []int{64, 128, 256, 512, 1024, 1152, 2048} {
			for j := 0; j < 300; j++ {
				blk := make([]uintptr, words)
				for k := range blk {
					blk[k] = 0x11
				}
				c07Churn = append(c07Churn, blk)
			}
		}
		var g1, g2 int
		var perr interface{}
		func() {
			defer func() { perr = recover() }()
			g1, g2 = one.Only(r), two.First(r)
		}()
		rep.Eval(2)
		if perr != nil || g1 != r+7000 || g2 != r+8000 {
			rep.Violate("C07/method-table-freed-while-mocked", fmt.Sprintf("after %d collections with freed memory reused: one-method interface Only(%d) = %d, two-method interface First(%d) = %d, panic %v; want %d and %d", r+1, r, g1, r, g2, perr, r+7000, r+8000), map[string]interface{}{"collections": r + 1})
			break
		}
	}
	b.Reset()
	if one != nil || two != nil {
		rep.Violate("C07/not-restored", "variables not nil after Reset", nil)
	}
	rep.Stat("table_lifetime_collections", int64(rounds))
	rep.Class("table-lifetime/one-method")
	rep.Class("table-lifetime/two-methods")
}

// TestC07ContainerHandle: the object Interface(&v) returns, kept by the user, and the builder asked again for the
// same variable are one configuration of one variable: methods mocked through either reach their replacements, a
// method mocked through neither panics with the 'method not implements' message, and Reset makes the variable nil again.
func TestC07ContainerHandle(t *testing.T) {
	rep := vmon.NewReport("C07")
	defer rep.Write()
	for _, order := range []string{"handle first, then the usual chain, then the handle", "two handles up front", "chain first, then a handle"} {
		for round := 0; round < 2; round++ {
			var v keptSvc
			b := mocker.Create()
			c := map[string]interface{}{"order": order, "round": round}
			var perr interface{}
			func() {
				defer func() { perr = recover() }()
				switch order {
				case "handle first, then the usual chain, then the handle":
					h := b.Interface(&v)
					b.Interface(&v).Method("Get").Apply(func(ctx *mocker.IContext, k string) int { return 41 })
					h.Method("Put").Apply(func(ctx *mocker.IContext, k string, x int) int { return 42 })
				case "two handles up front":
					h1, h2 := b.Interface(&v), b.Interface(&v)
					h1.Method("Get").Apply(func(ctx *mocker.IContext, k string) int { return 41 })
					h2.Method("Put").Apply(func(ctx *mocker.IContext, k string, x int) int { return 42 })
				default:
					b.Interface(&v).Method("Get").Apply(func(ctx *mocker.IContext, k string) int { return 41 })
					h := b.Interface(&v)
					h.Method("Put").As(func(ctx *mocker.IContext, k string, x int) int { return 0 }).Return(42)
				}
			}()
			rep.Eval(3)
			rep.Class(fmt.Sprintf("kept-container/%s/round-%d", order, round))
			if perr != nil {
				rep.Violate("C07/valid-configuration-refused", fmt.Sprintf("%s: %v", order, perr), c)
				func() { defer func() { recover() }(); b.Reset() }()
				continue
			}
			got := [2]int{-1, -1}
			func() {
				defer func() { perr = recover() }()
				got[0] = v.Get("k")
				got[1] = v.Put("k", 1)
			}()
			if perr != nil || got != [2]int{41, 42} {
				rep.Violate("C07/mocked-method-not-reached", fmt.Sprintf("%s: Get and Put mocked through the kept object and the builder's own lookup give %v, want [41 42] (panic: %v)", order, got, perr), c)
			}
			b.Reset()
			if v != nil {
				rep.Violate("C07/reset-did-not-restore", fmt.Sprintf("%s: after Reset the variable still holds %#v, want nil", order, *(*[2]uintptr)(unsafe.Pointer(&v))), c)
			}
		}
	}
}
