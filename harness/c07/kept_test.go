//go:build go1.21

package c07

import (
	"fmt"
	"testing"
	"unsafe"

	mocker "github.com/tencent/goom"
	"github.com/tencent/goom/zzverif/vmon"
)

type keptSvc interface {
	Get(k string) int
	Put(k string, v int) int
}

// TestC07Kept: the user keeps the objects Interface(&v).Method(name) returned and goes on configuring through them after
// the builder's Reset, round after round: each round the variable is mocked again, every method reaches the replacement
// configured in THAT round, and Reset gives the variable its pre-mock words back.
func TestC07Kept(t *testing.T) {
	rep := vmon.NewReport("C07")
	defer rep.Write()
	for _, form := range []string{"As.Return", "Apply", "As.When.Return", "mixed"} {
		var v keptSvc
		b := mocker.Create()
		get := b.Interface(&v).Method("Get")
		put := b.Interface(&v).Method("Put")
		asGet := func(ctx *mocker.IContext, k string) int { return -1 }
		asPut := func(ctx *mocker.IContext, k string, x int) int { return -2 }
		for round := 1; round <= 4; round++ {
			round := round
			c := map[string]interface{}{"form": form, "round": round}
			rep.Journal(map[string]interface{}{"part": "kept", "form": form, "round": round, "crashkey": "C07/kept-handle-dies"})
			var perr interface{}
			func() {
				defer func() { perr = recover() }()
				f := form
				if form == "mixed" {
					f = []string{"As.Return", "Apply", "As.When.Return", "Apply"}[round-1]
				}
				switch f {
				case "As.Return":
					get.As(asGet).Return(100 + round)
					put.As(asPut).Return(200 + round)
				case "Apply":
					get.Apply(func(ctx *mocker.IContext, k string) int { return 100 + round })
					put.Apply(func(ctx *mocker.IContext, k string, x int) int { return 200 + round })
				case "As.When.Return":
					get.As(asGet).When("x").Return(100 + round)
					put.As(asPut).When("x", 1).Return(200 + round)
				}
			}()
			rep.Eval(1)
			if perr != nil {
				rep.Violate("C07/kept-handle-configuration-refused", fmt.Sprintf("%s, round %d: %v", form, round, perr), c)
				break
			}
			if *(*uintptr)(unsafe.Pointer(&v)) == 0 {
				rep.Violate("C07/kept-handle-not-mocked", fmt.Sprintf("%s, round %d: the variable is still nil after the configuration", form, round), c)
				break
			}
			var g, p int
			func() {
				defer func() { perr = recover() }()
				g, p = v.Get("x"), v.Put("x", 1)
			}()
			rep.Eval(2)
			if perr != nil {
				rep.Violate("C07/kept-handle-call-panics", fmt.Sprintf("%s, round %d: %v", form, round, perr), c)
			} else if g != 100+round || p != 200+round {
				rep.Violate("C07/kept-handle-stale-replacement", fmt.Sprintf("%s, round %d: Get = %d, Put = %d; this round configured %d and %d", form, round, g, p, 100+round, 200+round), c)
			}
			b.Reset()
			if w := *(*[2]uintptr)(unsafe.Pointer(&v)); w != [2]uintptr{} {
				rep.Violate("C07/not-restored", fmt.Sprintf("%s, round %d: variable words %#x after Reset, want nil", form, round, w), c)
				v = nil
			}
			rep.Class(fmt.Sprintf("kept/%s/round%d", form, round))
		}
	}
}
