//go:build go1.21

package c07

import (
	"fmt"
	"os"
	"reflect"
	"runtime"
	"runtime/debug"
	"strings"
	"testing"
	"unsafe"

	mocker "github.com/tencent/goom"
	asvc "github.com/tencent/goom/zzverif/c07/a/svc"
	bsvc "github.com/tencent/goom/zzverif/c07/b/svc"
	"github.com/tencent/goom/zzverif/c07/ia"
	"github.com/tencent/goom/zzverif/vmon"
)

func words(p interface{}) [2]uintptr {
	// p is a pointer to an interface variable
	return *(*[2]uintptr)((*[2]unsafe.Pointer)(unsafe.Pointer(&p))[1])
}

// slotTarget decodes the object address embedded in the stub of method slot i of the (fake) itab
//
//go:nocheckptr
func slotTarget(w [2]uintptr, i int) (stub uintptr, obj uintptr, ok bool) {
	if w[0] == 0 {
		return 0, 0, false
	}
	stub = *(*uintptr)(unsafe.Pointer(w[0] + 24 + uintptr(8*i)))
	j := vmon.DecodeJumpBytes(vmon.ReadMem(stub, 13), stub, false)
	if j.Kind != vmon.JumpStub {
		return stub, 0, false
	}
	return stub, j.Ctx, true
}

func subsets(n, maxSize int) [][]int {
	var out [][]int
	for mask := 1; mask < 1<<uint(n); mask++ {
		var s []int
		for i := 0; i < n; i++ {
			if mask&(1<<uint(i)) != 0 {
				s = append(s, i)
			}
		}
		if len(s) <= maxSize || len(s) == n {
			out = append(out, s)
		}
	}
	return out
}

type world struct {
	rep *vmon.Report
	gc  *vmon.GCMon
}

// checkCalls verifies every method of variable v of iface f
func (w *world) checkCalls(f *ia.Iface, v int, mocked map[int]struct {
	mode string
	tag  int
}, phase string, c map[string]interface{}) bool {
	ok := true
	for m := range f.Methods {
		ia.LastArgs = "<unset>"
		res, pan := f.Call(v, m)
		w.rep.Eval(1)
		if mk, is := mocked[m]; is {
			wantRes, wantArgs := f.Expect(m, mk.tag)
			if pan != "" || res != wantRes {
				ok = false
				w.rep.Violate("C07/mocked-method-wrong", fmt.Sprintf("%s.%s (slot %d of %d, %s) [%s]: got %q (panic %q), want %q", f.Name, f.Methods[m], m, len(f.Methods), mk.mode, phase, res, firstLine(pan), wantRes), c)
			} else if mk.mode == "Apply" && ia.LastArgs != wantArgs {
				ok = false
				w.rep.Violate("C07/replacement-saw-wrong-arguments", fmt.Sprintf("%s.%s [%s]: callback saw %q, caller passed %q", f.Name, f.Methods[m], phase, ia.LastArgs, wantArgs), c)
			}
		} else {
			if !strings.Contains(pan, "method not implements") {
				ok = false
				w.rep.Violate("C07/unmocked-method-did-not-panic-properly", fmt.Sprintf("%s.%s (slot %d, not mocked) [%s]: result %q panic %q, want a 'method not implements' panic", f.Name, f.Methods[m], m, phase, res, firstLine(pan)), c)
			}
		}
	}
	return ok
}

func firstLine(s string) string {
	if i := strings.IndexByte(s, '\n'); i >= 0 {
		s = s[:i]
	}
	if len(s) > 140 {
		s = s[:140]
	}
	return s
}

func TestC07(t *testing.T) {
	rep := vmon.NewReport("C07")
	defer rep.Write()
	shard, nshards := vmon.Shard()
	rng := vmon.NewRng(vmon.Seed(), uint64(700+shard))
	w := &world{rep: rep, gc: vmon.NewGCMon()}
	if os.Getenv("VERIF_C07_DEBUG") == "1" {
		// every replacement behind goom's logging wrapper: the same rules hold
		mocker.OpenDebug()
		defer mocker.CloseDebug()
		rep.Class("debug-logging")
	}
	if shard%2 == 1 {
		// garbage collections at arbitrary points of every history
		stopGC := make(chan struct{})
		defer close(stopGC)
		go func() {
			for {
				select {
				case <-stopGC:
					return
				default:
					runtime.GC()
					vmon.Churn(200)
				}
			}
		}()
		rep.Class("background-collections")
	}
	caseNo := 0
	for fi := range ia.Ifaces {
		f := &ia.Ifaces[fi]
		n := len(f.Methods)
		for _, sub := range subsets(n, 3) {
			for v := 0; v < 2; v++ {
				caseNo++
				if caseNo%nshards != shard {
					continue
				}
				f.ResetVars()
				saved := [2][2]uintptr{words(f.Vars[0]), words(f.Vars[1])}
				b := mocker.Create()
				mocked := map[int]struct {
					mode string
					tag  int
				}{}
				c := map[string]interface{}{"iface": f.Name, "methods": f.Methods, "mocked_slots": sub, "variable": v}
				rep.Journal(c)
				var perr interface{}
				// no collection between installing a stub and arming the monitor on the object it embeds:
				// converting the address of an already freed object into a pointer would crash the collector
				gcPercent := debug.SetGCPercent(-1)
				func() {
					defer func() { perr = recover() }()
					for _, m := range sub {
						mode := "Apply"
						if rng.Bool() {
							mode = "Return"
						}
						tag := 1 + rng.Intn(50)
						f.Install(b, v, m, mode, tag)
						mocked[m] = struct {
							mode string
							tag  int
						}{mode, tag}
					}
				}()
				rep.Class(fmt.Sprintf("iface-methods%d/mocked%d/var%d", n, len(sub), v))
				armed := 0
				var objs []uintptr
				if perr == nil && caseNo%2 == 1 {
					cur0 := words(f.Vars[v])
					for m := range mocked {
						if _, obj, ok := slotTarget(cur0, m); ok {
							if w.gc.Arm(obj, fmt.Sprintf("%s.%s slot %d (%s)", f.Name, f.Methods[m], m, mocked[m].mode)) {
								armed++
								objs = append(objs, obj)
							}
						} else {
							rep.Violate("C07/stub-malformed", fmt.Sprintf("%s slot %d does not hold a well-formed stub", f.Name, m), c)
						}
					}
				}
				debug.SetGCPercent(gcPercent)
				if perr != nil {
					rep.Violate("C07/mock-rejected", fmt.Sprintf("%s: mocking slots %v panicked: %v", f.Name, sub, perr), c)
					func() { defer func() { recover() }(); b.Reset() }()
					continue
				}
				cur := words(f.Vars[v])
				if cur[0] == 0 {
					rep.Violate("C07/variable-nil-after-mock", fmt.Sprintf("%s variable %d is nil after mocking %v", f.Name, v, sub), c)
					b.Reset()
					continue
				}
				if o := words(f.Vars[1-v]); o != saved[1-v] {
					rep.Violate("C07/other-variable-touched", fmt.Sprintf("%s: mocking variable %d changed variable %d", f.Name, v, 1-v), c)
				}
				if !w.checkCalls(f, v, mocked, "mocked", c) {
					b.Reset()
					continue
				}
				if caseNo%2 == 0 {
					// variant A: Reset puts back the value the variable held before
					var kept reflect.Value
					if caseNo%4 == 2 {
						// ... while a copy of the mocked value taken earlier lives on in another variable
						kept = reflect.New(reflect.TypeOf(f.Vars[v]).Elem()).Elem()
						kept.Set(reflect.ValueOf(f.Vars[v]).Elem())
					}
					b.Reset()
					rep.Eval(1)
					if got := words(f.Vars[v]); got != saved[v] {
						rep.Violate("C07/reset-did-not-restore", fmt.Sprintf("%s variable %d: words %#x after Reset, %#x before the mock", f.Name, v, got, saved[v]), c)
					}
					if kept.IsValid() {
						b = nil
						vmon.Churn(2000)
						fired, _ := w.gc.Collect()
						if len(fired) > 0 {
							rep.Violate("C07/stub-target-collected", fmt.Sprintf("%s: after Reset, with a copy of the mocked interface value still held by another variable, the collector freed %v which that copy dispatches to", f.Name, fired), c)
						} else {
							// calling through the copy must not take the process down (what a cancelled configuration
							// answers is not settled by the statement: a panic from goom is fine, a wild jump is not)
							reflect.ValueOf(f.Vars[v]).Elem().Set(kept)
							vmon.Churn(2000)
							runtime.GC()
							rep.Journal(map[string]interface{}{"part": "copy kept across Reset", "iface": f.Name, "crashkey": "C07/stale-copy-call-crashed"})
							rep.JournalSync()
							for m := range f.Methods {
								f.Call(v, m)
								rep.Eval(1)
							}
							rep.Journal(map[string]interface{}{"part": "after copy kept across Reset"})
						}
						for _, o := range objs {
							w.gc.Disarm(o)
						}
						f.ResetVars()
						rep.Stat("copies_kept_across_reset", 1)
					}
					continue
				}
				// variant B: drop the builder, collect garbage, call again
				rep.Stat("gc_monitors_armed", int64(armed))
				b = nil
				vmon.Churn(2000)
				fired, ok := w.gc.Collect()
				rep.Stat("gc_collect_rounds", 1)
				if !ok {
					rep.Stat("gc_collect_inconclusive", 1)
				}
				stillInstalled := words(f.Vars[v]) == cur
				if len(fired) > 0 && stillInstalled {
					rep.Violate("C07/stub-target-collected", fmt.Sprintf("%s: builder dropped, GC ran: the collector freed %v while the variable still dispatches to them", f.Name, fired), c)
				} else {
					vmon.Churn(3000)
					runtime.GC()
					w.checkCalls(f, v, mocked, "after-builder-dropped-and-GC", c)
				}
				for _, o := range objs {
					w.gc.Disarm(o)
				}
				f.ResetVars()
			}
		}
		// histories on one variable: re-apply a method with another closure of the same literal; work through a
		// CachedInterfaceMocker the user kept across Reset; every step checked
		if fi%nshards == shard {
			f.ResetVars()
			for v := 0; v < 2; v++ {
				saved := words(f.Vars[v])
				b := mocker.Create()
				c := map[string]interface{}{"iface": f.Name, "variable": v, "scenario": "re-apply / kept handle across Reset"}
				m0 := len(f.Methods) - 1
				type mk = struct {
					mode string
					tag  int
				}
				step := func(name string, fn func()) bool {
					var perr interface{}
					func() {
						defer func() { perr = recover() }()
						fn()
					}()
					rep.Eval(1)
					if perr != nil {
						rep.Violate("C07/history-step-panicked", fmt.Sprintf("%s: %s panicked: %v", f.Name, name, perr), c)
						return false
					}
					return true
				}
				h := f.Handle(b, v)
				ok := step("Apply(tag 5)", func() { f.InstallOn(h, m0, "Apply", 5) }) &&
					w.checkCalls(f, v, map[int]mk{m0: {"Apply", 5}}, "first apply", c) &&
					step("Apply(tag 6) again, closure of the same literal", func() { f.InstallOn(h, m0, "Apply", 6) }) &&
					w.checkCalls(f, v, map[int]mk{m0: {"Apply", 6}}, "re-apply with another closure of the same literal", c) &&
					step("Return(tag 7) after Apply", func() { f.InstallOn(h, m0, "Return", 7) }) &&
					w.checkCalls(f, v, map[int]mk{m0: {"Return", 7}}, "Return after Apply", c) &&
					step("Reset", func() { b.Reset() })
				if ok {
					if got := words(f.Vars[v]); got != saved {
						ok = false
						rep.Violate("C07/reset-did-not-restore", fmt.Sprintf("%s variable %d: words %#x after Reset, %#x before the mock", f.Name, v, got, saved), c)
					}
				}
				// second life through the SAME handle object
				ok = ok && step("Apply(tag 8) through the handle kept from before the Reset", func() { f.InstallOn(h, m0, "Apply", 8) }) &&
					w.checkCalls(f, v, map[int]mk{m0: {"Apply", 8}}, "apply through a kept handle after Reset", c) &&
					step("second Reset", func() { b.Reset() })
				if ok {
					if got := words(f.Vars[v]); got != saved {
						rep.Violate("C07/reset-did-not-restore", fmt.Sprintf("%s variable %d: after apply through a kept handle and a second Reset the words are %#x, before the first mock %#x", f.Name, v, got, saved), c)
					}
				}
				rep.Class(fmt.Sprintf("history/re-apply+kept-handle/var%d", v))
				func() { defer func() { recover() }(); b.Reset() }()
				f.ResetVars()
			}
		}
		// the program overwrites the variable between two mocks through one builder: after the second mock the variable
		// holds the mock again and both methods reach their replacements
		if fi%nshards == shard && len(f.Methods) >= 2 {
			for v := 0; v < 2; v++ {
				f.ResetVars()
				saved := words(f.Vars[v])
				b := mocker.Create()
				c := map[string]interface{}{"iface": f.Name, "variable": v, "scenario": "variable overwritten by the program between two mocks"}
				type mk = struct {
					mode string
					tag  int
				}
				m0, m1 := 0, len(f.Methods)-1
				var perr interface{}
				func() {
					defer func() { perr = recover() }()
					f.Install(b, v, m0, "Apply", 5)
				}()
				ok := perr == nil && w.checkCalls(f, v, map[int]mk{m0: {"Apply", 5}}, "first mock", c)
				if ok {
					f.ResetVars() // the program's own assignment: the variable is nil / the real implementation again
					func() {
						defer func() { perr = recover() }()
						f.Install(b, v, m1, "Return", 6)
					}()
					rep.Eval(1)
					if perr != nil {
						rep.Violate("C07/history-step-panicked", fmt.Sprintf("%s: mocking a second method after the program overwrote the variable panicked: %v", f.Name, perr), c)
					} else if words(f.Vars[v]) == saved {
						rep.Violate("C07/variable-not-mocked", fmt.Sprintf("%s variable %d: after mocking %s the variable still holds what the program assigned (words %#x), not the mock", f.Name, v, f.Methods[m1], saved), c)
					} else {
						w.checkCalls(f, v, map[int]mk{m0: {"Apply", 5}, m1: {"Return", 6}}, "second mock after the program overwrote the variable", c)
					}
				}
				func() { defer func() { recover() }(); b.Reset() }()
				rep.Class(fmt.Sprintf("history/overwritten-between-mocks/var%d", v))
			}
			f.ResetVars()
		}
		// the value the variable held before the mock is a heap object nothing else refers to: it survives every
		// collection while the mock is in place (goom must keep it reachable) and is back, intact, after Reset
		if fi%nshards == shard {
			for v := 0; v < 2; v++ {
				f.ResetVars()
				tag := 500 + fi*10 + v
				addr := f.SetHeap(v, tag)
				saved := words(f.Vars[v])
				c := map[string]interface{}{"iface": f.Name, "variable": v, "scenario": "previous value is a heap object referenced by the variable only"}
				armed := w.gc.Arm(addr, fmt.Sprintf("%s/previous-value/var%d", f.Name, v))
				b := mocker.Create()
				var perr interface{}
				func() {
					defer func() { perr = recover() }()
					f.Install(b, v, len(f.Methods)-1, "Return", 9)
				}()
				rep.Eval(1)
				if perr != nil {
					rep.Violate("C07/history-step-panicked", fmt.Sprintf("%s: mocking a variable that holds a heap implementation panicked: %v", f.Name, perr), c)
				} else {
					vmon.Churn(2000)
					fired, _ := w.gc.Collect()
					vmon.Churn(2000)
					for _, l := range fired {
						if strings.Contains(l, "/previous-value/") {
							rep.Violate("C07/previous-value-collected-while-mocked", fmt.Sprintf("%s variable %d: the object the variable held before the mock was freed by the collector while the mock was in place (%s): Reset has nothing to put back", f.Name, v, l), c)
						}
					}
					func() { defer func() { perr = recover() }(); b.Reset() }()
					if perr != nil {
						rep.Violate("C07/history-step-panicked", fmt.Sprintf("%s: Reset panicked: %v", f.Name, perr), c)
					} else if got := words(f.Vars[v]); got != saved {
						rep.Violate("C07/reset-did-not-restore", fmt.Sprintf("%s variable %d: words %#x after Reset, %#x before the mock", f.Name, v, got, saved), c)
					} else if len(fired) == 0 {
						if tg, ok := f.HeapTag(v); !ok || tg != 2*tag+3 {
							rep.Violate("C07/reset-did-not-restore", fmt.Sprintf("%s variable %d: the restored value reads tag %d (ok=%v), want %d", f.Name, v, tg, ok, 2*tag+3), c)
						}
					}
				}
				if armed {
					w.gc.Disarm(addr)
					rep.Stat("previous_value_monitors_armed", 1)
				}
				func() { defer func() { recover() }(); b.Reset() }()
				rep.Class(fmt.Sprintf("history/previous-heap-value/var%d", v))
			}
			f.ResetVars()
		}
		// two variables of the same type in one builder
		if fi%nshards == shard {
			f.ResetVars()
			b := mocker.Create()
			c := map[string]interface{}{"iface": f.Name, "scenario": "two variables of the same interface type in one builder"}
			var perr interface{}
			func() {
				defer func() { perr = recover() }()
				f.Install(b, 0, 0, "Return", 3)
				f.Install(b, 1, 0, "Return", 4)
			}()
			rep.Eval(1)
			rep.Class("two-variables-same-type")
			w0, w1 := words(f.Vars[0]), words(f.Vars[1])
			r0, p0 := "", ""
			r1, p1 := "", ""
			if w0[0] != 0 {
				r0, p0 = f.Call(0, 0)
			}
			if w1[0] != 0 {
				r1, p1 = f.Call(1, 0)
			}
			e0, _ := f.Expect(0, 3)
			e1, _ := f.Expect(0, 4)
			if perr != nil || w0[0] == 0 || w1[0] == 0 || r0 != e0 || r1 != e1 || p0 != "" || p1 != "" {
				rep.Violate("C07/same-type-second-variable", fmt.Sprintf("%s: one builder mocks variables V0 (tag 3) and V1 (tag 4) of the same interface type: V0 nil=%v -> %q (%s), V1 nil=%v -> %q (%s); want %q and %q (panic %v)",
					f.Name, w0[0] == 0, r0, firstLine(p0), w1[0] == 0, r1, firstLine(p1), e0, e1, perr), c)
			}
			func() { defer func() { recover() }(); b.Reset() }()
			f.ResetVars()
		}
		if fi < 2 {
			rep.Sample(map[string]interface{}{"iface": f.Name, "methods": f.Methods, "signatures": f.Sigs, "subsets_tried": len(subsets(n, 3))})
		}
	}
	// same-named interface types from different directories in one builder
	if shard == 0 {
		b := mocker.Create()
		var perr interface{}
		func() {
			defer func() { perr = recover() }()
			b.Interface(&asvc.V).Method("Do").As(func(ctx *mocker.IContext, a int) int { return 0 }).Return(1)
			b.Interface(&bsvc.V).Method("Do").As(func(ctx *mocker.IContext, a int) int { return 0 }).Return(2)
		}()
		rep.Eval(1)
		rep.Class("same-named-interface-types")
		ra, rb := -1, -1
		func() {
			defer func() { recover() }()
			ra = asvc.V.Do(1)
		}()
		func() {
			defer func() { recover() }()
			rb = bsvc.V.Do(1)
		}()
		if perr != nil || ra != 1 || rb != 2 {
			rep.Violate("C07/same-type-second-variable", fmt.Sprintf("a/svc.V.Do=%d (want 1), b/svc.V.Do=%d (want 2), panic %v: variables of same-named interface types in one builder", ra, rb, perr), nil)
		}
		// the two same-named types have the methods at different table positions: the un-mocked ones of b/svc panic
		// properly, another of its methods can be mocked as well
		if perr == nil {
			for _, un := range []func(){func() { bsvc.V.Alpha() }, func() { bsvc.V.Echo("x") }, func() { bsvc.V.Name() }, func() { asvc.V.Name() }} {
				var p interface{}
				func() { defer func() { p = recover() }(); un() }()
				rep.Eval(1)
				if p == nil || !strings.Contains(fmt.Sprint(p), "not implements") {
					rep.Violate("C07/unmocked-method-did-not-panic-properly", fmt.Sprintf("an un-mocked method of a same-named interface type: panic %v, want 'method not implements'", p), nil)
				}
			}
			var p2 interface{}
			func() {
				defer func() { p2 = recover() }()
				b.Interface(&bsvc.V).Method("Name").As(func(ctx *mocker.IContext) string { return "" }).Return("bn")
				b.Interface(&asvc.V).Method("Name").As(func(ctx *mocker.IContext) string { return "" }).Return("an")
			}()
			an, bn := "", ""
			func() { defer func() { recover() }(); an = asvc.V.Name() }()
			func() { defer func() { recover() }(); bn = bsvc.V.Name() }()
			rep.Eval(2)
			if p2 != nil || an != "an" || bn != "bn" || asvc.V.Do(1) != 1 || bsvc.V.Do(1) != 2 {
				rep.Violate("C07/same-type-second-variable", fmt.Sprintf("Name mocked on both same-named types: a -> %q, b -> %q (want an, bn), panic %v", an, bn, p2), nil)
			}
		}
		func() { defer func() { recover() }(); b.Reset() }()
		asvc.V, bsvc.V = nil, nil
	}
}
