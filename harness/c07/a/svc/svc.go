//go:build go1.21

package svc

type Service interface {
	Name() string
	Do(a int) int
}

var V Service
