//go:build go1.21

package c07

import (
	"fmt"
	"runtime"
	"strings"
	"testing"

	mocker "github.com/tencent/goom"
	"github.com/tencent/goom/zzverif/vmon"
)

// Big has 130 methods: positions far beyond the first hundred slots of a method table.
type Big interface {
	M000(a int) int
	M001(a int) int
	M002(a int) int
	M003(a int) int
	M004(a int) int
	M005(a int) int
	M006(a int) int
	M007(a int) int
	M008(a int) int
	M009(a int) int
	M010(a int) int
	M011(a int) int
	M012(a int) int
	M013(a int) int
	M014(a int) int
	M015(a int) int
	M016(a int) int
	M017(a int) int
	M018(a int) int
	M019(a int) int
	M020(a int) int
	M021(a int) int
	M022(a int) int
	M023(a int) int
	M024(a int) int
	M025(a int) int
	M026(a int) int
	M027(a int) int
	M028(a int) int
	M029(a int) int
	M030(a int) int
	M031(a int) int
	M032(a int) int
	M033(a int) int
	M034(a int) int
	M035(a int) int
	M036(a int) int
	M037(a int) int
	M038(a int) int
	M039(a int) int
	M040(a int) int
	M041(a int) int
	M042(a int) int
	M043(a int) int
	M044(a int) int
	M045(a int) int
	M046(a int) int
	M047(a int) int
	M048(a int) int
	M049(a int) int
	M050(a int) int
	M051(a int) int
	M052(a int) int
	M053(a int) int
	M054(a int) int
	M055(a int) int
	M056(a int) int
	M057(a int) int
	M058(a int) int
	M059(a int) int
	M060(a int) int
	M061(a int) int
	M062(a int) int
	M063(a int) int
	M064(a int) int
	M065(a int) int
	M066(a int) int
	M067(a int) int
	M068(a int) int
	M069(a int) int
	M070(a int) int
	M071(a int) int
	M072(a int) int
	M073(a int) int
	M074(a int) int
	M075(a int) int
	M076(a int) int
	M077(a int) int
	M078(a int) int
	M079(a int) int
	M080(a int) int
	M081(a int) int
	M082(a int) int
	M083(a int) int
	M084(a int) int
	M085(a int) int
	M086(a int) int
	M087(a int) int
	M088(a int) int
	M089(a int) int
	M090(a int) int
	M091(a int) int
	M092(a int) int
	M093(a int) int
	M094(a int) int
	M095(a int) int
	M096(a int) int
	M097(a int) int
	M098(a int) int
	M099(a int) int
	M100(a int) int
	M101(a int) int
	M102(a int) int
	M103(a int) int
	M104(a int) int
	M105(a int) int
	M106(a int) int
	M107(a int) int
	M108(a int) int
	M109(a int) int
	M110(a int) int
	M111(a int) int
	M112(a int) int
	M113(a int) int
	M114(a int) int
	M115(a int) int
	M116(a int) int
	M117(a int) int
	M118(a int) int
	M119(a int) int
	M120(a int) int
	M121(a int) int
	M122(a int) int
	M123(a int) int
	M124(a int) int
	M125(a int) int
	M126(a int) int
	M127(a int) int
	M128(a int) int
	M129(a int) int
}

var bigVar Big

func bigCall(i, a int) (r int, pan string) {
	defer func() {
		if x := recover(); x != nil {
			pan = fmt.Sprint(x)
		}
	}()
	switch i {
	case 0:
		return bigVar.M000(a), ""
	case 1:
		return bigVar.M001(a), ""
	case 2:
		return bigVar.M002(a), ""
	case 3:
		return bigVar.M003(a), ""
	case 4:
		return bigVar.M004(a), ""
	case 5:
		return bigVar.M005(a), ""
	case 6:
		return bigVar.M006(a), ""
	case 7:
		return bigVar.M007(a), ""
	case 8:
		return bigVar.M008(a), ""
	case 9:
		return bigVar.M009(a), ""
	case 10:
		return bigVar.M010(a), ""
	case 11:
		return bigVar.M011(a), ""
	case 12:
		return bigVar.M012(a), ""
	case 13:
		return bigVar.M013(a), ""
	case 14:
		return bigVar.M014(a), ""
	case 15:
		return bigVar.M015(a), ""
	case 16:
		return bigVar.M016(a), ""
	case 17:
		return bigVar.M017(a), ""
	case 18:
		return bigVar.M018(a), ""
	case 19:
		return bigVar.M019(a), ""
	case 20:
		return bigVar.M020(a), ""
	case 21:
		return bigVar.M021(a), ""
	case 22:
		return bigVar.M022(a), ""
	case 23:
		return bigVar.M023(a), ""
	case 24:
		return bigVar.M024(a), ""
	case 25:
		return bigVar.M025(a), ""
	case 26:
		return bigVar.M026(a), ""
	case 27:
		return bigVar.M027(a), ""
	case 28:
		return bigVar.M028(a), ""
	case 29:
		return bigVar.M029(a), ""
	case 30:
		return bigVar.M030(a), ""
	case 31:
		return bigVar.M031(a), ""
	case 32:
		return bigVar.M032(a), ""
	case 33:
		return bigVar.M033(a), ""
	case 34:
		return bigVar.M034(a), ""
	case 35:
		return bigVar.M035(a), ""
	case 36:
		return bigVar.M036(a), ""
	case 37:
		return bigVar.M037(a), ""
	case 38:
		return bigVar.M038(a), ""
	case 39:
		return bigVar.M039(a), ""
	case 40:
		return bigVar.M040(a), ""
	case 41:
		return bigVar.M041(a), ""
	case 42:
		return bigVar.M042(a), ""
	case 43:
		return bigVar.M043(a), ""
	case 44:
		return bigVar.M044(a), ""
	case 45:
		return bigVar.M045(a), ""
	case 46:
		return bigVar.M046(a), ""
	case 47:
		return bigVar.M047(a), ""
	case 48:
		return bigVar.M048(a), ""
	case 49:
		return bigVar.M049(a), ""
	case 50:
		return bigVar.M050(a), ""
	case 51:
		return bigVar.M051(a), ""
	case 52:
		return bigVar.M052(a), ""
	case 53:
		return bigVar.M053(a), ""
	case 54:
		return bigVar.M054(a), ""
	case 55:
		return bigVar.M055(a), ""
	case 56:
		return bigVar.M056(a), ""
	case 57:
		return bigVar.M057(a), ""
	case 58:
		return bigVar.M058(a), ""
	case 59:
		return bigVar.M059(a), ""
	case 60:
		return bigVar.M060(a), ""
	case 61:
		return bigVar.M061(a), ""
	case 62:
		return bigVar.M062(a), ""
	case 63:
		return bigVar.M063(a), ""
	case 64:
		return bigVar.M064(a), ""
	case 65:
		return bigVar.M065(a), ""
	case 66:
		return bigVar.M066(a), ""
	case 67:
		return bigVar.M067(a), ""
	case 68:
		return bigVar.M068(a), ""
	case 69:
		return bigVar.M069(a), ""
	case 70:
		return bigVar.M070(a), ""
	case 71:
		return bigVar.M071(a), ""
	case 72:
		return bigVar.M072(a), ""
	case 73:
		return bigVar.M073(a), ""
	case 74:
		return bigVar.M074(a), ""
	case 75:
		return bigVar.M075(a), ""
	case 76:
		return bigVar.M076(a), ""
	case 77:
		return bigVar.M077(a), ""
	case 78:
		return bigVar.M078(a), ""
	case 79:
		return bigVar.M079(a), ""
	case 80:
		return bigVar.M080(a), ""
	case 81:
		return bigVar.M081(a), ""
	case 82:
		return bigVar.M082(a), ""
	case 83:
		return bigVar.M083(a), ""
	case 84:
		return bigVar.M084(a), ""
	case 85:
		return bigVar.M085(a), ""
	case 86:
		return bigVar.M086(a), ""
	case 87:
		return bigVar.M087(a), ""
	case 88:
		return bigVar.M088(a), ""
	case 89:
		return bigVar.M089(a), ""
	case 90:
		return bigVar.M090(a), ""
	case 91:
		return bigVar.M091(a), ""
	case 92:
		return bigVar.M092(a), ""
	case 93:
		return bigVar.M093(a), ""
	case 94:
		return bigVar.M094(a), ""
	case 95:
		return bigVar.M095(a), ""
	case 96:
		return bigVar.M096(a), ""
	case 97:
		return bigVar.M097(a), ""
	case 98:
		return bigVar.M098(a), ""
	case 99:
		return bigVar.M099(a), ""
	case 100:
		return bigVar.M100(a), ""
	case 101:
		return bigVar.M101(a), ""
	case 102:
		return bigVar.M102(a), ""
	case 103:
		return bigVar.M103(a), ""
	case 104:
		return bigVar.M104(a), ""
	case 105:
		return bigVar.M105(a), ""
	case 106:
		return bigVar.M106(a), ""
	case 107:
		return bigVar.M107(a), ""
	case 108:
		return bigVar.M108(a), ""
	case 109:
		return bigVar.M109(a), ""
	case 110:
		return bigVar.M110(a), ""
	case 111:
		return bigVar.M111(a), ""
	case 112:
		return bigVar.M112(a), ""
	case 113:
		return bigVar.M113(a), ""
	case 114:
		return bigVar.M114(a), ""
	case 115:
		return bigVar.M115(a), ""
	case 116:
		return bigVar.M116(a), ""
	case 117:
		return bigVar.M117(a), ""
	case 118:
		return bigVar.M118(a), ""
	case 119:
		return bigVar.M119(a), ""
	case 120:
		return bigVar.M120(a), ""
	case 121:
		return bigVar.M121(a), ""
	case 122:
		return bigVar.M122(a), ""
	case 123:
		return bigVar.M123(a), ""
	case 124:
		return bigVar.M124(a), ""
	case 125:
		return bigVar.M125(a), ""
	case 126:
		return bigVar.M126(a), ""
	case 127:
		return bigVar.M127(a), ""
	case 128:
		return bigVar.M128(a), ""
	case 129:
		return bigVar.M129(a), ""
	}
	return 0, "bad index"
}

// TestC07Big: an interface variable whose type has 130 methods; methods at low, middle and the highest positions are
// mocked (Apply and As().Return), every slot is called: mocked ones reach their replacement, the others panic with
// "method not implements"; Reset puts nil back.
func TestC07Big(t *testing.T) {
	rep := vmon.NewReport("C07")
	defer rep.Write()
	b := mocker.Create()
	mocked := map[int]int{}
	var perr interface{}
	func() {
		defer func() { perr = recover() }()
		for k, i := range []int{5, 98, 99, 100, 110, 129} {
			name := fmt.Sprintf("M%03d", i)
			v := 9000 + i
			if k%2 == 0 {
				b.Interface(&bigVar).Method(name).Apply(func(ctx *mocker.IContext, a int) int { return v + a })
			} else {
				b.Interface(&bigVar).Method(name).As(func(ctx *mocker.IContext, a int) int { return 0 }).Return(v + 1)
			}
			mocked[i] = v + 1
		}
	}()
	rep.Eval(1)
	rep.Class("big-interface/130-methods")
	if perr != nil {
		rep.Violate("C07/mock-rejected", fmt.Sprintf("mocking methods of a 130-method interface: %v", perr), nil)
		func() { defer func() { recover() }(); b.Reset() }()
		return
	}
	runtime.GC()
	for i := 0; i < 130; i++ {
		r, pan := bigCall(i, 1)
		rep.Eval(1)
		if want, ok := mocked[i]; ok {
			if pan != "" || r != want {
				rep.Violate("C07/mocked-method-wrong", fmt.Sprintf("Big.M%03d (position %d of 130): got %d (panic %q), want %d", i, i, r, pan, want), nil)
			}
		} else if !strings.Contains(pan, "not implements") {
			rep.Violate("C07/unmocked-method-did-not-panic-properly", fmt.Sprintf("Big.M%03d (position %d, not mocked): returned %d, panic %q", i, i, r, pan), nil)
		}
	}
	b.Reset()
	if bigVar != nil {
		rep.Violate("C07/reset-did-not-restore", "the 130-method variable is not nil after Reset", nil)
		bigVar = nil
	}
}
