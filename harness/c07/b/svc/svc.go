//go:build go1.21

package svc

// the method set differs from the one of the same-named type in the other svc package: Do and Name sit at other
// positions of the (sorted) method table
type Service interface {
	Name() string
	Do(a int) int
	Alpha() int
	Echo(s string) string
}

var V Service
