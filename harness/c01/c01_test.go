//go:build go1.21

package c01

import (
	"fmt"
	"os"
	"reflect"
	"runtime"
	"runtime/debug"
	"sort"
	"strings"
	"sync"
	"sync/atomic"
	"testing"
	"unsafe"

	mocker "github.com/tencent/goom"
	"github.com/tencent/goom/internal/bytecode/memory"
	"github.com/tencent/goom/zzverif/vmon"
)

// Case is one generated target (see gen/c01sig.py).
type Case struct {
	Name, Tag, ABIClass string
	Index               int
	NParams, NResults   int
	Variadic            bool
	NTuples             int
	Entry               func() uintptr
	OrigHits            func() int64
	InstallApply        func(b *mocker.Builder, st *CbState)
	InstallReturn       func(b *mocker.Builder)
	MockRes, OrigRes    func() string
	Run                 func(form string, tuple int) (args string, res string)
}

var Cases []*Case

// CbState is the heap state every replacement closure captures.
type CbState struct {
	Hits int64
	mu   sync.Mutex
	Last string
	pad  [4]uintptr
}

func (s *CbState) Record(enc string) { s.mu.Lock(); s.Last = enc; s.mu.Unlock() }
func (s *CbState) Reset() {
	atomic.StoreInt64(&s.Hits, 0)
	s.mu.Lock()
	s.Last = "<none>"
	s.mu.Unlock()
}

func encAll(vs ...interface{}) string {
	var sb strings.Builder
	for i, v := range vs {
		if i > 0 {
			sb.WriteByte('|')
		}
		sb.WriteString(vmon.Enc(v))
	}
	return sb.String()
}

func encValues(vs []reflect.Value) string {
	var sb strings.Builder
	for i, v := range vs {
		if i > 0 {
			sb.WriteByte('|')
		}
		if v.Kind() == reflect.Interface && v.IsNil() {
			sb.WriteString(vmon.Enc(nil))
		} else {
			sb.WriteString(vmon.Enc(v.Interface()))
		}
	}
	return sb.String()
}

var forms = []string{"direct", "fvBefore", "fvAfter", "callers", "defer", "go", "reflect"}

//go:noinline
func descend(d int, f func()) int {
	var pad [96]byte
	pad[d%96] = byte(d)
	if d == 0 {
		f()
		return int(pad[0])
	}
	return descend(d-1, f) + int(pad[d%96])
}

type outcome struct {
	args, res string
	pan       interface{}
}

func runCase(c *Case, form string, tuple int) (o outcome) {
	defer func() { o.pan = recover() }()
	o.args, o.res = c.Run(form, tuple)
	return
}

func short(s string) string {
	if len(s) > 300 {
		return s[:300] + "..."
	}
	return s
}

func TestC01(t *testing.T) {
	rep := vmon.NewReport("C01")
	defer rep.Write()
	shard, nshards := vmon.Shard()
	rounds := vmon.EnvInt("VERIF_C01_ROUNDS", 3)
	gc := vmon.NewGCMon()
	var ms runtime.MemStats
	runtime.ReadMemStats(&ms)
	gc0 := ms.NumGC
	sort.Slice(Cases, func(i, j int) bool { return Cases[i].Name < Cases[j].Name })
	rep.Stat("max:generated_signatures", int64(len(Cases)))
	for ci, c := range Cases {
		if ci%nshards != shard {
			continue
		}
		for _, mode := range []string{"Apply", "Return"} {
			b := mocker.Create()
			st := &CbState{}
			hits0 := c.OrigHits()
			info := map[string]interface{}{"target": c.Name, "params": c.NParams, "results": c.NResults, "variadic": c.Variadic, "abi": c.ABIClass, "mock": mode}
			rep.Journal(map[string]interface{}{"case": c.Name, "mode": mode, "crashkey": "C01/crash"})
			rep.JournalSync()
			var perr interface{}
			func() {
				defer func() { perr = recover() }()
				if mode == "Apply" {
					c.InstallApply(b, st)
				} else {
					c.InstallReturn(b)
				}
			}()
			if perr != nil {
				rep.Violate("C01/mock-rejected", fmt.Sprintf("%s (%s): %s rejected: %v", c.Name, c.ABIClass, mode, perr), info)
				func() { defer func() { recover() }(); b.Reset() }()
				continue
			}
			j := vmon.DecodeJumpAt(c.Entry())
			var armedObj uintptr
			if j.Kind != vmon.JumpEntry {
				rep.Violate("C01/entry-jump-missing", fmt.Sprintf("%s: bytes at the entry after %s are not the entry jump: % x", c.Name, mode, vmon.ReadMem(c.Entry(), 13)), info)
			} else if gc.Arm(j.Ctx, c.Name+"/"+mode) {
				armedObj = j.Ctx
				rep.Stat("gc_monitors_armed", 1)
			}
			bad := false
			for r := 0; r < rounds && !bad; r++ {
				regime := "plain"
				switch r % 3 {
				case 1:
					runtime.GC()
					vmon.Churn(1500)
					runtime.GC()
					regime = "after-GC"
				case 2:
					regime = "deep-stack"
				}
				for _, form := range forms {
					for tuple := 0; tuple < c.NTuples && !bad; tuple++ {
						st.Reset()
						var o outcome
						if regime == "deep-stack" {
							// fresh goroutine, recursion forces the stack to be copied while the call's arguments are live
							done := make(chan struct{})
							go func() {
								defer close(done)
								descend(40+tuple*37, func() { o = runCase(c, form, tuple) })
							}()
							<-done
						} else {
							o = runCase(c, form, tuple)
						}
						rep.Eval(1)
						ctx := map[string]interface{}{"target": c.Name, "abi": c.ABIClass, "mock": mode, "form": form, "tuple": tuple, "regime": regime}
						if o.pan != nil {
							bad = true
							rep.Violate("C01/call-panicked", fmt.Sprintf("%s via %s (%s, %s): %v", c.Name, form, mode, regime, o.pan), ctx)
							break
						}
						if h := c.OrigHits(); h != hits0 {
							bad = true
							rep.Violate("C01/original-body-ran", fmt.Sprintf("%s via %s (%s, %s): the original function body executed while mocked", c.Name, form, mode, regime), ctx)
							break
						}
						if mode == "Apply" {
							if h := atomic.LoadInt64(&st.Hits); h != 1 {
								bad = true
								rep.Violate("C01/replacement-not-run-exactly-once", fmt.Sprintf("%s via %s (%s): replacement ran %d times", c.Name, form, regime, h), ctx)
								break
							}
							if st.Last != o.args {
								bad = true
								ctx["caller_side"], ctx["replacement_side"] = short(o.args), short(st.Last)
								rep.Violate("C01/arguments-altered", fmt.Sprintf("%s via %s (%s): the replacement saw different argument values than the caller passed", c.Name, form, regime), ctx)
								break
							}
						}
						if o.res != "<discarded>" && o.res != c.MockRes() {
							bad = true
							ctx["caller_got"], ctx["replacement_returned"] = short(o.res), short(c.MockRes())
							rep.Violate("C01/results-altered", fmt.Sprintf("%s via %s (%s, %s): the caller received different results than the replacement returned", c.Name, form, mode, regime), ctx)
							break
						}
					}
					if bad {
						break
					}
				}
			}
			if !bad {
				fired, _ := gc.Collect()
				if len(fired) > 0 && vmon.DecodeJumpAt(c.Entry()).Kind == vmon.JumpEntry {
					rep.Violate("C01/replacement-collected", fmt.Sprintf("%s: the collector freed %v while the entry jump that embeds its address is installed", c.Name, fired), info)
				}
			}
			if armedObj != 0 {
				gc.Disarm(armedObj)
			}
			if !bad && mode == "Apply" {
				// applying again - a second value of the same function literal, i.e. the same code with another
				// captured state - makes that second value the replacement
				st2 := &CbState{}
				var rerr interface{}
				func() { defer func() { rerr = recover() }(); c.InstallApply(b, st2) }()
				if rerr != nil {
					rep.Violate("C01/mock-rejected", fmt.Sprintf("%s: second Apply rejected: %v", c.Name, rerr), info)
				} else {
					for fi, form := range []string{"direct", "fvAfter", "fvBefore"} {
						st.Reset()
						st2.Reset()
						o := runCase(c, form, fi)
						rep.Eval(1)
						h1, h2 := atomic.LoadInt64(&st.Hits), atomic.LoadInt64(&st2.Hits)
						if o.pan != nil || h1 != 0 || h2 != 1 || st2.Last != o.args || c.OrigHits() != hits0 {
							rep.Violate("C01/reapplied-replacement-not-run", fmt.Sprintf("%s via %s after a second Apply with another value of the same callback literal: panic %v, first callback ran %d times, second %d times (want 0 and 1)", c.Name, form, o.pan, h1, h2), info)
							break
						}
					}
					rep.Stat("reapplies_checked", 1)
					// a stubbed return given after the callbacks takes over: no callback runs any more
					var serr interface{}
					func() { defer func() { serr = recover() }(); c.InstallReturn(b) }()
					if serr != nil {
						rep.Violate("C01/mock-rejected", fmt.Sprintf("%s: Return after Apply rejected: %v", c.Name, serr), info)
					} else {
						st.Reset()
						st2.Reset()
						o := runCase(c, "direct", 1)
						rep.Eval(1)
						h1, h2 := atomic.LoadInt64(&st.Hits), atomic.LoadInt64(&st2.Hits)
						if o.pan != nil || h1 != 0 || h2 != 0 || c.OrigHits() != hits0 || (o.res != "<discarded>" && o.res != c.MockRes()) {
							rep.Violate("C01/stub-after-callback-not-in-effect", fmt.Sprintf("%s: after Return(...) following Apply: panic %v, callbacks ran %d and %d times (want 0), results %s want %s", c.Name, o.pan, h1, h2, short(o.res), short(c.MockRes())), info)
						}
					}
				}
			}
			b.Reset()
			// after reset the original runs again
			o := runCase(c, "direct", 0)
			rep.Eval(1)
			if o.pan != nil || c.OrigHits() != hits0+1 || o.res != c.OrigRes() {
				rep.Violate("C01/not-original-after-reset", fmt.Sprintf("%s: after Reset a direct call: panic %v, original hits +%d, results %s want %s", c.Name, o.pan, c.OrigHits()-hits0, short(o.res), short(c.OrigRes())), info)
			}
			rep.Class(c.ABIClass)
			rep.Stat("mocks_checked", 1)
		}
		if ci < 3 {
			a, r := c.Run("direct", 1)
			rep.Sample(map[string]interface{}{"target": c.Name, "abi": c.ABIClass, "args_encoding": short(a), "orig_results": short(r), "forms": forms})
		}
	}
	runtime.ReadMemStats(&ms)
	rep.Stat("gc_cycles_observed", int64(ms.NumGC-gc0))
}

// installDropped installs the mock with a builder nobody keeps: from here on only goom itself and the machine code
// refer to the replacement.
//
//go:noinline
func installDropped(c *Case, mode string, st *CbState) (perr interface{}) {
	defer func() { perr = recover() }()
	b := mocker.Create()
	if mode == "Apply" {
		c.InstallApply(b, st)
	} else {
		c.InstallReturn(b)
	}
	return nil
}

// TestC01DroppedBuilder: the mock must keep working across collections although the user dropped the builder.
func TestC01DroppedBuilder(t *testing.T) {
	rep := vmon.NewReport("C01")
	defer rep.Write()
	shard, nshards := vmon.Shard()
	img := vmon.SnapshotText()
	gc := vmon.NewGCMon()
	sort.Slice(Cases, func(i, j int) bool { return Cases[i].Name < Cases[j].Name })
	for ci, c := range Cases {
		if ci%nshards != shard || ci%3 != 0 {
			continue
		}
		for _, mode := range []string{"Apply", "Return"} {
			st := &CbState{}
			hits0 := c.OrigHits()
			info := map[string]interface{}{"target": c.Name, "abi": c.ABIClass, "mock": mode, "builder": "dropped"}
			rep.Journal(map[string]interface{}{"case": c.Name, "mode": mode, "dropped": true, "crashkey": "C01/crash"})
			gcp := debug.SetGCPercent(-1)
			perr := installDropped(c, mode, st)
			entry := c.Entry()
			var obj uintptr
			if perr == nil {
				if j := vmon.DecodeJumpAt(entry); j.Kind == vmon.JumpEntry && gc.Arm(j.Ctx, c.Name+"/"+mode+"/dropped") {
					obj = j.Ctx
					rep.Stat("gc_monitors_armed_dropped_builder", 1)
				}
			}
			debug.SetGCPercent(gcp)
			if perr != nil {
				rep.Violate("C01/mock-rejected", fmt.Sprintf("%s: %v", c.Name, perr), info)
				continue
			}
			runtime.GC()
			vmon.Churn(3000)
			fired, _ := gc.Collect()
			if len(fired) > 0 {
				rep.Violate("C01/replacement-collected", fmt.Sprintf("%s (%s): the builder was dropped and the collector freed %v while the entry jump that embeds its address is installed", c.Name, mode, fired), info)
			} else {
				vmon.Churn(3000)
				for _, form := range []string{"direct", "callers", "go"} {
					for tuple := 0; tuple < 2; tuple++ {
						st.Reset()
						o := runCase(c, form, tuple)
						rep.Eval(1)
						bad := o.pan != nil || c.OrigHits() != hits0 || (o.res != "<discarded>" && o.res != c.MockRes())
						if mode == "Apply" && !bad {
							bad = atomic.LoadInt64(&st.Hits) != 1 || st.Last != o.args
						}
						if bad {
							rep.Violate("C01/mock-lost-after-builder-dropped", fmt.Sprintf("%s via %s (%s): after the builder was dropped and collections ran: panic %v, original hits +%d, results %s", c.Name, form, mode, o.pan, c.OrigHits()-hits0, short(o.res)), info)
							break
						}
					}
				}
			}
			if obj != 0 {
				gc.Disarm(obj)
			}
			// no builder is left to reset with: put the pristine entry bytes back through goom's own writer
			memory.WriteTo(entry, img.Pristine(entry, 13))
			if o := runCase(c, "direct", 0); o.pan != nil || o.res != c.OrigRes() {
				rep.Violate("C01/harness-restore", fmt.Sprintf("%s not original after restoring the entry bytes: %v", c.Name, o.pan), info)
			}
			hits0 = c.OrigHits()
			rep.Class("dropped-builder/" + mode)
		}
	}
}

// ---- library call forms and pointers into a moving stack (hand-written)

type MT struct{ base int }

//go:noinline
func (m *MT) Price(a int) int { return m.base*100 + a }

//go:noinline
func (m *MT) Half(a int) int { return m.base*100 + a + 10 }

//go:noinline
func (m *MT) Hal(a int) int { return m.base*100 + a + 20 }

//go:noinline
func (m *MT) Printf(a int) int { return m.base*100 + a + 30 }

//go:noinline
func (m *MT) Print(a int) int { return m.base*100 + a + 40 }

//go:noinline
func (m *MT) Perform(a int) int { return m.base*100 + a + 50 }

//go:noinline
func (m *MT) Sum(a int) int { return m.base*100 + a + 60 }

//go:noinline
func Rot(r rune) rune { return r }

//go:noinline
func Less(i, j int) bool { return i < j }

//go:noinline
func OnceBody() { onceOrig++ }

var onceOrig int

//go:noinline
func Fill(p *int, q *[4]int64) int { *p = -1; return -1 }

func TestC01Library(t *testing.T) {
	rep := vmon.NewReport("C01")
	defer rep.Write()
	b := mocker.Create()
	// stdlib calling stdlib
	var seen string
	b.Func(os.Getenv).Apply(func(k string) string { seen = k; return "mocked-" + k })
	got := os.ExpandEnv("x=$VERIF_C01_KEY;")
	rep.Eval(1)
	rep.Class("library/os.ExpandEnv->os.Getenv")
	if got != "x=mocked-VERIF_C01_KEY;" || seen != "VERIF_C01_KEY" {
		rep.Violate("C01/library-call-not-diverted", fmt.Sprintf("os.ExpandEnv -> os.Getenv: got %q, replacement saw %q", got, seen), nil)
	}
	// library code calling a mocked function through a func value
	b.Func(Rot).Apply(func(r rune) rune { return r + 1 })
	rep.Eval(1)
	rep.Class("library/strings.Map")
	if s := strings.Map(Rot, "HAL"); s != "IBM" {
		rep.Violate("C01/library-call-not-diverted", fmt.Sprintf("strings.Map(Rot) = %q want IBM", s), nil)
	}
	b.Func(Less).Apply(func(i, j int) bool { return i > j })
	xs := []int{3, 1, 2}
	sort.Slice(xs, func(i, j int) bool { return Less(xs[i], xs[j]) })
	rep.Eval(1)
	rep.Class("library/sort.Slice")
	if fmt.Sprint(xs) != "[3 2 1]" {
		rep.Violate("C01/library-call-not-diverted", fmt.Sprintf("sort.Slice with mocked Less = %v", xs), nil)
	}
	ran := 0
	b.Func(OnceBody).Apply(func() { ran++ })
	var once sync.Once
	once.Do(OnceBody)
	once.Do(OnceBody)
	rep.Eval(1)
	rep.Class("library/sync.Once.Do")
	if ran != 1 || onceOrig != 0 {
		rep.Violate("C01/library-call-not-diverted", fmt.Sprintf("sync.Once.Do(OnceBody): replacement ran %d times, original %d", ran, onceOrig), nil)
	}
	// a method given to Func as a method value (documented form): every call form of the method must be diverted
	{
		mt, other := &MT{base: 1}, &MT{base: 2}
		b.Func(mt.Price).Return(4242)
		var iface interface{ Price(int) int } = other
		fv := other.Price
		viaGo := make(chan int, 1)
		go func() { viaGo <- other.Price(3) }()
		got := []int{mt.Price(1), other.Price(2), iface.Price(3), (*MT).Price(other, 4), fv(5), <-viaGo}
		deferred := 0
		func() {
			defer func() { deferred = other.Price(6) }()
		}()
		got = append(got, deferred)
		rep.Eval(int64(len(got)))
		rep.Class("method-value-target")
		for i, g := range got {
			if g != 4242 {
				rep.Violate("C01/method-value-target-not-diverted", fmt.Sprintf("Func(obj.Method).Return(4242): call form %d (direct, other instance, interface, method expression, method value, goroutine, deferred) returned %d: %v", i, g, got), nil)
				break
			}
		}
	}
	// method values whose names end in the letters of the "-fm" marker the toolchain appends to them, next to methods
	// named like their beginnings: exactly the method given is diverted
	{
		mt := &MT{base: 1}
		type mv struct {
			name string
			f    interface{}
		}
		all := func() [6]int {
			return [6]int{mt.Half(1), mt.Hal(1), mt.Printf(1), mt.Print(1), mt.Perform(1), mt.Sum(1)}
		}
		orig := all()
		for i, m := range []mv{{"Half", mt.Half}, {"Hal", mt.Hal}, {"Printf", mt.Printf}, {"Print", mt.Print}, {"Perform", mt.Perform}, {"Sum", mt.Sum}} {
			bm := mocker.Create()
			var perr interface{}
			func() { defer func() { perr = recover() }(); bm.Func(m.f).Return(7000 + i) }()
			got := all()
			want := orig
			want[i] = 7000 + i
			rep.Eval(1)
			if perr != nil || got != want {
				rep.Violate("C01/method-value-target-not-diverted", fmt.Sprintf("Func(obj.%s).Return(%d): panic %v; (Half, Hal, Printf, Print, Perform, Sum) = %v, want %v", m.name, 7000+i, perr, got, want), nil)
			}
			bm.Reset()
			if got := all(); got != orig {
				rep.Violate("C01/not-original-after-reset", fmt.Sprintf("after Reset of the mock of method value %s: %v, want %v", m.name, got, orig), nil)
			}
		}
		rep.Class("method-value-target/names-ending-in-f-or-m")
	}
	// pointers to stack variables as arguments while the stack is moved inside the replacement
	moved := 0
	b.Func(Fill).Apply(func(p *int, q *[4]int64) int {
		before := uintptr(unsafePtr(p))
		vmon.GrowStack(600) // copies this goroutine's stack: p and q must be adjusted
		if uintptr(unsafePtr(p)) != before {
			moved++
		}
		*p = 4242
		q[3] = 77
		runtime.GC()
		return 99
	})
	for i := 0; i < 280; i++ {
		done := make(chan [3]int64)
		go func() {
			// every stack depth: the stack is moved at different points of the diverted call
			descend(i, func() {
				var x int
				var arr [4]int64
				r := Fill(&x, &arr)
				done <- [3]int64{int64(r), int64(x), arr[3]}
			})
		}()
		r := <-done
		rep.Eval(1)
		if r != [3]int64{99, 4242, 77} {
			rep.Violate("C01/stack-pointer-argument", fmt.Sprintf("Fill(&x,&arr) on a fresh goroutine with the stack moved inside the replacement: (ret, x, arr[3]) = %v want [99 4242 77]", r), nil)
		}
	}
	rep.Stat("stack_moves_observed_inside_replacement", int64(moved))
	rep.Class("stack-pointer-arguments")
	b.Reset()
	if os.Getenv("VERIF_C01_NOPE") != "" || strings.Map(Rot, "a") != "a" || !Less(1, 2) || (&MT{base: 3}).Price(1) != 301 {
		rep.Violate("C01/not-original-after-reset", "library targets not original after Reset", nil)
	}
	rep.Sample(map[string]interface{}{"form": "os.ExpandEnv -> os.Getenv", "result": got})
}

// ---- instantiated generic functions as targets

//go:noinline
func GenNoParam[T any]() int { var z T; return int(unsafe.Sizeof(z)) + 1000 }

//go:noinline
func GenOneParam[T any](a int) int { var z T; return a + int(unsafe.Sizeof(z)) }

//go:noinline
func GenTyped[T any](x T, a int) int { return a + 7 }

// GenWide takes more arguments than fit into registers: the instantiation's wrapper spills and reloads them before it
// calls the shared body, which therefore lies far behind the wrapper's entry.
//
//go:noinline
func GenWide[T any](a, b, c, d, e, f, g, h, i, j, k, l int, s string, x T, fl float64) int {
	var z T
	return a + b + c + d + e + f + g + h + i + j + k + l + len(s) + int(unsafe.Sizeof(z)) + int(fl)
}

// GW is a generic type with a method of the same kind
type GW[T any] struct{ n int }

//go:noinline
func (w *GW[T]) Wide(a, b, c, d, e, f, g, h, i, j, k, l int, s string, x T, fl float64) int {
	return w.n + a + b + c + d + e + f + g + h + i + j + k + l + len(s) + int(fl)
}

// TestC01Generics: instantiations of generic functions are functions too. Return stubs, callbacks and the exact
// arguments; other instantiations stay original.
func TestC01Generics(t *testing.T) {
	rep := vmon.NewReport("C01")
	defer rep.Write()
	guard := func(f func()) (perr interface{}) {
		defer func() { perr = recover() }()
		f()
		return nil
	}
	// no parameters: Return and Apply
	{
		b := mocker.Create()
		perr := guard(func() { b.Func(GenNoParam[int]).Return(41); b.Func(GenNoParam[string]).Apply(func() int { return 42 }) })
		rep.Eval(2)
		rep.Class("generic-function/no-parameters")
		if got := [3]int{GenNoParam[int](), GenNoParam[string](), GenNoParam[[3]int64]()}; perr != nil || got != [3]int{41, 42, 1024} {
			rep.Violate("C01/generic-function-not-diverted", fmt.Sprintf("GenNoParam[int] Return(41), GenNoParam[string] Apply(->42), GenNoParam[[3]int64] untouched: got %v (panic %v), want [41 42 1024]", got, perr), nil)
		}
		b.Reset()
		if got := [2]int{GenNoParam[int](), GenNoParam[string]()}; got != [2]int{1008, 1016} {
			rep.Violate("C01/not-original-after-reset", fmt.Sprintf("generic instantiations after Reset: %v want [1008 1016]", got), nil)
		}
	}
	// many parameters (the wrapper is long): a Return stub diverts every form of call, the other instantiation stays
	{
		b := mocker.Create()
		gw := &GW[int]{n: 1}
		perr := guard(func() {
			b.Func(GenWide[int]).Return(4100)
			b.Struct(&GW[int]{}).Method("Wide").Return(4200)
		})
		rep.Eval(4)
		rep.Class("generic-function/many-parameters")
		var got [4]int
		if perr == nil {
			perr = guard(func() {
				f := GenWide[int]
				got = [4]int{GenWide[int](1, 2, 3, 4, 5, 6, 7, 8, 9, 10, 11, 12, "s", 5, 1.5), f(1, 2, 3, 4, 5, 6, 7, 8, 9, 10, 11, 12, "s", 5, 1.5),
					gw.Wide(1, 2, 3, 4, 5, 6, 7, 8, 9, 10, 11, 12, "s", 5, 1.5), GenWide[string](1, 2, 3, 4, 5, 6, 7, 8, 9, 10, 11, 12, "s", "x", 1.5)}
			})
		}
		if want := [4]int{4100, 4100, 4200, 78 + 1 + 16 + 1}; perr != nil || got != want {
			rep.Violate("C01/generic-function-not-diverted", fmt.Sprintf("GenWide[int] Return(4100) and (*GW[int]).Wide Return(4200), fifteen parameters each: direct call, function value, method call, untouched GenWide[string] = %v (panic %v), want %v", got, perr, want), nil)
		}
		func() { defer func() { recover() }(); b.Reset() }()
		if got := [2]int{GenWide[int](1, 2, 3, 4, 5, 6, 7, 8, 9, 10, 11, 12, "s", 5, 1.5), gw.Wide(1, 2, 3, 4, 5, 6, 7, 8, 9, 10, 11, 12, "s", 5, 1.5)}; got != [2]int{78 + 1 + 8 + 1, 1 + 78 + 1 + 1} {
			rep.Violate("C01/not-original-after-reset", fmt.Sprintf("GenWide[int], (*GW[int]).Wide after Reset: %v", got), nil)
		}
	}
	// with parameters: the callback sees the caller's arguments
	{
		b := mocker.Create()
		var seen int
		perr := guard(func() { b.Func(GenOneParam[int]).Apply(func(a int) int { seen = a; return -5 }) })
		var got int
		if perr == nil {
			perr = guard(func() { got = GenOneParam[int](31) })
		}
		rep.Eval(1)
		rep.Class("generic-function/with-parameters/Apply")
		if perr != nil || got != -5 || seen != 31 {
			rep.Violate("C01/generic-function-arguments-shifted", fmt.Sprintf("GenOneParam[int](31) with Apply(func(a int) int): result %d (want -5), the callback saw a = %#x (want 31), panic %v", got, seen, perr), map[string]interface{}{"target": "GenOneParam[int]", "mock": "Apply"})
		}
		func() { defer func() { recover() }(); b.Reset() }()
		b = mocker.Create()
		perr = guard(func() { b.Func(GenOneParam[int]).Return(-1).When(31).Return(310) })
		var g1, g2 int
		if perr == nil {
			perr = guard(func() { g1, g2 = GenOneParam[int](31), GenOneParam[int](32) })
		}
		rep.Eval(2)
		rep.Class("generic-function/with-parameters/When")
		if perr != nil || g1 != 310 || g2 != -1 {
			rep.Violate("C01/generic-function-arguments-shifted", fmt.Sprintf("GenOneParam[int] with Return(-1).When(31).Return(310): (31) -> %d, (32) -> %d, want 310 and -1 (panic %v): the condition is compared with something else than the caller's argument", g1, g2, perr), map[string]interface{}{"target": "GenOneParam[int]", "mock": "When"})
		}
		func() { defer func() { recover() }(); b.Reset() }()
		if got := GenOneParam[int](1); got != 9 {
			rep.Violate("C01/not-original-after-reset", fmt.Sprintf("GenOneParam[int](1) after Reset = %d want 9", got), nil)
		}
	}
}
