//go:build go1.21

package c01

import (
	"fmt"
	"sync"
	"testing"

	mocker "github.com/tencent/goom"
	"github.com/tencent/goom/arg"
	"github.com/tencent/goom/zzverif/vmon"
)

//go:noinline
func Rate(customer int, tag string) (int, string) { return -customer, tag + "?" }

type Desk struct{ id int }

//go:noinline
func (d *Desk) Quote(customer int) int { return -d.id - customer }

// TestC01Goroutines: callers on many goroutines inside one replacement at the same time, each with its own arguments:
// every caller receives the results configured for ITS arguments (conditional stubs, a default, a callback), whoever
// else is in the middle of the same replacement.
func TestC01Goroutines(t *testing.T) {
	rep := vmon.NewReport("C01")
	defer rep.Write()
	G := vmon.EnvInt("VERIF_C01_G", 12)
	per := vmon.EnvInt("VERIF_C01_PER", 4000)
	for _, form := range []string{"conditional stub on a function", "conditional stub on a method", "callback on a function"} {
		b := mocker.Create()
		switch form {
		case "conditional stub on a function":
			w := b.Func(Rate).Return(0, "default")
			for k := 1; k < G; k++ { // customer 0 has no condition: the default
				if k%3 == 0 {
					w = w.When(arg.In(k, 1000+k), arg.Any()).Return(100+k, fmt.Sprint("c", k))
				} else {
					w = w.When(k, arg.Any()).Return(100+k, fmt.Sprint("c", k))
				}
			}
		case "conditional stub on a method":
			w := b.Struct(&Desk{}).Method("Quote").Return(100)
			for k := 1; k < G; k++ {
				w = w.When(k).Return(100 + k)
			}
		case "callback on a function":
			b.Func(Rate).Apply(func(c int, tag string) (int, string) {
				if c == 0 {
					return 0, "default"
				}
				return 100 + c, fmt.Sprint("c", c)
			})
		}
		// receivers live on the heap: a stub entered through reflect.MakeFunc keeps pointer arguments that point into the
		// caller's frame in heap-allocated reflect.Values, which is the open finding C04/pointer-into-caller-stack (at
		// 60 000 calls per goroutine a collection meets one and the process dies); this test is about concurrent callers
		desks := make([]*Desk, G)
		for g := range desks {
			desks[g] = &Desk{id: g}
		}
		bar := vmon.NewSpinBarrier(G)
		var wg sync.WaitGroup
		bad := make([]string, G)
		for g := 0; g < G; g++ {
			wg.Add(1)
			go func(g int) {
				defer wg.Done()
				defer func() {
					if r := recover(); r != nil && bad[g] == "" {
						bad[g] = fmt.Sprintf("caller %d: panic %v", g, r)
					}
				}()
				d := desks[g]
				bar.Wait()
				for i := 0; i < per; i++ {
					if form == "conditional stub on a method" {
						if got := d.Quote(g); got != 100+g {
							bad[g] = fmt.Sprintf("caller %d, call %d: Quote(%d) = %d, want %d", g, i, g, got, 100+g)
							return
						}
						continue
					}
					n, s := Rate(g, "t")
					wn, ws := 100+g, fmt.Sprint("c", g)
					if g == 0 {
						wn, ws = 0, "default"
					}
					if n != wn || s != ws {
						bad[g] = fmt.Sprintf("caller %d, call %d: Rate(%d) = (%d, %q), want (%d, %q)", g, i, g, n, s, wn, ws)
						return
					}
				}
			}(g)
		}
		wg.Wait()
		b.Reset()
		rep.Eval(int64(G * per))
		rep.Class("goroutines/" + form)
		for _, m := range bad {
			if m != "" {
				rep.Violate("C01/concurrent-caller-got-other-results", fmt.Sprintf("%s, %d goroutines calling at once: %s", form, G, m), map[string]interface{}{"form": form})
				break
			}
		}
	}
	rep.Stat("concurrent_callers", int64(G))
}
