//go:build go1.21

package c01

import "unsafe"

func unsafePtr(p *int) unsafe.Pointer { return unsafe.Pointer(p) }
