//go:build go1.21

// Package callers calls the corpus targets from another package.
package callers

// Keep is referenced by generated code.
var Keep = 1
