//go:build go1.21

// Package corpus: hand-written part (types and heap values the generated targets use).
package corpus

import (
	"errors"
	"math"
	"strings"
)

type Small struct{ A, B int }
type Mixed struct {
	A int8
	F float64
	S string
}
type FPair struct{ X, Y float64 }
type Big struct {
	A [10]int64
	S string
}
type MyErr struct{ Code int }

func (e *MyErr) Error() string { return "myerr" }

type ValErr struct{ Code int }

func (e ValErr) Error() string { return "valerr" }

type Stringer interface{ String() string }
type Str string

func (s Str) String() string { return string(s) }

//go:noinline
func Fn1(a int) int { return a + 1 }

//go:noinline
func Fn2(a int) int { return a + 2 }

var (
	NaN32   = math.Float32frombits(0x7fc00123)
	NaN64   = math.Float64frombits(0x7ff8000000000123)
	NegZero = math.Copysign(0, -1)
	Str4K   = strings.Repeat("0123456789abcdef", 256)
	Bytes   = []byte("some heap bytes")
	Ints    = []int{10, 20, 30, 40}
	BigV    = Big{A: [10]int64{1, 2, 3, 4, 5, 6, 7, 8, 9, 10}, S: "big"}
	PS1     = &Small{A: 11, B: 12}
	PS2     = &Small{A: 21, B: 22}
	pint    = 99
	PInt    = &pint
	E1      = errors.New("e1")
	M1      = map[string]int{"a": 1}
	M2      = map[string]int{}
	C1      = make(chan int, 2)
)
