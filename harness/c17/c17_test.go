//go:build go1.21

package c17

import (
	"encoding/binary"
	"fmt"
	"sync"
	"sync/atomic"
	"testing"

	goom "github.com/tencent/goom/internal/arch/arm64asm"
	ref "github.com/tencent/goom/zzverif/ref/arm64asm"
	"github.com/tencent/goom/zzverif/vmon"
)

// excluded: the system-instruction encoding space, where goom's fork leaves
// DC/TLBI SYS operands undecoded on purpose.  Defined by encoding only.
func excluded(w uint32) bool { return w&0xFFC00000 == 0xD5000000 }

type result struct {
	words, decoded, undecodable, exclWords, pcrel int64
}

// checkRange runs both decoders over words produced by next(); a panic in
// goom's decoder or printer is caught per batch, recorded, and the walk
// resumes after the offending word.
func checkWord(w uint32, rep *vmon.Report, ops map[string]struct{}, res *result) {
	var buf [4]byte
	binary.LittleEndian.PutUint32(buf[:], w)
	gi, gerr := goom.Decode(buf[:])
	if gerr == nil {
		_ = gi.String()
	}
	res.words++
	ri, rerr := ref.Decode(buf[:])
	if excluded(w) {
		res.exclWords++
		return
	}
	if (gerr == nil) != (rerr == nil) {
		rep.Violate("C17/decodability-disagrees", fmt.Sprintf("word %#08x goom err=%v ref err=%v", w, gerr, rerr), map[string]interface{}{"word": w})
		return
	}
	if gerr != nil {
		res.undecodable++
		return
	}
	res.decoded++
	gop, rop := gi.Op.String(), ri.Op.String()
	if gop != rop {
		rep.Violate("C17/opcode-disagrees", fmt.Sprintf("word %#08x goom %s ref %s", w, gop, rop), map[string]interface{}{"word": w})
		return
	}
	if _, ok := ops[gop]; !ok {
		ops[gop] = struct{}{}
	}
	for i := 0; i < len(gi.Args); i++ {
		ga, ra := gi.Args[i], ri.Args[i]
		gp, gok := ga.(goom.PCRel)
		rp, rok := ra.(ref.PCRel)
		if gok || rok {
			res.pcrel++
			if gok != rok || int64(gp) != int64(rp) {
				rep.Violate("C17/pcrel-disagrees", fmt.Sprintf("word %#08x arg %d goom %v ref %v", w, i, ga, ra), map[string]interface{}{"word": w})
				return
			}
		}
		if (ga == nil) != (ra == nil) {
			rep.Violate("C17/arity-disagrees", fmt.Sprintf("word %#08x arg %d goom %v ref %v", w, i, ga, ra), map[string]interface{}{"word": w})
			return
		}
	}
}

// walk calls checkWord for start, start+stride, ... < end, surviving panics.
func walk(start, end, stride uint64, rep *vmon.Report, ops map[string]struct{}, res *result) {
	cur := start
	for cur < end {
		func() {
			defer func() {
				if r := recover(); r != nil {
					rep.Violate("C17/panic", fmt.Sprintf("word %#08x panicked: %v", uint32(cur), r), map[string]interface{}{"word": uint32(cur)})
					cur += stride
				}
			}()
			for cur < end {
				checkWord(uint32(cur), rep, ops, res)
				cur += stride
			}
		}()
	}
}

func TestC17(t *testing.T) {
	rep := vmon.NewReport("C17")
	defer rep.Write()
	shard, nshards := vmon.Shard()
	seed := vmon.Seed()
	workers := vmon.EnvInt("VERIF_WORKERS", 16)

	type job struct{ start, end, stride uint64 }
	var jobs []job
	const total = uint64(1) << 32
	if vmon.Thorough() {
		// exhaustive: this shard's contiguous slice of the 2^32 words.
		lo := total / uint64(nshards) * uint64(shard)
		hi := total / uint64(nshards) * uint64(shard+1)
		if shard == nshards-1 {
			hi = total
		}
		chunk := (hi - lo + uint64(workers*8) - 1) / uint64(workers*8)
		for s := lo; s < hi; s += chunk {
			e := s + chunk
			if e > hi {
				e = hi
			}
			jobs = append(jobs, job{s, e, 1})
		}
		rep.Note("mode", "exhaustive slice")
	} else {
		// strided over everything (offset from the seed) + branch/address classes densely.
		off := seed % 1021
		per := total / uint64(workers*4)
		for s := uint64(0); s < total; s += per {
			first := s + (1021-(s%1021)+off)%1021
			jobs = append(jobs, job{first, s + per, 1021})
		}
		tops := []uint32{0x14, 0x15, 0x16, 0x17, 0x94, 0x95, 0x96, 0x97, 0x54, 0x34, 0x35, 0xB4, 0xB5, 0x36, 0x37, 0xB6, 0xB7,
			0x10, 0x30, 0x50, 0x70, 0x90, 0xB0, 0xD0, 0xF0, 0xD4, 0xD5, 0xD6}
		for _, tb := range tops {
			s := uint64(tb) << 24
			jobs = append(jobs, job{s + (seed*31)%257, s + (1 << 24), 257})
		}
		rep.Note("mode", fmt.Sprintf("stride 1021 offset %d over 2^32 + stride 257 over %d branch/address/system top bytes", off, len(tops)))
	}

	var mu sync.Mutex
	allOps := map[string]struct{}{}
	var tot result
	var next int64 = -1
	var wg sync.WaitGroup
	for w := 0; w < workers; w++ {
		wg.Add(1)
		go func() {
			defer wg.Done()
			ops := map[string]struct{}{}
			var res result
			for {
				i := int(atomic.AddInt64(&next, 1))
				if i >= len(jobs) {
					break
				}
				walk(jobs[i].start, jobs[i].end, jobs[i].stride, rep, ops, &res)
			}
			mu.Lock()
			for k := range ops {
				allOps[k] = struct{}{}
			}
			tot.words += res.words
			tot.decoded += res.decoded
			tot.undecodable += res.undecodable
			tot.exclWords += res.exclWords
			tot.pcrel += res.pcrel
			mu.Unlock()
		}()
	}
	wg.Wait()
	rep.Eval(tot.words)
	for k := range allOps {
		rep.Class("op:" + k)
	}
	rep.Stat("words", tot.words)
	rep.Stat("decoded_both", tot.decoded)
	rep.Stat("undecodable_both", tot.undecodable)
	rep.Stat("excluded_class_words_totality_only", tot.exclWords)
	rep.Stat("pcrel_args_compared", tot.pcrel)
	rep.Sample(map[string]interface{}{"word": "0x14000001", "goom": mustStr(0x14000001), "ref": refStr(0x14000001)})
	rep.Sample(map[string]interface{}{"word": "0x90000010", "goom": mustStr(0x90000010), "ref": refStr(0x90000010)})
	rep.Sample(map[string]interface{}{"word": fmt.Sprintf("%#x", uint32(seed*2654435761)), "goom": mustStr(uint32(seed * 2654435761)), "ref": refStr(uint32(seed * 2654435761))})
}

func mustStr(w uint32) string {
	var b [4]byte
	binary.LittleEndian.PutUint32(b[:], w)
	i, err := goom.Decode(b[:])
	if err != nil {
		return "error: " + err.Error()
	}
	return i.String()
}

func refStr(w uint32) string {
	var b [4]byte
	binary.LittleEndian.PutUint32(b[:], w)
	i, err := ref.Decode(b[:])
	if err != nil {
		return "error: " + err.Error()
	}
	return i.String()
}
