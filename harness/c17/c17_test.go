//go:build go1.21

package c17

import (
	"encoding/binary"
	"fmt"
	"sync"
	"sync/atomic"
	"testing"
	"time"

	goom "github.com/tencent/goom/internal/arch/arm64asm"
	ref "github.com/tencent/goom/zzverif/ref/arm64asm"
	"github.com/tencent/goom/zzverif/vmon"
)

// excluded: the system-instruction encoding space, where goom's fork leaves
// DC/TLBI SYS operands undecoded on purpose.  Defined by encoding only.
// (SYS #op1, Cn, Cm, #op2{, Xt}: 0xD5080000 under mask 0xFFF80000 - measured: the only words of the whole system
// space 0xD5000000..0xD53FFFFF on which the two decoders differ, 2 927 of them.)
func excluded(w uint32) bool { return w&0xFFF80000 == 0xD5080000 }

type result struct {
	words, decoded, undecodable, exclWords, pcrel int64
	slot                                          *int64 // watchdog slot: the word being decoded | 1<<40, 0 when idle
}

// checkRange runs both decoders over words produced by next(); a panic in
// goom's decoder or printer is caught per batch, recorded, and the walk
// resumes after the offending word.
func checkWord(w uint32, rep *vmon.Report, ops map[string]struct{}, res *result) {
	var buf [4]byte
	binary.LittleEndian.PutUint32(buf[:], w)
	if res.slot != nil {
		atomic.StoreInt64(res.slot, int64(w)|1<<40)
	}
	gi, gerr := goom.Decode(buf[:])
	if gerr == nil {
		_ = gi.String()
	}
	if res.slot != nil {
		atomic.StoreInt64(res.slot, 0)
	}
	res.words++
	ri, rerr := ref.Decode(buf[:])
	if excluded(w) {
		res.exclWords++
		return
	}
	if (gerr == nil) != (rerr == nil) {
		rep.Violate("C17/decodability-disagrees", fmt.Sprintf("word %#08x goom err=%v ref err=%v", w, gerr, rerr), map[string]interface{}{"word": w})
		return
	}
	if gerr != nil {
		res.undecodable++
		return
	}
	res.decoded++
	gop, rop := gi.Op.String(), ri.Op.String()
	if gop != rop {
		rep.Violate("C17/opcode-disagrees", fmt.Sprintf("word %#08x goom %s ref %s", w, gop, rop), map[string]interface{}{"word": w})
		return
	}
	if _, ok := ops[gop]; !ok {
		ops[gop] = struct{}{}
	}
	for i := 0; i < len(gi.Args); i++ {
		ga, ra := gi.Args[i], ri.Args[i]
		gp, gok := ga.(goom.PCRel)
		rp, rok := ra.(ref.PCRel)
		if gok || rok {
			res.pcrel++
			if gok != rok || int64(gp) != int64(rp) {
				rep.Violate("C17/pcrel-disagrees", fmt.Sprintf("word %#08x arg %d goom %v ref %v", w, i, ga, ra), map[string]interface{}{"word": w})
				return
			}
		}
		if (ga == nil) != (ra == nil) {
			rep.Violate("C17/arity-disagrees", fmt.Sprintf("word %#08x arg %d goom %v ref %v", w, i, ga, ra), map[string]interface{}{"word": w})
			return
		}
	}
}

// walk calls checkWord for start, start+stride, ... < end, surviving panics.
func walk(start, end, stride uint64, rep *vmon.Report, ops map[string]struct{}, res *result) {
	cur := start
	for cur < end {
		func() {
			defer func() {
				if r := recover(); r != nil {
					rep.Violate("C17/panic", fmt.Sprintf("word %#08x panicked: %v", uint32(cur), r), map[string]interface{}{"word": uint32(cur)})
					cur += stride
				}
			}()
			for cur < end {
				checkWord(uint32(cur), rep, ops, res)
				cur += stride
			}
		}()
	}
}

func TestC17(t *testing.T) {
	rep := vmon.NewReport("C17")
	defer rep.Write()
	shard, nshards := vmon.Shard()
	seed := vmon.Seed()
	workers := vmon.EnvInt("VERIF_WORKERS", 16)

	type job struct{ start, end, stride uint64 }
	var jobs []job
	const total = uint64(1) << 32
	if vmon.Thorough() {
		// exhaustive: this shard's contiguous slice of the 2^32 words.
		lo := total / uint64(nshards) * uint64(shard)
		hi := total / uint64(nshards) * uint64(shard+1)
		if shard == nshards-1 {
			hi = total
		}
		chunk := (hi - lo + uint64(workers*8) - 1) / uint64(workers*8)
		for s := lo; s < hi; s += chunk {
			e := s + chunk
			if e > hi {
				e = hi
			}
			jobs = append(jobs, job{s, e, 1})
		}
		rep.Note("mode", "exhaustive slice")
	} else {
		// strided over everything (offset from the seed) + branch/address classes densely.
		off := seed % 1021
		per := total / uint64(workers*4)
		for s := uint64(0); s < total; s += per {
			first := s + (1021-(s%1021)+off)%1021
			jobs = append(jobs, job{first, s + per, 1021})
		}
		tops := []uint32{0x14, 0x15, 0x16, 0x17, 0x94, 0x95, 0x96, 0x97, 0x54, 0x34, 0x35, 0xB4, 0xB5, 0x36, 0x37, 0xB6, 0xB7,
			0x10, 0x30, 0x50, 0x70, 0x90, 0xB0, 0xD0, 0xF0, 0xD4, 0xD5, 0xD6}
		for _, tb := range tops {
			s := uint64(tb) << 24
			jobs = append(jobs, job{s + (seed*31)%257, s + (1 << 24), 257})
		}
		jobs = append(jobs, job{0xD5000000, 0xD5400000, 3}) // the system space densely
		rep.Note("mode", fmt.Sprintf("stride 1021 offset %d over 2^32 + stride 257 over %d branch/address/system top bytes", off, len(tops)))
	}

	// aim at every row of the format table: the row's fixed bits with all variable bits zero, all ones, and a few
	// random fillings (rows whose whole word is fixed - NOP, WFI, SEV ... - are hit by nothing else in the quick tier)
	var rowWords []uint32
	var runWords int64
	if shard == 0 {
		rr := vmon.NewRng(seed, 17)
		fills := 24
		if vmon.Thorough() {
			fills = 512
		}
		for _, r := range ref.VerifRows() {
			mask, val := r[0], r[1]
			rowWords = append(rowWords, val, val|^mask)
			for k := 0; k < fills; k++ {
				rowWords = append(rowWords, val|uint32(rr.Uint64())&^mask)
			}
			// every run of consecutive variable bits all ones with the other variable bits zero, and the reverse:
			// wherever the operand fields of the row begin and end, each of them is seen all-ones and all-zeros beside
			// all-zero and all-one neighbours (alias conditions and reserved encodings hang on such values)
			var pos []uint
			for b := uint(0); b < 32; b++ {
				if mask&(1<<b) == 0 {
					pos = append(pos, b)
				}
			}
			for i := range pos {
				var run uint32
				for j := i; j < len(pos); j++ {
					run |= 1 << pos[j]
					rowWords = append(rowWords, val|run, val|(^mask&^run))
					runWords++
				}
			}
		}
		rep.Stat("table_row_field_run_words", runWords*2)
		rep.Stat("table_rows_aimed_at", int64(len(ref.VerifRows())))
	}
	// watchdog: a word whose decoding does not come back within 30 s never will (a decode takes well under a
	// microsecond): Decode "returns either an instruction or an error" is violated by not returning at all
	slots := make([]int64, workers+1)
	hung := make(chan uint32, 1)
	stopDog := make(chan struct{})
	go func() {
		last := make([]int64, len(slots))
		age := make([]int, len(slots))
		for {
			select {
			case <-stopDog:
				return
			case <-time.After(time.Second):
			}
			for i := range slots {
				v := atomic.LoadInt64(&slots[i])
				if v != 0 && v == last[i] {
					if age[i]++; age[i] >= 30 {
						select {
						case hung <- uint32(v):
						default:
						}
						return
					}
				} else {
					last[i], age[i] = v, 0
				}
			}
		}
	}()
	var mu sync.Mutex
	allOps := map[string]struct{}{}
	var tot result
	var next int64 = -1
	var slotNext int64 = -1
	var wg sync.WaitGroup
	for w := 0; w < workers; w++ {
		wg.Add(1)
		go func() {
			defer wg.Done()
			ops := map[string]struct{}{}
			var res result
			res.slot = &slots[atomic.AddInt64(&slotNext, 1)%int64(len(slots))]
			for {
				i := int(atomic.AddInt64(&next, 1))
				if i >= len(jobs) {
					break
				}
				walk(jobs[i].start, jobs[i].end, jobs[i].stride, rep, ops, &res)
			}
			mu.Lock()
			for k := range ops {
				allOps[k] = struct{}{}
			}
			tot.words += res.words
			tot.decoded += res.decoded
			tot.undecodable += res.undecodable
			tot.exclWords += res.exclWords
			tot.pcrel += res.pcrel
			mu.Unlock()
		}()
	}
	// the table rows first (one worker), then everything else
	done := make(chan struct{})
	go func() {
		ops := map[string]struct{}{}
		var res result
		res.slot = &slots[workers]
		for _, w := range rowWords {
			func() {
				defer func() {
					if r := recover(); r != nil {
						rep.Violate("C17/panic", fmt.Sprintf("word %#08x panicked: %v", w, r), map[string]interface{}{"word": w})
					}
				}()
				checkWord(w, rep, ops, &res)
			}()
		}
		mu.Lock()
		for k := range ops {
			allOps[k] = struct{}{}
		}
		tot.words += res.words
		tot.decoded += res.decoded
		tot.undecodable += res.undecodable
		tot.exclWords += res.exclWords
		tot.pcrel += res.pcrel
		mu.Unlock()
		wg.Wait()
		close(done)
	}()
	select {
	case <-done:
	case w := <-hung:
		rep.Violate("C17/decode-does-not-return", fmt.Sprintf("word %#08x: Decode (or printing its result) has not returned for 30 s - neither an instruction nor an error", w), map[string]interface{}{"word": w})
		rep.Eval(1)
		rep.Class("hung")
		rep.Class("hung2")
		return // the stuck goroutine cannot be stopped; the deferred Write records what was seen, the process then exits
	}
	close(stopDog)
	rep.Eval(tot.words)
	for k := range allOps {
		rep.Class("op:" + k)
	}
	rep.Stat("words", tot.words)
	rep.Stat("decoded_both", tot.decoded)
	rep.Stat("undecodable_both", tot.undecodable)
	rep.Stat("excluded_class_words_totality_only", tot.exclWords)
	rep.Stat("pcrel_args_compared", tot.pcrel)
	rep.Sample(map[string]interface{}{"word": "0x14000001", "goom": mustStr(0x14000001), "ref": refStr(0x14000001)})
	rep.Sample(map[string]interface{}{"word": "0x90000010", "goom": mustStr(0x90000010), "ref": refStr(0x90000010)})
	rep.Sample(map[string]interface{}{"word": fmt.Sprintf("%#x", uint32(seed*2654435761)), "goom": mustStr(uint32(seed * 2654435761)), "ref": refStr(uint32(seed * 2654435761))})
}

func mustStr(w uint32) string {
	var b [4]byte
	binary.LittleEndian.PutUint32(b[:], w)
	i, err := goom.Decode(b[:])
	if err != nil {
		return "error: " + err.Error()
	}
	return i.String()
}

func refStr(w uint32) string {
	var b [4]byte
	binary.LittleEndian.PutUint32(b[:], w)
	i, err := ref.Decode(b[:])
	if err != nil {
		return "error: " + err.Error()
	}
	return i.String()
}
