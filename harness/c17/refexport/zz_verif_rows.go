//go:build go1.21

package arm64asm

// VerifRows exposes the reference decoder's format table (mask, value per row) to the /verif harness, which uses it
// to aim at every row of the table - including the rows whose whole encoding is fixed (NOP, WFI, ...), which a strided
// walk over 2^32 words practically never hits.
func VerifRows() [][2]uint32 {
	out := make([][2]uint32, 0, len(instFormats))
	for i := range instFormats {
		out = append(out, [2]uint32{instFormats[i].mask, instFormats[i].value})
	}
	return out
}
