//go:build go1.21

// Package c20x drives the consumers of executable stub space - interface-method mocks - while the kernel refuses
// executable anonymous mappings, up to and beyond the exhaustion of the built-in reserve.
package c20x

import (
	"fmt"
	"runtime"
	"sort"
	"syscall"
	"testing"
	"unsafe"

	mocker "github.com/tencent/goom"
	"github.com/tencent/goom/zzverif/vmon"
)

type sockFilter struct {
	code   uint16
	jt, jf uint8
	k      uint32
}
type sockFprog struct {
	n      uint16
	_      [6]byte
	filter *sockFilter
}

// denyExecMmap: every mmap asking for PROT_EXEC fails with EACCES from now on, in every thread (irrevocable: own child).
// mprotect is left alone: the text writer works as usual.
func denyExecMmap() error {
	prog := []sockFilter{
		{0x20, 0, 0, 4},          // A = arch
		{0x15, 0, 5, 0xC000003E}, // x86-64 ? next : allow
		{0x20, 0, 0, 0},          // A = syscall number
		{0x15, 0, 3, 9},          // mmap ? next : allow
		{0x20, 0, 0, 32},         // A = prot
		{0x54, 0, 0, 4},          // A &= PROT_EXEC
		{0x15, 1, 0, 4},          // set -> deny
		{0x06, 0, 0, 0x7fff0000},
		{0x06, 0, 0, 0x00050000 | uint32(syscall.EACCES)},
	}
	fp := sockFprog{n: uint16(len(prog)), filter: &prog[0]}
	runtime.LockOSThread()
	defer runtime.UnlockOSThread()
	if _, _, e := syscall.RawSyscall6(syscall.SYS_PRCTL, 38, 1, 0, 0, 0, 0); e != 0 {
		return e
	}
	if _, _, e := syscall.RawSyscall(317, 1, 1, uintptr(unsafe.Pointer(&fp))); e != 0 {
		return e
	}
	runtime.KeepAlive(prog)
	return nil
}

type I interface {
	Get(a int) int
	Put(a int, s string) string
}

// methodPointers reads the method table the interface variable currently carries (tab -> fun[0..n)).
//
//go:nocheckptr
func methodPointers(v *I, n int) []uintptr {
	tab := *(*uintptr)(unsafe.Pointer(v))
	if tab == 0 {
		return nil
	}
	out := make([]uintptr, n)
	for i := range out {
		out[i] = *(*uintptr)(unsafe.Pointer(tab + 24 + uintptr(i)*8))
	}
	return out
}

func TestC20Consumers(t *testing.T) {
	rep := vmon.NewReport("C20")
	defer rep.Write()
	denied := vmon.EnvInt("VERIF_C20X_DENY", 1) == 1
	if denied {
		if err := denyExecMmap(); err != nil {
			rep.Note("exec-mmap-denied", "seccomp filter not available: "+err.Error())
			rep.Stat("consumers_not_exercised", 1)
			rep.Eval(1)
			rep.Class("consumers/not-available")
			rep.Class("consumers/not-available2")
			return
		}
		if _, err := syscall.Mmap(-1, 0, 4096, syscall.PROT_READ|syscall.PROT_EXEC, syscall.MAP_PRIVATE|syscall.MAP_ANON); err == nil {
			rep.Violate("C20/exec-filter-ineffective", "an executable mapping was obtained although the policy denies it", nil)
			return
		}
	}
	n := vmon.EnvInt("VERIF_C20X_VARS", 420)
	vars := make([]I, n)
	b := mocker.Create()
	type stubRec struct {
		v, m int
		addr uintptr
	}
	var stubs []stubRec
	accepted, refused, firstRefusal := 0, 0, -1
	routes := []string{"As.Return", "Apply", "As.When.Return", "Apply+As.Return", "As.Returns"}
	for i := range vars {
		i := i
		route := routes[i%len(routes)]
		rep.Journal(map[string]interface{}{"part": "consumer", "var": i, "route": route, "crashkey": "C20/consumer-dies-configuring"})
		var perr interface{}
		wantGet, wantPut := 1000+i, ""
		func() {
			defer func() { perr = recover() }()
			switch route {
			case "As.Return":
				b.Interface(&vars[i]).Method("Get").As(func(ctx *mocker.IContext, a int) int { return 0 }).Return(1000 + i)
			case "Apply":
				b.Interface(&vars[i]).Method("Get").Apply(func(ctx *mocker.IContext, a int) int { return 1000 + i })
			case "As.When.Return":
				b.Interface(&vars[i]).Method("Get").As(func(ctx *mocker.IContext, a int) int { return 0 }).When(7).Return(1000 + i)
			case "Apply+As.Return":
				b.Interface(&vars[i]).Method("Get").Apply(func(ctx *mocker.IContext, a int) int { return 1000 + i })
				wantPut = fmt.Sprint("p", i)
				b.Interface(&vars[i]).Method("Put").As(func(ctx *mocker.IContext, a int, s string) string { return "" }).Return(wantPut)
			case "As.Returns":
				b.Interface(&vars[i]).Method("Get").As(func(ctx *mocker.IContext, a int) int { return 0 }).Returns(1000+i, -5)
			}
		}()
		rep.Eval(1)
		c := map[string]interface{}{"var": i, "route": route, "regions_before": accepted, "exec_mmap_denied": denied}
		if perr != nil {
			refused++
			if firstRefusal < 0 {
				firstRefusal = i
				rep.Note("first_refusal", fmt.Sprintf("variable %d (%s): %v", i, route, perr))
			}
			rep.Class("consumer/" + route + "/refused")
			// what the refused configuration left behind must not be callable garbage: either the variable is still
			// nil or every method it carries is a real stub
			for m, p := range methodPointers(&vars[i], 2) {
				if p == 0 && m == 0 {
					rep.Violate("C20/refused-consumer-left-a-null-method", fmt.Sprintf("variable %d (%s): refused (%v), yet the variable now carries a method table whose Get is 0", i, route, perr), c)
				}
			}
			continue
		}
		accepted++
		rep.Class("consumer/" + route + "/accepted")
		ptrs := methodPointers(&vars[i], 2)
		if ptrs == nil {
			rep.Violate("C20/accepted-consumer-not-mocked", fmt.Sprintf("variable %d (%s): accepted, but the variable is still nil", i, route), c)
			continue
		}
		if ptrs[0] == 0 || (wantPut != "" && ptrs[1] == 0) {
			rep.Violate("C20/exhaustion-not-reported-to-interface-mock", fmt.Sprintf("variable %d (%s): accepted without error after %d earlier variables, but the installed method pointer is 0 (a call would jump to address 0): the stub-space error never reached the caller",
				i, route, i), c)
			continue
		}
		stubs = append(stubs, stubRec{i, 0, ptrs[0]})
		if wantPut != "" {
			stubs = append(stubs, stubRec{i, 1, ptrs[1]})
		}
		rep.Journal(map[string]interface{}{"part": "consumer-call", "var": i, "route": route, "crashkey": "C20/consumer-dies-calling"})
		func() {
			defer func() {
				if r := recover(); r != nil {
					rep.Violate("C20/accepted-consumer-call-panics", fmt.Sprintf("variable %d (%s): %v", i, route, r), c)
				}
			}()
			if got := vars[i].Get(7); got != wantGet {
				rep.Violate("C20/accepted-consumer-wrong-result", fmt.Sprintf("variable %d (%s): Get(7) = %d want %d", i, route, got, wantGet), c)
			}
			if wantPut != "" {
				if got := vars[i].Put(1, "x"); got != wantPut {
					rep.Violate("C20/accepted-consumer-wrong-result", fmt.Sprintf("variable %d (%s): Put = %q want %q", i, route, got, wantPut), c)
				}
			}
		}()
	}
	// all stubs handed to consumers are distinct code addresses, none inside another (the smallest stub is 16 bytes)
	sort.Slice(stubs, func(a, b int) bool { return stubs[a].addr < stubs[b].addr })
	for k := 1; k < len(stubs); k++ {
		if stubs[k].addr-stubs[k-1].addr < 16 {
			rep.Violate("C20/consumer-stubs-overlap", fmt.Sprintf("variable %d method %d and variable %d method %d got stubs %#x and %#x", stubs[k-1].v, stubs[k-1].m, stubs[k].v, stubs[k].m, stubs[k-1].addr, stubs[k].addr), nil)
			break
		}
	}
	// everything accepted earlier still answers after the reserve ran out
	for _, s := range stubs {
		if s.m != 0 {
			continue
		}
		func() {
			defer func() {
				if r := recover(); r != nil {
					rep.Violate("C20/accepted-consumer-call-panics", fmt.Sprintf("variable %d after exhaustion: %v", s.v, r), nil)
				}
			}()
			if got := vars[s.v].Get(7); got != 1000+s.v && got != -5 {
				rep.Violate("C20/accepted-consumer-wrong-result", fmt.Sprintf("variable %d after exhaustion: Get(7) = %d", s.v, got), nil)
			}
		}()
		rep.Eval(1)
	}
	b.Reset()
	for i := range vars {
		if *(*uintptr)(unsafe.Pointer(&vars[i])) != 0 {
			rep.Violate("C20/consumer-not-restored", fmt.Sprintf("variable %d is not nil after Reset", i), nil)
			break
		}
	}
	rep.Stat("consumer_configurations", int64(n))
	rep.Stat("consumer_configurations_accepted", int64(accepted))
	rep.Stat("consumer_configurations_refused", int64(refused))
	rep.Stat("consumer_stubs_seen", int64(len(stubs)))
	if denied && refused == 0 {
		rep.Note("consumers", "the reserve never ran out: exhaustion at the consumers was not observed")
		rep.Stat("consumers_exhaustion_not_reached", 1)
	}
	rep.Class(fmt.Sprintf("consumers/denied=%v/exhausted=%v", denied, refused > 0))
}
