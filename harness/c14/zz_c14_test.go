//go:build go1.21

package patch

import (
	"bytes"
	"fmt"
	"io"
	"runtime/debug"
	"strings"
	"sync"
	"sync/atomic"
	"syscall"
	"testing"
	"time"
	"unsafe"

	"github.com/tencent/goom/internal/bytecode/memory"
	"github.com/tencent/goom/zzverif/vmon"
)

const c14Page = 4096

func c14Map(pages int) (uintptr, []byte) {
	b, err := syscall.Mmap(-1, 0, pages*c14Page, syscall.PROT_READ|syscall.PROT_WRITE|syscall.PROT_EXEC, syscall.MAP_PRIVATE|syscall.MAP_ANON)
	if err != nil {
		panic(err)
	}
	return uintptr(unsafe.Pointer(&b[0])), b
}

// c14Fresh makes the range rwx again WITHOUT an mprotect call (a MAP_FIXED remap), so that the
// strace event log contains goom's mprotect calls only.
func c14Fresh(b []byte) {
	addr := uintptr(unsafe.Pointer(&b[0]))
	_, _, e := syscall.Syscall6(syscall.SYS_MMAP, addr, uintptr(len(b)), syscall.PROT_READ|syscall.PROT_WRITE|syscall.PROT_EXEC,
		syscall.MAP_PRIVATE|syscall.MAP_ANON|syscall.MAP_FIXED, ^uintptr(0), 0)
	if e != 0 {
		panic(e)
	}
}

//go:nocheckptr
func c14Call(addr uintptr) int {
	fv := &struct{ pc uintptr }{addr}
	f := *(*func() int)(unsafe.Pointer(&fv))
	return f()
}

var c14prologue = []byte{0x65, 0x48, 0x8b, 0x0c, 0x25, 0x30, 0x00, 0x00, 0x00, 0x48}

// synthFunc: `mov eax, imm32` then (size-6) one-byte NOPs then `ret`; size >= 6.
func synthFunc(size int, v uint32) []byte {
	out := []byte{0xB8, byte(v), byte(v >> 8), byte(v >> 16), byte(v >> 24)}
	for len(out) < size-1 {
		out = append(out, 0x90)
	}
	return append(out, 0xC3)
}

//go:noinline
func c14Repl() int { return 0x5EED }

func c14ForgetPatch(entry uintptr) {
	lock()
	delete(patches, entry)
	unlock()
}

func TestC14(t *testing.T) {
	rep := vmon.NewReport("C14")
	defer rep.Write()
	img := vmon.SnapshotText()
	lo, hi := img.Bounds()
	rep.Note("image", fmt.Sprintf("%#x-%#x", lo, hi))
	rep.Stat("image_bytes_watched", int64(img.Size()))
	seed := vmon.Seed()
	rng := vmon.NewRng(seed, 14)
	light := vmon.EnvInt("VERIF_C14_LIGHT", 0) == 1 // strace pass: fewer cases, same paths

	// ---- (1) every idle function of the population as a prospective target
	funcs, err := popFuncs()
	if err != nil {
		rep.Inconclusive = "cannot enumerate functions: " + err.Error()
		return
	}
	var idle []popFunc
	for _, f := range funcs {
		if popIdle(f.Name) {
			idle = append(idle, f)
		}
	}
	limit := 2000
	if vmon.Thorough() {
		limit = len(idle)
	}
	if light {
		limit = 150
	}
	start := 0
	if limit < len(idle) {
		start = rng.Intn(len(idle))
	}
	rep.Stat("population_functions", int64(len(funcs)))
	rep.Stat("idle_functions", int64(len(idle)))
	pageOffs := map[uintptr]struct{}{}
	patched, refused := 0, 0
	for k := 0; k < limit && k < len(idle); k++ {
		f := idle[(start+k)%len(idle)]
		rep.Journal(map[string]interface{}{"part": "population", "func": f.Name, "entry": f.Entry})
		before := img.Pristine(f.Entry, 13)
		var g *Guard
		var perr error
		func() {
			defer func() {
				if r := recover(); r != nil {
					perr = fmt.Errorf("panic: %v", r)
				}
			}()
			g, perr = PtrTrampoline(f.Entry, c14Repl, nil)
		}()
		rep.Eval(1)
		if perr != nil {
			refused++
			c14ForgetPatch(f.Entry)
			if d := img.Diff(); len(d) != 0 {
				rep.Violate("C14/refused-but-modified", fmt.Sprintf("%s refused (%v) but image differs at %v", f.Name, perr, d), nil)
			}
			continue
		}
		if d := img.Diff(); len(d) != 0 {
			rep.Violate("C14/write-before-apply", fmt.Sprintf("%s: image differs before Apply at %v", f.Name, d), nil)
		}
		g.Apply()
		d := img.DiffOutside([]vmon.Range{{Start: f.Entry, End: f.Entry + 13}})
		if len(d) != 0 {
			rep.Violate("C14/stray-byte-on-apply", fmt.Sprintf("%s [%#x,%#x): bytes outside the 13-byte entry changed: %v", f.Name, f.Entry, f.End, d), map[string]interface{}{"func": f.Name})
		}
		j := vmon.DecodeJumpAt(f.Entry)
		if j.Kind != vmon.JumpEntry || j.Target != vmon.FuncCodePtr(c14Repl) {
			rep.Violate("C14/entry-jump-malformed", fmt.Sprintf("%s: bytes at entry %x do not form the entry jump to the replacement", f.Name, vmon.ReadMem(f.Entry, 13)), nil)
		}
		if f.End-f.Entry < 13 {
			rep.Violate("C14/short-function-accepted", fmt.Sprintf("%s is %d bytes and was patched", f.Name, f.End-f.Entry), nil)
		}
		if bad := img.BadPerms(); len(bad) != 0 {
			rep.Violate("C14/page-perms-after-apply", fmt.Sprintf("%s: %v", f.Name, bad), nil)
		}
		g.UnpatchWithLock()
		c14ForgetPatch(f.Entry)
		if d := img.Diff(); len(d) != 0 {
			rep.Violate("C14/not-restored", fmt.Sprintf("%s: after unpatch image differs at %v (want %x)", f.Name, d, before), nil)
			// put it back so later cases are judged on their own
			memory.WriteTo(f.Entry, before)
		}
		if bad := img.BadPerms(); len(bad) != 0 {
			rep.Violate("C14/page-perms-after-unpatch", fmt.Sprintf("%s: %v", f.Name, bad), nil)
		}
		patched++
		pageOffs[f.Entry%c14Page] = struct{}{}
		sz := int(f.End - f.Entry)
		cls := "huge"
		switch {
		case sz < 32:
			cls = "<32"
		case sz < 64:
			cls = "<64"
		case sz < 256:
			cls = "<256"
		case sz < 4096:
			cls = "<4096"
		}
		rep.Class(fmt.Sprintf("pop/size%s/pageoff%d", cls, (f.Entry%c14Page)/512))
		if (f.Entry%c14Page)+13 > c14Page {
			rep.Stat("population_entries_straddling_page", 1)
		}
	}
	rep.Stat("population_patched", int64(patched))
	rep.Stat("population_refused", int64(refused))
	rep.Stat("distinct_entry_page_offsets", int64(len(pageOffs)))
	if patched > 0 {
		f := idle[start%len(idle)]
		rep.Sample(map[string]interface{}{"part": "population", "func": f.Name, "entry": fmt.Sprintf("%#x", f.Entry), "size": f.End - f.Entry})
	}

	// ---- (2) synthetic functions: sizes 6..40, followed by int3 padding or directly by another function;
	//          entries at every offset in the last 40 bytes of a page
	// goom caches function extents by entry address, so every case gets an entry address of its own:
	// one 2-page region per (follow, size) pair, offsets relative to that region.
	allBase, allMem := c14Map(2*4*13 + 4)
	rep.Note("synthetic", fmt.Sprintf("%#x-%#x", allBase, allBase+uintptr(len(allMem))))
	region := 0
	sizes := []int{6, 7, 8, 10, 12, 13, 14, 15, 16, 20, 31, 32, 40}
	offs := []int{}
	for o := c14Page - 40; o <= c14Page+2; o++ {
		offs = append(offs, o)
	}
	offs = append(offs, 64, 2*c14Page-60)
	if light {
		sizes = []int{6, 13, 14, 32}
	}
	// "evex" / "invalid": the function is followed directly by bytes goom's bundled decoder cannot decode (an AVX-512
	// instruction, an opcode that does not exist in 64-bit mode)
	for _, follow := range []string{"pad", "func", "evex", "invalid"} {
		for _, size := range sizes {
			base := allBase + uintptr(region*2*c14Page)
			mem := allMem[region*2*c14Page : (region+1)*2*c14Page]
			region++
			for _, off := range offs {
				c14Fresh(mem)
				for i := range mem {
					mem[i] = 0xCC
				}
				v := uint32(0xA0000 + size*1000 + off)
				copy(mem[off:], synthFunc(size, v))
				padLen := 0
				nb := off + size
				if follow == "pad" {
					padLen = 3 + (size+off)%9
					if (size+off)%4 == 1 {
						padLen = 1 + (off/4)%2 // a lone int3, or two, between the function and its neighbour
					}
					nb += padLen
				}
				// neighbour: starts with the fingerprint goom's extent scan stops at, then returns a constant
				nbCode := append(append([]byte{}, c14prologue...), 0x90, 0xB8, 0x11, 0x22, 0x33, 0x00, 0xC3)
				nbSkip := len(c14prologue) + 1
				if follow == "pad" && padLen <= 2 {
					// a neighbour that does not begin with the usual prologue: only the int3 tells where the function ends
					nbCode, nbSkip = []byte{0xB8, 0x11, 0x22, 0x33, 0x00, 0xC3}, 0
				}
				switch follow {
				case "evex":
					nbCode = []byte{0x62, 0xF1, 0x7C, 0x48, 0x28, 0xC1, 0xB8, 0x11, 0x22, 0x33, 0x00, 0xC3} // vmovaps zmm0, zmm1; mov eax, imm; ret
				case "invalid":
					nbCode = []byte{0x06, 0x06, 0x06, 0xB8, 0x11, 0x22, 0x33, 0x00, 0xC3}
				}
				copy(mem[nb:], nbCode)
				// left neighbour too
				leftCode := []byte{0xB8, 0x44, 0x55, 0x66, 0x00, 0xC3}
				copy(mem[off-len(leftCode)-2:], leftCode)
				shadow := append([]byte{}, mem...)
				entry := base + uintptr(off)
				extent := size + padLen
				rep.Journal(map[string]interface{}{"part": "synthetic", "follow": follow, "size": size, "off": off})
				if got := c14Call(entry); uint32(got) != v {
					rep.Violate("C14/harness-self-check", fmt.Sprintf("synthetic function returned %#x want %#x", got, v), nil)
					continue
				}
				var g *Guard
				var perr error
				func() {
					defer func() {
						if r := recover(); r != nil {
							perr = fmt.Errorf("panic: %v", r)
						}
					}()
					g, perr = PtrTrampoline(entry, c14Repl, nil)
				}()
				rep.Eval(1)
				kind := fmt.Sprintf("synth/%s/extent%s/straddle%v", follow, map[bool]string{true: "<=13", false: ">13"}[extent <= 13], (off%c14Page)+13 > c14Page)
				rep.Class(kind)
				if perr != nil {
					// asked again (a test that retries, two tests mocking the same tiny function): refused again
					for attempt := 2; attempt <= 3 && extent <= 13; attempt++ {
						var g2 *Guard
						var perr2 error
						func() {
							defer func() {
								if r := recover(); r != nil {
									perr2 = fmt.Errorf("panic: %v", r)
								}
							}()
							g2, perr2 = PtrTrampoline(entry, c14Repl, nil)
						}()
						rep.Eval(1)
						if perr2 == nil && g2 != nil {
							rep.Violate("C14/short-function-accepted", fmt.Sprintf("synthetic function of %d bytes (+%d padding) followed by %s was refused the first time and accepted at attempt %d", size, padLen, follow, attempt),
								map[string]interface{}{"size": size, "pad": padLen, "off": off, "follow": follow, "attempt": attempt})
							break
						}
						rep.Stat("synthetic_refusals_repeated", 1)
					}
					c14ForgetPatch(entry)
					if !bytes.Equal(mem, shadow) {
						rep.Violate("C14/refused-but-modified", fmt.Sprintf("synthetic size %d off %d refused (%v) but bytes changed", size, off, perr), nil)
					}
					if extent > 13 {
						rep.Stat("synthetic_refused_although_long_enough", 1)
					}
					rep.Stat("synthetic_refused", 1)
					continue
				}
				if extent <= 13 {
					rep.Violate("C14/short-function-accepted", fmt.Sprintf("synthetic function of %d bytes (+%d padding) followed by %s was accepted", size, padLen, follow),
						map[string]interface{}{"size": size, "pad": padLen, "off": off, "follow": follow})
				}
				g.Apply()
				for i := range mem {
					if mem[i] != shadow[i] && (i < off || i >= off+13) {
						rep.Violate("C14/stray-byte-on-apply", fmt.Sprintf("synthetic size %d off %d: byte at offset %d changed (entry jump occupies [%d,%d))", size, off, i, off, off+13), nil)
						break
					}
				}
				if extent > 13 {
					// the neighbour must be intact and callable
					if follow != "pad" && follow != "func" {
						// not callable as it stands; its bytes were compared above
					} else if got := c14CallNeighbour(base+uintptr(nb), nbSkip); got != 0x332211 {
						rep.Violate("C14/neighbour-corrupted", fmt.Sprintf("neighbour after synthetic size %d off %d returns %#x", size, off, got), nil)
					}
					if got := c14Call(entry); got != 0x5EED {
						rep.Violate("C14/patched-synthetic-not-diverted", fmt.Sprintf("patched synthetic function returned %#x", got), nil)
					}
				}
				for _, pg := range []uintptr{entry &^ (c14Page - 1), (entry + 12) &^ (c14Page - 1)} {
					if p := vmon.PermsOf(pg); !strings.HasPrefix(p, "r-x") {
						rep.Violate("C14/page-perms-after-apply", fmt.Sprintf("synthetic page %#x is %s after apply", pg, p), nil)
					}
				}
				g.UnpatchWithLock()
				c14ForgetPatch(entry)
				if !bytes.Equal(mem, shadow) {
					rep.Violate("C14/not-restored", fmt.Sprintf("synthetic size %d off %d not restored", size, off), nil)
				}
				rep.Stat("synthetic_patched", 1)
				if (off%c14Page)+13 > c14Page {
					rep.Stat("synthetic_entries_straddling_page", 1)
				}
			}
		}
	}

	// ---- (2d) too-short functions whose last instruction before the RET carries an immediate whose width depends on a
	//           prefix or on the opcode (16-bit immediates behind 0x66, imm8, imm64): their extent must be measured with
	//           the instructions' true lengths - one int3 (or two), then a plain neighbour
	{
		tails := [][]byte{
			{0x66, 0xB8, 0x34, 0x12},                   // mov ax, 0x1234
			{0x66, 0x3D, 0x34, 0x12},                   // cmp ax, 0x1234
			{0x66, 0x81, 0xC1, 0x34, 0x12},             // add cx, 0x1234
			{0x66, 0xC7, 0xC0, 0x34, 0x12},             // mov ax, 0x1234 (C7 form)
			{0x66, 0x05, 0x34, 0x12},                   // add ax, 0x1234
			{0x83, 0xC0, 0x7F},                         // add eax, 0x7f (imm8)
			{0x6A, 0x01, 0x58},                         // push 1; pop rax
			{0x66, 0x90, 0xB8, 0x01, 0x00, 0x00, 0x00}, // 2-byte nop; mov eax, 1
			{0xB0, 0x01},                               // mov al, 1
			{0x66, 0xA9, 0x34, 0x12},                   // test ax, 0x1234
		}
		tBase, tMem := c14Map(2 * len(tails))
		rep.Note("synthetic-tails", fmt.Sprintf("%#x-%#x", tBase, tBase+uintptr(len(tMem))))
		for ti, tail := range tails {
			for _, pad := range []int{1, 2} {
				mem := tMem[(ti*2+pad-1)*c14Page : (ti*2+pad)*c14Page]
				base := tBase + uintptr((ti*2+pad-1)*c14Page)
				for i := range mem {
					mem[i] = 0xCC
				}
				off := 0x100 + ti*3
				fn := append(append([]byte{}, tail...), 0xC3)
				copy(mem[off:], fn)
				nb := off + len(fn) + pad
				copy(mem[nb:], []byte{0xB8, 0x11, 0x22, 0x33, 0x00, 0x48, 0x89, 0xC1, 0x48, 0x01, 0xC8, 0x48, 0x29, 0xC8, 0xC3})
				copy(mem[nb+0x40:], []byte{0xB8, 0x11, 0x22, 0x33, 0x00, 0xC3}) // ends the neighbour's own padding
				shadow := append([]byte{}, mem...)
				entry := base + uintptr(off)
				rep.Journal(map[string]interface{}{"part": "synthetic-tail", "tail": fmt.Sprintf("% x", tail), "pad": pad})
				var g *Guard
				var perr error
				func() {
					defer func() {
						if r := recover(); r != nil {
							perr = fmt.Errorf("panic: %v", r)
						}
					}()
					g, perr = PtrTrampoline(entry, c14Repl, nil)
				}()
				rep.Eval(1)
				c := map[string]interface{}{"tail": fmt.Sprintf("% x", tail), "pad": pad, "size": len(fn)}
				if perr == nil && g != nil {
					rep.Violate("C14/short-function-accepted", fmt.Sprintf("a %d-byte function (% x) followed by %d int3 and a neighbour was accepted", len(fn), fn, pad), c)
					g.Apply()
					g.UnpatchWithLock()
				}
				c14ForgetPatch(entry)
				if !bytes.Equal(mem, shadow) {
					rep.Violate("C14/refused-but-modified", fmt.Sprintf("a %d-byte function (% x) followed by %d int3: bytes of the region changed (first at %d, function at %d, neighbour at %d)", len(fn), fn, pad, firstDiff(mem, shadow), off, nb), c)
				}
				if got := c14Call(base + uintptr(nb)); got != 0x332211 {
					rep.Violate("C14/neighbour-corrupted", fmt.Sprintf("neighbour behind a %d-byte function (% x) returns %#x", len(fn), fn, got), c)
				}
				rep.Stat("synthetic_tails", 1)
				rep.Class(fmt.Sprintf("synth-tail/%02x%02x/pad%d", tail[0], tail[1], pad))
			}
		}
	}

	// ---- (2a) two tiny functions back to back, both mocked, the mocks removed in either order: every install and
	//           every removal rewrites the 13 entry bytes of its own target and nothing else
	{
		spacings := []int{14, 15, 16, 17, 18, 19, 20, 24, 32}
		if light {
			spacings = []int{16, 18}
		}
		orders := [][]string{{"+f", "+g", "-f", "-g"}, {"+g", "+f", "-g", "-f"}, {"+f", "+g", "-g", "-f"}, {"+g", "+f", "-f", "-g"}, {"+f", "-f", "+g", "+f", "-g", "-f"}}
		pBase, pMem := c14Map(2 * len(spacings) * len(orders) * 2 * 2)
		rep.Note("synthetic-pairs", fmt.Sprintf("%#x-%#x", pBase, pBase+uintptr(len(pMem))))
		region := 0
		for _, sp := range spacings {
			for oi, order := range orders {
				for li, off := range []int{256, c14Page - sp, 512, c14Page - sp} { // second layout: the neighbour's entry is the first byte of the next page
					// layouts 2 and 3: no padding at all between the two (the first one's RET is directly followed
					// by the second one's first instruction)
					fsize := sp - 1
					if li >= 2 {
						fsize = sp
					}
					mem := pMem[region*2*c14Page : (region+1)*2*c14Page]
					base := pBase + uintptr(region*2*c14Page)
					region++
					c14Fresh(mem)
					for i := range mem {
						mem[i] = 0xCC
					}
					copy(mem[off:], synthFunc(fsize, 0x111100+uint32(sp)))
					copy(mem[off+sp:], synthFunc(sp-1, 0x222200+uint32(sp)))
					mem[off+2*sp+24] = 0xC3 // a lone ret ends every extent scan
					orig := append([]byte{}, mem...)
					model := append([]byte{}, mem...)
					entry := map[string]uintptr{"f": base + uintptr(off), "g": base + uintptr(off+sp)}
					offOf := map[string]int{"f": off, "g": off + sp}
					guards := map[string]*Guard{}
					var hist []string
					okPair := true
					for _, op := range order {
						who := op[1:]
						hist = append(hist, op)
						c := map[string]interface{}{"spacing": sp, "offset": off, "history": append([]string{}, hist...)}
						rep.Journal(map[string]interface{}{"part": "synthetic-pair", "spacing": sp, "off": off, "hist": hist})
						c14Fresh(mem) // keeps the contents? no: a fresh mapping is zero-filled, so put the bytes back
						copy(mem, model)
						if op[0] == '+' {
							var g *Guard
							var perr error
							func() {
								defer func() {
									if r := recover(); r != nil {
										perr = fmt.Errorf("panic: %v", r)
									}
								}()
								g, perr = PtrTrampoline(entry[who], c14Repl, nil)
							}()
							if perr != nil {
								rep.Stat("synthetic_pair_refused", 1)
								if !bytes.Equal(mem, model) {
									rep.Violate("C14/refused-but-modified", fmt.Sprintf("pair spacing %d: %s refused (%v) but bytes changed after %v", sp, who, perr, hist), c)
								}
								okPair = false
								break
							}
							g.Apply()
							guards[who] = g
							o := offOf[who]
							for i := range mem {
								if mem[i] != model[i] && (i < o || i >= o+13) {
									rep.Violate("C14/stray-byte-on-apply", fmt.Sprintf("pair spacing %d after %v: installing the mock of %s changed the byte at %+d relative to its entry", sp, hist, who, i-o), c)
									okPair = false
									break
								}
							}
							copy(model[o:o+13], mem[o:o+13])
							if c14Call(entry[who]) != 0x5EED {
								rep.Violate("C14/patched-synthetic-not-diverted", fmt.Sprintf("pair spacing %d after %v: %s not diverted", sp, hist, who), c)
							}
						} else {
							guards[who].UnpatchWithLock()
							c14ForgetPatch(entry[who])
							o := offOf[who]
							copy(model[o:o+13], orig[o:o+13])
							for i := range mem {
								if mem[i] != model[i] {
									rep.Violate("C14/stray-byte-on-unpatch", fmt.Sprintf("pair spacing %d after %v: removing the mock of %s left the byte at %+d relative to its entry as %#02x, want %#02x", sp, hist, who, i-o, mem[i], model[i]), c)
									okPair = false
									break
								}
							}
						}
						rep.Eval(1)
						if !okPair {
							break
						}
					}
					for _, who := range []string{"f", "g"} {
						c14ForgetPatch(entry[who])
					}
					if okPair {
						rep.Stat("synthetic_pair_histories", 1)
						rep.Class(fmt.Sprintf("synth-pair/spacing%d/order%d/nextpage=%v", sp, oi, off != 256))
					}
				}
			}
		}
	}

	// ---- (2b) origin placeholders of every small size: the trampoline must fit or the apply be refused
	{
		sizes := []int{}
		for sz := 14; sz <= 56; sz++ {
			sizes = append(sizes, sz)
		}
		ntg := 10
		if light {
			sizes, ntg = []int{18, 24, 25, 32, 40}, 3
		}
		const slot = 128
		for _, near := range []bool{true, false} {
			need := len(sizes) * ntg * slot
			var pbase uintptr
			var pmem []byte
			if near {
				_, hi := img.Bounds()
				hint := (hi + 64<<20) &^ (c14Page - 1)
				r, _, e := syscall.Syscall6(syscall.SYS_MMAP, hint, uintptr(need), syscall.PROT_READ|syscall.PROT_WRITE|syscall.PROT_EXEC,
					syscall.MAP_PRIVATE|syscall.MAP_ANON, ^uintptr(0), 0)
				if e != 0 || r > hi+1<<30 {
					rep.Note("placeholder-near", "could not map placeholders within 1 GiB of the text segment")
					continue
				}
				pbase, pmem = r, unsafe.Slice((*byte)(unsafe.Pointer(r)), need)
			} else {
				pbase, pmem = c14Map((need + c14Page - 1) / c14Page)
			}
			idx := 0
			for ti := 0; ti < ntg; ti++ {
				tf := idle[(start+ti*37)%len(idle)]
				for _, sz := range sizes {
					off := idx * slot
					idx++
					c14Fresh(pmem) // goom leaves the pages it wrote r-x: make the mapping writable again (no mprotect call)
					region := pmem[off : off+slot]
					for i := range region {
						region[i] = 0xCC
					}
					for i := 0; i < sz-1; i++ {
						region[i] = 0x90
					}
					region[sz-1] = 0xC3
					nb := append(append([]byte{}, c14prologue...), 0x90, 0xB8, 0x11, 0x22, 0x33, 0x00, 0xC3)
					copy(region[sz:], nb)
					shadow := append([]byte{}, region...)
					phAddr := pbase + uintptr(off)
					fv := &struct{ pc uintptr }{phAddr}
					phFunc := *(*func())(unsafe.Pointer(&fv))
					rep.Journal(map[string]interface{}{"part": "placeholder-size", "target": tf.Name, "size": sz, "near": near})
					var perr error
					func() {
						defer func() {
							if r := recover(); r != nil {
								perr = fmt.Errorf("panic: %v", r)
							}
						}()
						_, perr = PtrTrampoline(tf.Entry, c14Repl, phFunc)
					}()
					c14ForgetPatch(tf.Entry)
					rep.Eval(1)
					if d := img.Diff(); len(d) != 0 {
						rep.Violate("C14/target-written-without-apply", fmt.Sprintf("%s: %v", tf.Name, d), nil)
					}
					changedBeyond := -1
					for i := sz; i < slot; i++ {
						if region[i] != shadow[i] {
							changedBeyond = i
							break
						}
					}
					outcome := "fits"
					if perr != nil {
						outcome = "refused"
						if !bytes.Equal(region, shadow) {
							rep.Violate("C14/refused-but-placeholder-modified", fmt.Sprintf("placeholder of %d bytes for %s refused (%v) but bytes changed", sz, tf.Name, perr), nil)
						}
					} else if changedBeyond >= 0 {
						rep.Violate("C14/placeholder-overrun", fmt.Sprintf("origin placeholder of %d bytes for %s (near=%v): byte %d beyond the placeholder (the next function) was overwritten", sz, tf.Name, near, changedBeyond),
							map[string]interface{}{"placeholder_size": sz, "target": tf.Name, "near": near})
					}
					rep.Class(fmt.Sprintf("placeholder/near=%v/%s", near, outcome))
					rep.Stat("placeholder_cases:"+outcome, 1)
					// the same placeholder given to a second target afterwards (one `origin` variable reused from test to
					// test): whatever is in it by now, the next trampoline fits its sz bytes or is refused
					if perr == nil {
						tf2 := idle[(start+ti*37+11)%len(idle)]
						shadow2 := append([]byte{}, region...)
						var perr2 error
						func() {
							defer func() {
								if r := recover(); r != nil {
									perr2 = fmt.Errorf("panic: %v", r)
								}
							}()
							_, perr2 = PtrTrampoline(tf2.Entry, c14Repl, phFunc)
						}()
						c14ForgetPatch(tf2.Entry)
						rep.Eval(1)
						for i := sz; i < slot; i++ {
							if region[i] != shadow2[i] {
								rep.Violate("C14/placeholder-overrun", fmt.Sprintf("origin placeholder of %d bytes reused for a second target (%s after %s, near=%v): byte %d beyond the placeholder (the next function) was overwritten", sz, tf2.Name, tf.Name, near, i),
									map[string]interface{}{"placeholder_size": sz, "target": tf2.Name, "first_target": tf.Name, "near": near})
								break
							}
						}
						if perr2 != nil && !bytes.Equal(region, shadow2) {
							rep.Violate("C14/refused-but-placeholder-modified", fmt.Sprintf("placeholder of %d bytes reused for %s refused (%v) but bytes changed", sz, tf2.Name, perr2), nil)
						}
						rep.Stat("placeholder_reuses", 1)
					}
				}
			}
		}
	}

	// ---- (2e) origin placeholders that are not plain functions: an instantiation of a generic function (its code pointer
	//           is a wrapper that forwards to a body shared with other instantiations) and a function that only forwards
	//           to another one. The relocated head goes into the placeholder's OWN body; what it forwards to is somebody
	//           else's code and stays byte-identical
	if !light {
		phs := []struct {
			name string
			ph   interface{}
			code uintptr
		}{
			{"generic instantiation", &c14OriginInt, vmon.FuncCodePtr(c14OriginInt)},
			{"forwarding function", &c14OriginFwd, vmon.FuncCodePtr(c14OriginFwd)},
		}
		for pi, ph := range phs {
			var own *popFunc
			for i := range funcs {
				if funcs[i].Entry == ph.code {
					own = &funcs[i]
				}
			}
			if own == nil {
				rep.Note("placeholder-"+ph.name, "extent of the placeholder not found in the population")
				continue
			}
			tf := popFunc{Name: "c14PhTarget", Entry: vmon.FuncCodePtr([]func(int) int{c14PhTarget0, c14PhTarget1}[pi])}
			rep.Journal(map[string]interface{}{"part": "placeholder-kind", "kind": ph.name, "target": tf.Name})
			var perr error
			func() {
				defer func() {
					if r := recover(); r != nil {
						perr = fmt.Errorf("panic: %v", r)
					}
				}()
				_, perr = PtrTrampoline(tf.Entry, c14Repl, ph.ph)
			}()
			c14ForgetPatch(tf.Entry)
			rep.Eval(1)
			c := map[string]interface{}{"placeholder": ph.name, "target": tf.Name}
			outside := img.DiffOutside([]vmon.Range{{Start: own.Entry, End: own.End}})
			if len(outside) != 0 {
				rep.Violate("C14/placeholder-written-outside-its-body", fmt.Sprintf("origin placeholder %s (%s [%#x,%#x)) for %s: the image changed at %v, outside the placeholder's own body", ph.name, own.Name, own.Entry, own.End, tf.Name, outside), c)
			} else if perr == nil && len(img.Diff()) == 0 {
				rep.Violate("C14/placeholder-not-written", fmt.Sprintf("origin placeholder %s for %s: accepted, but no byte of the placeholder changed", ph.name, tf.Name), c)
			}
			rep.Class(fmt.Sprintf("placeholder-kind/%s/refused=%v", ph.name, perr != nil))
			if perr != nil {
				rep.Note("placeholder-kind-refusal:"+ph.name, perr.Error())
			}
			// put the placeholder's bytes back (pristine image) for the parts that follow
			if d := img.Diff(); len(d) != 0 {
				memory.WriteTo(own.Entry, img.Pristine(own.Entry, int(own.End-own.Entry)))
			}
			if d := img.Diff(); len(d) != 0 {
				rep.Note("placeholder-"+ph.name, fmt.Sprintf("image not pristine after putting the placeholder back: %v", d))
			}
		}
	}

	// ---- (2c) a padded placeholder that the first trampoline fills to its last padding byte, followed by a neighbour
	//           without the usual prologue, then handed to a target that needs more room: refused, neighbour intact
	if !light {
		const slot = 256
		nprobe := 60
		qbase, qmem := c14Map((3*nprobe*slot + c14Page - 1) / c14Page)
		_ = qbase
		type probe struct {
			f popFunc
			l int
		}
		var probes []probe
		at := 0
		newSlot := func() (uintptr, []byte) {
			c14Fresh(qmem)
			r := qmem[at*slot : (at+1)*slot]
			a := qbase + uintptr(at*slot)
			at++
			return a, r
		}
		asFunc := func(a uintptr) func() {
			fv := &struct{ pc uintptr }{a}
			return *(*func())(unsafe.Pointer(&fv))
		}
		try := func(entry uintptr, ph func()) (err error) {
			defer func() {
				if r := recover(); r != nil {
					err = fmt.Errorf("panic: %v", r)
				}
			}()
			_, err = PtrTrampoline(entry, c14Repl, ph)
			return err
		}
		for i := 0; i < nprobe; i++ {
			tf := idle[(start+i*53+7)%len(idle)]
			a, r := newSlot()
			for k := range r {
				r[k] = 0xCC
			}
			for k := 0; k < 120; k++ {
				r[k] = 0x90
			}
			r[120] = 0xC3
			before := append([]byte{}, r...)
			err := try(tf.Entry, asFunc(a))
			c14ForgetPatch(tf.Entry)
			if err != nil {
				continue
			}
			l := 0
			for k := range r {
				if r[k] != before[k] {
					l = k + 1
				}
			}
			if l >= 18 && l < 60 {
				probes = append(probes, probe{tf, l})
			}
		}
		pairs := 0
		for i := 0; i < len(probes) && pairs < 12; i++ {
			for j := 0; j < len(probes) && pairs < 12; j++ {
				pa, pb := probes[i], probes[j]
				if pb.l <= pa.l {
					continue
				}
				a, r := newSlot()
				for k := range r {
					r[k] = 0xCC
				}
				for k := 0; k < pa.l-2; k++ {
					r[k] = 0x90
				}
				r[pa.l-2] = 0xC3 // body of pa.l-1 bytes, then ONE padding int3: room for exactly pa.l bytes
				copy(r[pa.l:], []byte{0xB8, 0x2A, 0x00, 0x00, 0x00, 0xC3})
				snap := append([]byte{}, r...)
				rep.Journal(map[string]interface{}{"part": "placeholder-filled-then-reused", "first": pa.f.Name, "second": pb.f.Name})
				err1 := try(pa.f.Entry, asFunc(a))
				c14ForgetPatch(pa.f.Entry)
				rep.Eval(1)
				if err1 != nil || !bytes.Equal(r[pa.l:], snap[pa.l:]) {
					if !bytes.Equal(r[pa.l:], snap[pa.l:]) {
						rep.Violate("C14/placeholder-overrun", fmt.Sprintf("placeholder with room for %d bytes, trampoline of %s (%d bytes): bytes behind it changed", pa.l, pa.f.Name, pa.l), nil)
					}
					j = len(probes)
					continue
				}
				snap2 := append([]byte{}, r...)
				err2 := try(pb.f.Entry, asFunc(a))
				c14ForgetPatch(pb.f.Entry)
				rep.Eval(1)
				if !bytes.Equal(r[pa.l:], snap2[pa.l:]) {
					rep.Violate("C14/placeholder-overrun", fmt.Sprintf("a placeholder with room for %d bytes was first filled exactly by the trampoline of %s, then given to %s whose trampoline needs %d bytes: the next function was overwritten (% x -> % x), error: %v",
						pa.l, pa.f.Name, pb.f.Name, pb.l, snap2[pa.l:pa.l+8], r[pa.l:pa.l+8], err2), map[string]interface{}{"room": pa.l, "needs": pb.l})
				} else if err2 == nil {
					rep.Violate("C14/placeholder-overrun", fmt.Sprintf("a %d-byte trampoline (%s) was accepted into a placeholder with room for %d bytes", pb.l, pb.f.Name, pa.l), nil)
				}
				pairs++
				rep.Stat("placeholder_filled_then_reused", 1)
				j = len(probes)
			}
		}
		if pairs > 0 {
			rep.Class("placeholder/filled-exactly-then-reused")
		}
	}

	// ---- (3) WriteTo sweeps across page boundaries of a 4-page mapping
	lens := []int{}
	for l := 1; l <= 80; l++ {
		lens = append(lens, l)
	}
	lens = append(lens, c14Page-3, c14Page-1, c14Page, c14Page+1, c14Page+7, 2*c14Page, 2*c14Page+5)
	deltas := []int{}
	for d := -64; d <= 8; d++ {
		deltas = append(deltas, d)
	}
	if light {
		lens = []int{1, 13, 48, c14Page + 1}
		deltas = []int{-13, -12, -1, 0, 1}
	}
	base, mem := allBase+uintptr(len(allMem)-4*c14Page), allMem[len(allMem)-4*c14Page:]
	c14Fresh(mem)
	for i := range mem {
		mem[i] = byte(i*7 + 3)
	}
	shadow := append([]byte{}, mem...)
	crossing := 0
	for _, boundary := range []int{c14Page, 2 * c14Page, 3 * c14Page} {
		for _, d := range deltas {
			for _, l := range lens {
				off := boundary + d
				if off < 0 || off+l > len(mem) {
					continue
				}
				data := make([]byte, l)
				for i := range data {
					data[i] = byte(rng.Uint64())
				}
				rep.Journal(map[string]interface{}{"part": "writeto", "off": off, "len": l})
				err := memory.WriteTo(base+uintptr(off), data)
				rep.Eval(1)
				if err != nil {
					rep.Violate("C14/writeto-error", fmt.Sprintf("WriteTo(off %d, len %d): %v", off, l, err), nil)
					continue
				}
				copy(shadow[off:], data)
				if !bytes.Equal(mem, shadow) {
					for i := range mem {
						if mem[i] != shadow[i] {
							rep.Violate("C14/writeto-wrong-bytes", fmt.Sprintf("WriteTo(off %d, len %d): first wrong byte at %d", off, l, i), nil)
							break
						}
					}
					copy(shadow, mem)
				}
				first, last := off/c14Page, (off+l-1)/c14Page
				if last > first {
					crossing++
				}
				for pg := first; pg <= last; pg++ {
					if p := vmon.PermsOf(base + uintptr(pg*c14Page)); !strings.HasPrefix(p, "r-x") {
						rep.Violate("C14/page-perms-after-write", fmt.Sprintf("page %d is %s after WriteTo(off %d, len %d)", pg, p, off, l), nil)
					}
				}
				rep.Class(fmt.Sprintf("writeto/pages%d/len%s", last-first+1, map[bool]string{true: "<=80", false: ">80"}[l <= 80]))
			}
		}
	}
	rep.Stat("writes_crossing_a_page_boundary", int64(crossing))
	// ---- (3b) several writers in the same two pages at once (the text writer has a lock of its own: interface stubs
	//           in the fallback reserve and patch-level callers reach it without the patch table's lock)
	if !light {
		cmem := mem[:2*c14Page]
		cbase := base
		c14Fresh(cmem)
		for i := range cmem {
			cmem[i] = 0xCC
		}
		const writers, rounds = 6, 1500
		var wg sync.WaitGroup
		var faults, errs int64
		var firstFault atomic.Value
		bar := vmon.NewSpinBarrier(writers)
		for w := 0; w < writers; w++ {
			wg.Add(1)
			go func(w int) {
				defer wg.Done()
				old := debug.SetPanicOnFault(true)
				defer debug.SetPanicOnFault(old)
				off := 64 + w*96
				if w == writers-1 {
					off = c14Page - 20 // one writer straddles the page boundary
				}
				bar.Wait()
				for r := 0; r < rounds; r++ {
					data := make([]byte, 40)
					for i := range data {
						data[i] = byte(w*37 + r + i)
					}
					func() {
						defer func() {
							if x := recover(); x != nil {
								atomic.AddInt64(&faults, 1)
								firstFault.CompareAndSwap(nil, fmt.Sprintf("writer %d round %d: %v", w, r, x))
							}
						}()
						if err := memory.WriteTo(cbase+uintptr(off), data); err != nil {
							atomic.AddInt64(&errs, 1)
						}
					}()
					if atomic.LoadInt64(&faults) > 0 {
						return
					}
				}
			}(w)
		}
		done := make(chan struct{})
		go func() { wg.Wait(); close(done) }()
		select {
		case <-done:
		case <-time.After(120 * time.Second):
			rep.Violate("C14/concurrent-writers", "six concurrent text writers did not finish within 120 s (a writer that faulted kept the writer lock?)", nil)
		}
		rep.Eval(writers * rounds)
		if f := atomic.LoadInt64(&faults); f > 0 || atomic.LoadInt64(&errs) > 0 {
			rep.Violate("C14/concurrent-writers", fmt.Sprintf("%d faults and %d errors while six goroutines wrote disjoint ranges of two pages through the text writer; first: %v", f, errs, firstFault.Load()), nil)
		} else {
			for w := 0; w < writers; w++ {
				off := 64 + w*96
				if w == writers-1 {
					off = c14Page - 20
				}
				for i := 0; i < 40; i++ {
					if cmem[off+i] != byte(w*37+rounds-1+i) {
						rep.Violate("C14/concurrent-writers", fmt.Sprintf("writer %d: byte %d of its last write is %#02x", w, i, cmem[off+i]), nil)
						break
					}
				}
			}
		}
		for pg := 0; pg < 2; pg++ {
			if p := vmon.PermsOf(cbase + uintptr(pg*c14Page)); !strings.HasPrefix(p, "r-x") {
				rep.Violate("C14/page-perms-after-write", fmt.Sprintf("page %d is %s after the concurrent writers finished", pg, p), nil)
			}
		}
		rep.Class("writeto/concurrent-writers")
		rep.Stat("concurrent_text_writes", writers*rounds)
	}
	if bad := img.BadPerms(); len(bad) != 0 {
		rep.Violate("C14/page-perms-at-end", fmt.Sprintf("%v", bad), nil)
	}
	if d := img.Diff(); len(d) != 0 {
		rep.Violate("C14/image-differs-at-end", fmt.Sprintf("%v", d), nil)
	}
	rep.Sample(map[string]interface{}{"part": "writeto", "example": "off=page-13 len=26 crosses one boundary"})
	rep.Sample(map[string]interface{}{"part": "synthetic", "example": "13-byte function followed directly by another function: must be refused"})
}

//go:nocheckptr
func c14CallNeighbour(addr uintptr, skip int) int {
	// the neighbour begins with the fingerprint bytes (not meant to be executed): call past them
	return c14Call(addr + uintptr(skip))
}

func firstDiff(a, b []byte) int {
	for i := range a {
		if a[i] != b[i] {
			return i
		}
	}
	return -1
}

// origin placeholders of unusual kinds
//
//go:noinline
func c14OriginG[T any](a T) T {
	fmt.Fprintln(io.Discard, "only a placeholder, never called")
	fmt.Fprintln(io.Discard, "only a placeholder, never called")
	fmt.Fprintln(io.Discard, "only a placeholder, never called")
	return a
}

var c14OriginInt = c14OriginG[int]

//go:noinline
func c14OriginInner(a int) int {
	fmt.Fprintln(io.Discard, "the function the forwarding placeholder calls")
	fmt.Fprintln(io.Discard, "the function the forwarding placeholder calls")
	return a + 1
}

//go:noinline
func c14OriginFwdFn(a int) int {
	x := c14OriginInner(a)
	fmt.Fprintln(io.Discard, "forwarding placeholder")
	fmt.Fprintln(io.Discard, "forwarding placeholder")
	return x
}

var c14OriginFwd = c14OriginFwdFn

//go:noinline
func c14PhTarget0(a int) int {
	fmt.Fprintln(io.Discard, "target of the generic placeholder")
	return a * 3
}

//go:noinline
func c14PhTarget1(a int) int {
	fmt.Fprintln(io.Discard, "target of the forwarding placeholder")
	return a * 5
}
