//go:build go1.21

package patch

import (
	"bytes"
	"fmt"
	"runtime"
	"strings"
	"syscall"
	"testing"
	"unsafe"

	"github.com/tencent/goom/internal/bytecode/memory"
	"github.com/tencent/goom/zzverif/vmon"
)

type c14SockFilter struct {
	code   uint16
	jt, jf uint8
	k      uint32
}

type c14SockFprog struct {
	n      uint16
	_      [6]byte
	filter *c14SockFilter
}

// c14DenyWX: mmap and mprotect asking for PROT_WRITE and PROT_EXEC together fail with EACCES in every thread from now on
// (what systemd's MemoryDenyWriteExecute, SELinux without execmem or PaX do). It cannot be undone: own child process.
func c14DenyWX() error {
	prog := []c14SockFilter{
		{0x20, 0, 0, 4},          // A = arch
		{0x15, 0, 6, 0xC000003E}, // x86-64 ? next : allow
		{0x20, 0, 0, 0},          // A = syscall number
		{0x15, 1, 0, 9},          // mmap -> load prot
		{0x15, 0, 3, 10},         // mprotect ? next : allow
		{0x20, 0, 0, 32},         // A = low half of args[2] (prot)
		{0x54, 0, 0, 6},          // A &= PROT_WRITE|PROT_EXEC
		{0x15, 1, 0, 6},          // both -> deny
		{0x06, 0, 0, 0x7fff0000}, // allow
		{0x06, 0, 0, 0x00050000 | uint32(syscall.EACCES)},
	}
	fp := c14SockFprog{n: uint16(len(prog)), filter: &prog[0]}
	runtime.LockOSThread()
	defer runtime.UnlockOSThread()
	if _, _, e := syscall.RawSyscall6(syscall.SYS_PRCTL, 38, 1, 0, 0, 0, 0); e != 0 { // PR_SET_NO_NEW_PRIVS
		return e
	}
	if _, _, e := syscall.RawSyscall(317, 1, 1, uintptr(unsafe.Pointer(&fp))); e != 0 { // seccomp(SET_MODE_FILTER, TSYNC)
		return e
	}
	runtime.KeepAlive(prog)
	return nil
}

func c14MapRX(pages int, fill func([]byte)) (uintptr, []byte) {
	b, err := syscall.Mmap(-1, 0, pages*c14Page, syscall.PROT_READ|syscall.PROT_WRITE, syscall.MAP_PRIVATE|syscall.MAP_ANON)
	if err != nil {
		panic(err)
	}
	fill(b)
	if err := syscall.Mprotect(b, syscall.PROT_READ|syscall.PROT_EXEC); err != nil {
		panic(err)
	}
	return uintptr(unsafe.Pointer(&b[0])), b
}

// TestC14WXDenied: the same page-boundary sweeps while the process may not have memory writable and executable at once,
// which sends every write down the text writer's other route (write window without execute, then back to r-x).
func TestC14WXDenied(t *testing.T) {
	rep := vmon.NewReport("C14")
	defer rep.Write()
	if err := c14DenyWX(); err != nil {
		rep.Note("wx-denied", "seccomp filter not available: "+err.Error())
		rep.Stat("wx_denied_not_exercised", 1)
		rep.Eval(1)
		rep.Class("wx-denied/not-available")
		rep.Class("wx-denied/not-available2")
		return
	}
	if _, err := syscall.Mmap(-1, 0, c14Page, syscall.PROT_READ|syscall.PROT_WRITE|syscall.PROT_EXEC, syscall.MAP_PRIVATE|syscall.MAP_ANON); err == nil {
		rep.Violate("C14/wx-filter-ineffective", "an rwx mapping was obtained although the policy denies it", nil)
		return
	}
	rng := vmon.NewRng(vmon.Seed(), 0xC14DE)
	// (a) WriteTo sweeps around three page boundaries
	base, mem := c14MapRX(4, func(b []byte) {
		for i := range b {
			b[i] = byte(i*7 + 3)
		}
	})
	shadow := append([]byte{}, mem...)
	lens := []int{}
	for l := 1; l <= 48; l++ {
		lens = append(lens, l)
	}
	lens = append(lens, c14Page-1, c14Page, c14Page+1, c14Page+7, 2*c14Page, 2*c14Page+5)
	crossing := 0
	for _, boundary := range []int{c14Page, 2 * c14Page, 3 * c14Page} {
		for d := -50; d <= 4; d++ {
			for _, l := range lens {
				off := boundary + d
				if off < 0 || off+l > len(mem) {
					continue
				}
				data := make([]byte, l)
				for i := range data {
					data[i] = byte(rng.Uint64())
				}
				rep.Journal(map[string]interface{}{"part": "wx-writeto", "off": off, "len": l, "crashkey": "C14/wx-denied-write-dies"})
				err := memory.WriteTo(base+uintptr(off), data)
				rep.Eval(1)
				if err != nil {
					rep.Violate("C14/writeto-error", fmt.Sprintf("W^X policy in force: WriteTo(off %d, len %d): %v", off, l, err), nil)
					continue
				}
				copy(shadow[off:], data)
				if !bytes.Equal(mem, shadow) {
					for i := range mem {
						if mem[i] != shadow[i] {
							rep.Violate("C14/writeto-wrong-bytes", fmt.Sprintf("W^X policy in force: WriteTo(off %d, len %d): first wrong byte at %d (%d bytes behind the start of the write)", off, l, i, i-off),
								map[string]interface{}{"off": off, "len": l, "wx_denied": true})
							break
						}
					}
					copy(shadow, mem)
				}
				first, last := off/c14Page, (off+l-1)/c14Page
				if last > first {
					crossing++
				}
				for pg := 0; pg < 4; pg++ {
					if p := vmon.PermsOf(base + uintptr(pg*c14Page)); !strings.HasPrefix(p, "r-x") {
						rep.Violate("C14/page-perms-after-write", fmt.Sprintf("W^X policy in force: page %d is %s after WriteTo(off %d, len %d)", pg, p, off, l), nil)
					}
				}
				rep.Class(fmt.Sprintf("wx-denied/writeto/pages%d/len%s", last-first+1, map[bool]string{true: "<=48", false: ">48"}[l <= 48]))
			}
		}
	}
	rep.Stat("wx_denied_writes", 1)
	rep.Stat("wx_denied_writes_crossing_a_page_boundary", int64(crossing))
	// (b) installs and removals of the real entry jump on synthetic functions at every entry offset of the last 16 bytes
	//     of a page (and two that stay inside it)
	for _, back := range []int{200, 40, 16, 15, 14, 13, 12, 11, 10, 9, 8, 7, 6, 5, 4, 3, 2, 1} {
		var off int
		sBase, sMem := c14MapRX(3, func(b []byte) {
			for i := range b {
				b[i] = 0xCC
			}
			off = c14Page - back
			copy(b[off:], synthFunc(32, 0x440000+uint32(back)))
			// the neighbour starts with the fingerprint goom's extent scan stops at, then returns a constant
			copy(b[off+32+3:], append(append([]byte{}, c14prologue...), 0x90, 0xB8, 0x11, 0x22, 0x33, 0x00, 0xC3))
		})
		orig := append([]byte{}, sMem...)
		entry := sBase + uintptr(off)
		rep.Journal(map[string]interface{}{"part": "wx-install", "back": back, "crashkey": "C14/wx-denied-install-dies"})
		var g *Guard
		var perr interface{}
		func() {
			defer func() { perr = recover() }()
			g, perr = PtrTrampoline(entry, c14Repl, nil)
			if perr == nil {
				g.Apply()
			}
		}()
		rep.Eval(1)
		if perr != nil {
			rep.Violate("C14/wx-denied-install-refused", fmt.Sprintf("W^X policy in force: entry %d bytes before a page end: %v", back, perr), nil)
			continue
		}
		j := vmon.DecodeJumpBytes(sMem[off:off+13], entry, false)
		if j.Kind == vmon.JumpEntry && strings.HasPrefix(vmon.PermsOf(j.Ctx), "r") {
			j = vmon.DecodeJumpAt(entry)
		}
		if j.Kind != vmon.JumpEntry || j.Target != vmon.FuncCodePtr(c14Repl) {
			rep.Violate("C14/entry-jump-torn", fmt.Sprintf("W^X policy in force: entry %d bytes before a page end: entry bytes % x are not the jump to the replacement", back, sMem[off:off+13]),
				map[string]interface{}{"back": back, "wx_denied": true})
		} else if got := c14Call(entry); got != 0x5EED {
			rep.Violate("C14/patched-synthetic-not-diverted", fmt.Sprintf("W^X policy in force: patched synthetic function returned %#x", got), nil)
		}
		for i := range sMem {
			if (i < off || i >= off+13) && sMem[i] != orig[i] {
				rep.Violate("C14/stray-byte-on-apply", fmt.Sprintf("W^X policy in force: entry %d bytes before a page end: byte at offset %d changed (entry jump occupies [%d,%d))", back, i, off, off+13), nil)
				break
			}
		}
		if got := c14CallNeighbour(entry+35, len(c14prologue)+1); got != 0x332211 {
			rep.Violate("C14/neighbour-corrupted", fmt.Sprintf("W^X policy in force: neighbour returns %#x", got), nil)
		}
		g.UnpatchWithLock()
		c14ForgetPatch(entry)
		if !bytes.Equal(sMem, orig) {
			rep.Violate("C14/not-restored", fmt.Sprintf("W^X policy in force: entry %d bytes before a page end not restored", back), nil)
		}
		for pg := 0; pg < 3; pg++ {
			if p := vmon.PermsOf(sBase + uintptr(pg*c14Page)); !strings.HasPrefix(p, "r-x") {
				rep.Violate("C14/page-perms-after-apply", fmt.Sprintf("W^X policy in force: page %d is %s after install and removal", pg, p), nil)
			}
		}
		rep.Stat("wx_denied_installs", 1)
		if back < 13 {
			rep.Stat("wx_denied_installs_straddling_page", 1)
		}
		rep.Class(fmt.Sprintf("wx-denied/install/straddle=%v", back < 13))
	}
}
