//go:build go1.21

package c16

import (
	"fmt"
	"sync"
	"sync/atomic"
	"testing"

	"github.com/tencent/goom/internal/arch/x86asm"
	"github.com/tencent/goom/internal/bytecode"
	"github.com/tencent/goom/zzverif/vmon"
)

// TestC16ParseIns: goom's own entry point to the decoder (bytecode.ParseIns, used for prologue copying and extent
// scanning) on blocks that are the first n bytes of real functions, given as slices whose capacity reaches far beyond
// their length: what it reports depends on the bytes SUPPLIED only - never a length or a window beyond the block, and
// the same answer as for a private copy of the block.
func TestC16ParseIns(t *testing.T) {
	rep := vmon.NewReport("C16")
	defer rep.Write()
	bins := binaries()
	if len(bins) > 1 {
		bins = bins[:1]
	}
	im, err := loadImage(bins[0])
	if err != nil {
		rep.Inconclusive = "cannot load own binary: " + err.Error()
		return
	}
	rng := vmon.NewRng(vmon.Seed(), 1616)
	nf := vmon.EnvInt("VERIF_C16_PARSEFUNCS", 3000)
	var blocks, steps int64
	for k := 0; k < nf; k++ {
		f := im.funcs[rng.Intn(len(im.funcs))]
		if f.end-f.off < 24 {
			continue
		}
		full := im.text[f.off:f.end] // capacity reaches to the end of the text section
		for _, n := range []int{1, 2, 3, 5, 8, 13, 14, 15, 16, 17, 23, 32} {
			if n > len(full) {
				break
			}
			block := full[:n]
			private := append(make([]byte, 0, n), block...)
			blocks++
			pos := 0
			for pos < n {
				var perr interface{}
				var l1, l2, w1, w2 int
				var e1, e2 error
				func() {
					defer func() { perr = recover() }()
					i1, c1, er1 := bytecode.ParseIns(pos, block)
					i2, c2, er2 := bytecode.ParseIns(pos, private[:n:n])
					e1, e2 = er1, er2
					if i1 != nil {
						l1, w1 = i1.Len, len(c1)
					}
					if i2 != nil {
						l2, w2 = i2.Len, len(c2)
					}
				}()
				steps++
				c := map[string]interface{}{"function": f.name, "block_len": n, "pos": pos, "bytes": fmt.Sprintf("% x", block)}
				if perr != nil {
					rep.Violate("C16/panic", fmt.Sprintf("ParseIns(%d, first %d bytes of %s) panicked: %v", pos, n, f.name, perr), c)
					break
				}
				if w1 > n-pos || (e1 == nil && l1 > n-pos) {
					rep.Violate("C16/length-beyond-supplied-bytes", fmt.Sprintf("ParseIns(%d, first %d bytes of %s): window %d bytes, instruction length %d, but only %d bytes were supplied from that position", pos, n, f.name, w1, l1, n-pos), c)
					break
				}
				if l1 != l2 || w1 != w2 || (e1 == nil) != (e2 == nil) {
					rep.Violate("C16/answer-depends-on-bytes-behind-the-block", fmt.Sprintf("ParseIns(%d, first %d bytes of %s): length %d window %d err %v for the slice of the text, length %d window %d err %v for a private copy of the same bytes", pos, n, f.name, l1, w1, e1, l2, w2, e2), c)
					break
				}
				if e1 != nil || l1 <= 0 {
					break
				}
				pos += l1
			}
		}
	}
	// results are values of their own: an instruction kept while the walk goes on still describes the instruction it was
	// decoded from; walkers in several goroutines do not see each other's instructions
	type snap struct {
		pos, length, pcrel, pcreloff int
		op                           string
	}
	walk := func(code []byte, keep bool) (snaps []snap, kept []*x86asm.Inst, err interface{}) {
		defer func() {
			if r := recover(); r != nil {
				err = r
			}
		}()
		for pos := 0; pos < len(code); {
			ins, _, e := bytecode.ParseIns(pos, code)
			if e != nil || ins == nil || ins.Len <= 0 {
				break
			}
			snaps = append(snaps, snap{pos, ins.Len, ins.PCRel, ins.PCRelOff, ins.Op.String()})
			if keep {
				kept = append(kept, ins)
			}
			pos += ins.Len
		}
		return
	}
	var keptChecked int64
	var sample [][]byte
	for k := 0; k < nf/4; k++ {
		f := im.funcs[rng.Intn(len(im.funcs))]
		if f.end-f.off < 24 || f.end-f.off > 4096 {
			continue
		}
		code := append([]byte{}, im.text[f.off:f.end]...)
		if len(sample) < 64 {
			sample = append(sample, code)
		}
		snaps, kept, perr := walk(code, true)
		if perr != nil {
			rep.Violate("C16/panic", fmt.Sprintf("walking %s with ParseIns panicked: %v", f.name, perr), nil)
			continue
		}
		for i, ins := range kept {
			keptChecked++
			if now := (snap{snaps[i].pos, ins.Len, ins.PCRel, ins.PCRelOff, ins.Op.String()}); now != snaps[i] {
				rep.Violate("C16/kept-result-changed-by-a-later-call", fmt.Sprintf("%s: the instruction returned for offset %d was %s len %d pcrel %d/%d when it was returned and reads %s len %d pcrel %d/%d after the walk went on",
					f.name, snaps[i].pos, snaps[i].op, snaps[i].length, snaps[i].pcrel, snaps[i].pcreloff, now.op, now.length, now.pcrel, now.pcreloff), map[string]interface{}{"function": f.name, "offset": snaps[i].pos})
				break
			}
		}
	}
	steps += keptChecked
	rep.Stat("parseins_kept_results_checked", keptChecked)
	rep.Class("parseins/results-kept")
	if len(sample) >= 8 {
		refs := make([][]snap, len(sample))
		for i, code := range sample {
			refs[i], _, _ = walk(code, false)
		}
		const walkers = 8
		rounds := vmon.EnvInt("VERIF_C16_WALKROUNDS", 300)
		var wg sync.WaitGroup
		var bad, walks int64
		var first atomic.Value
		bar := vmon.NewSpinBarrier(walkers)
		for g := 0; g < walkers; g++ {
			wg.Add(1)
			go func(g int) {
				defer wg.Done()
				bar.Wait()
				for r := 0; r < rounds; r++ {
					i := (g*7 + r) % len(sample)
					got, _, perr := walk(sample[i], false)
					atomic.AddInt64(&walks, 1)
					same := perr == nil && len(got) == len(refs[i])
					for k := 0; same && k < len(got); k++ {
						same = got[k] == refs[i][k]
					}
					if !same {
						atomic.AddInt64(&bad, 1)
						first.CompareAndSwap(nil, fmt.Sprintf("goroutine %d, round %d, function sample %d: %d instructions (panic: %v), alone %d", g, r, i, len(got), perr, len(refs[i])))
					}
				}
			}(g)
		}
		wg.Wait()
		steps += walks
		if bad > 0 {
			rep.Violate("C16/concurrent-walks-disagree", fmt.Sprintf("%d of %d walks by %d goroutines at once differ from the same walk made alone; first: %v", bad, walks, walkers, first.Load()), nil)
		}
		rep.Stat("parseins_concurrent_walks", walks)
		rep.Class("parseins/concurrent-walkers")
	}
	rep.Eval(steps)
	rep.Stat("parseins_blocks", blocks)
	rep.Stat("parseins_steps", steps)
	rep.Class("parseins/capacity-beyond-length")
	rep.Class("parseins/private-copy")
}
