//go:build go1.21

package c16

import (
	"fmt"
	"testing"

	"github.com/tencent/goom/internal/bytecode"
	"github.com/tencent/goom/zzverif/vmon"
)

// TestC16ParseIns: goom's own entry point to the decoder (bytecode.ParseIns, used for prologue copying and extent
// scanning) on blocks that are the first n bytes of real functions, given as slices whose capacity reaches far beyond
// their length: what it reports depends on the bytes SUPPLIED only - never a length or a window beyond the block, and
// the same answer as for a private copy of the block.
func TestC16ParseIns(t *testing.T) {
	rep := vmon.NewReport("C16")
	defer rep.Write()
	bins := binaries()
	if len(bins) > 1 {
		bins = bins[:1]
	}
	im, err := loadImage(bins[0])
	if err != nil {
		rep.Inconclusive = "cannot load own binary: " + err.Error()
		return
	}
	rng := vmon.NewRng(vmon.Seed(), 1616)
	nf := vmon.EnvInt("VERIF_C16_PARSEFUNCS", 3000)
	var blocks, steps int64
	for k := 0; k < nf; k++ {
		f := im.funcs[rng.Intn(len(im.funcs))]
		if f.end-f.off < 24 {
			continue
		}
		full := im.text[f.off:f.end] // capacity reaches to the end of the text section
		for _, n := range []int{1, 2, 3, 5, 8, 13, 14, 15, 16, 17, 23, 32} {
			if n > len(full) {
				break
			}
			block := full[:n]
			private := append(make([]byte, 0, n), block...)
			blocks++
			pos := 0
			for pos < n {
				var perr interface{}
				var l1, l2, w1, w2 int
				var e1, e2 error
				func() {
					defer func() { perr = recover() }()
					i1, c1, er1 := bytecode.ParseIns(pos, block)
					i2, c2, er2 := bytecode.ParseIns(pos, private[:n:n])
					e1, e2 = er1, er2
					if i1 != nil {
						l1, w1 = i1.Len, len(c1)
					}
					if i2 != nil {
						l2, w2 = i2.Len, len(c2)
					}
				}()
				steps++
				c := map[string]interface{}{"function": f.name, "block_len": n, "pos": pos, "bytes": fmt.Sprintf("% x", block)}
				if perr != nil {
					rep.Violate("C16/panic", fmt.Sprintf("ParseIns(%d, first %d bytes of %s) panicked: %v", pos, n, f.name, perr), c)
					break
				}
				if w1 > n-pos || (e1 == nil && l1 > n-pos) {
					rep.Violate("C16/length-beyond-supplied-bytes", fmt.Sprintf("ParseIns(%d, first %d bytes of %s): window %d bytes, instruction length %d, but only %d bytes were supplied from that position", pos, n, f.name, w1, l1, n-pos), c)
					break
				}
				if l1 != l2 || w1 != w2 || (e1 == nil) != (e2 == nil) {
					rep.Violate("C16/answer-depends-on-bytes-behind-the-block", fmt.Sprintf("ParseIns(%d, first %d bytes of %s): length %d window %d err %v for the slice of the text, length %d window %d err %v for a private copy of the same bytes", pos, n, f.name, l1, w1, e1, l2, w2, e2), c)
					break
				}
				if e1 != nil || l1 <= 0 {
					break
				}
				pos += l1
			}
		}
	}
	rep.Eval(steps)
	rep.Stat("parseins_blocks", blocks)
	rep.Stat("parseins_steps", steps)
	rep.Class("parseins/capacity-beyond-length")
	rep.Class("parseins/private-copy")
}
