//go:build go1.21

package c16

import (
	"fmt"
	"testing"

	goom "github.com/tencent/goom/internal/arch/x86asm"
	ref "github.com/tencent/goom/zzverif/ref/x86asm"
	"github.com/tencent/goom/zzverif/vmon"
)

// TestC16OpcodeMap: every opcode of the one-byte, 0F, 0F 38 and 0F 3A maps under every mandatory/size prefix the
// assembler uses (none, 66, F2, F3, each with and without REX.W, REX.B/R, and the two VEX forms for the 0F maps), with
// register, memory, SIB and RIP-relative operand forms and every /digit. The binaries of the corpus only contain what
// the compiler happened to emit; the assembler can emit all of these (hand-written assembly in crypto, runtime, math).
// For each byte string both decoders must agree on decodability, length, opcode and the PC-relative field.
func TestC16OpcodeMap(t *testing.T) {
	rep := vmon.NewReport("C16")
	defer rep.Write()
	prefixes := [][]byte{{}, {0x66}, {0xF2}, {0xF3}, {0x48}, {0x66, 0x48}, {0xF2, 0x48}, {0xF3, 0x48}, {0x41}, {0x44}, {0x4D}, {0x66, 0x41}}
	maps := [][]byte{{}, {0x0F}, {0x0F, 0x38}, {0x0F, 0x3A}}
	var modrms []byte
	for reg := 0; reg < 8; reg++ {
		for _, mrm := range []byte{0x00, 0x05, 0x04, 0x40, 0x44, 0x80, 0x84, 0xC0, 0xC1, 0xC7} {
			modrms = append(modrms, mrm|byte(reg<<3))
		}
	}
	tail := []byte{0x25, 0x10, 0x20, 0x30, 0x40, 0x50, 0x60, 0x70, 0x01, 0x02, 0x03, 0x04}
	var cases, agreeOK, agreeErr, newer int64
	compare := func(src []byte, class string) {
		cases++
		var gi goom.Inst
		var gerr error
		var perr interface{}
		func() {
			defer func() { perr = recover() }()
			gi, gerr = goom.Decode(src, 64)
		}()
		c := map[string]interface{}{"bytes": fmt.Sprintf("% x", src), "class": class}
		if perr != nil {
			rep.Violate("C16/panic", fmt.Sprintf("Decode(% x) panicked: %v", src, perr), c)
			return
		}
		if why := structural(gi, gerr, len(src)); why != "" {
			rep.Violate("C16/structural", fmt.Sprintf("Decode(% x): %s", src, why), c)
			return
		}
		ri, rerr := ref.Decode(src, 64)

		if (gerr == nil) != (rerr == nil) {
			rep.Violate("C16/disagrees-with-reference", fmt.Sprintf("opcode map %s: % x: goom %v (%v), reference %v (%v)", class, src[:min(len(src), 8)], gerr == nil, gi.Op, rerr == nil, ri.Op), c)
			return
		}
		if gerr != nil {
			agreeErr++
			return
		}
		if ok, why := sameInst(gi, ri); !ok {
			rep.Violate("C16/disagrees-with-reference", fmt.Sprintf("opcode map %s: % x: %s", class, src[:min(len(src), gi.Len+1)], why), c)
			return
		}
		agreeOK++
	}
	for mi, m := range maps {
		for _, p := range prefixes {
			for op := 0; op < 256; op++ {
				if len(m) == 0 && op == 0x0F {
					continue // the escape byte: the 0F maps follow
				}
				if len(m) == 1 && (op == 0xB9 || op == 0xFF) {
					// 0F B9 /r and 0F FF /r: the deliberately undefined opcodes UD1 and UD0. The (newer) reference
					// table names UD0 and gives UD1 a ModRM byte; goom's copy of the table does not know the one
					// and takes the other without operands. Nothing emits either.
					newer += int64(len(modrms))
					continue
				}
				for _, mrm := range modrms {
					src := append(append(append(append([]byte{}, p...), m...), byte(op), mrm), tail...)
					compare(src, fmt.Sprintf("map%d", mi))
				}
			}
			rep.Class(fmt.Sprintf("opmap/map%d/prefix%x", mi, p))
		}
	}
	// the VEX forms of the 0F maps (C5 two-byte, C4 three-byte), both vector lengths, the four mandatory prefixes
	for op := 0; op < 256; op++ {
		if op == 0x0F || op == 0xB9 || op == 0xFF {
			continue // behind a VEX prefix these lead to the same re-specified UD0/UD1 entries
		}
		for _, mrm := range modrms {
			for _, b1 := range []byte{0xF8, 0xF9, 0xFA, 0xFB, 0xFC, 0xFD, 0x78, 0x7D, 0x39} { // R vvvv L pp
				compare(append(append([]byte{0xC5, b1, byte(op), mrm}, tail...)), "vex2")
			}
			for _, mm := range []byte{0xE1, 0xE2, 0xE3, 0xC1, 0x62} { // R X B m-mmmm
				for _, b2 := range []byte{0x78, 0x79, 0x7D, 0xF9, 0x7B, 0x41} { // W vvvv L pp
					compare(append(append([]byte{0xC4, mm, b2, byte(op), mrm}, tail...)), "vex3")
				}
			}
		}
	}
	rep.Class("opmap/vex2")
	rep.Class("opmap/vex3")
	rep.Eval(cases)
	rep.Stat("opmap_cases", cases)
	rep.Stat("opmap_both_decode_and_agree", agreeOK)
	rep.Stat("opmap_both_reject", agreeErr)
	rep.Stat("opmap_ud0_ud1_respecified_in_the_newer_reference", newer)
}
