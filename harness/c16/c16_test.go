//go:build go1.21

package c16

import (
	"debug/elf"
	"debug/gosym"
	"fmt"
	"os"
	"path/filepath"
	"runtime"
	"strings"
	"sync"
	"sync/atomic"
	"testing"

	goom "github.com/tencent/goom/internal/arch/x86asm"
	ref "github.com/tencent/goom/zzverif/ref/x86asm"
	"github.com/tencent/goom/zzverif/vmon"
)

type fn struct {
	name     string
	off, end int // offsets into text
}

type image struct {
	path  string
	text  []byte
	base  uint64
	funcs []fn
}

func loadImage(path string) (*image, error) {
	f, err := elf.Open(path)
	if err != nil {
		return nil, err
	}
	defer f.Close()
	ts := f.Section(".text")
	ps := f.Section(".gopclntab")
	if ts == nil || ps == nil {
		return nil, fmt.Errorf("%s: no .text/.gopclntab", path)
	}
	text, err := ts.Data()
	if err != nil {
		return nil, err
	}
	pd, err := ps.Data()
	if err != nil {
		return nil, err
	}
	tab, err := gosym.NewTable(nil, gosym.NewLineTable(pd, ts.Addr))
	if err != nil {
		return nil, err
	}
	im := &image{path: path, text: text, base: ts.Addr}
	for i := range tab.Funcs {
		fu := &tab.Funcs[i]
		if fu.Entry < ts.Addr || fu.End > ts.Addr+uint64(len(text)) || fu.End <= fu.Entry {
			continue
		}
		im.funcs = append(im.funcs, fn{fu.Name, int(fu.Entry - ts.Addr), int(fu.End - ts.Addr)})
	}
	return im, nil
}

type walkStats struct {
	insts, noOracle, funcs, pcrel int64
}

func sameInst(g goom.Inst, r ref.Inst) (bool, string) {
	if g.Len != r.Len {
		return false, fmt.Sprintf("len goom=%d ref=%d", g.Len, r.Len)
	}
	if g.Op.String() != r.Op.String() {
		return false, fmt.Sprintf("op goom=%s ref=%s", g.Op, r.Op)
	}
	if g.Opcode != r.Opcode {
		return false, fmt.Sprintf("opcode word goom=%#08x ref=%#08x", g.Opcode, r.Opcode)
	}
	if g.PCRel != r.PCRel || g.PCRelOff != r.PCRelOff {
		return false, fmt.Sprintf("pcrel goom=%d@%d ref=%d@%d", g.PCRel, g.PCRelOff, r.PCRel, r.PCRelOff)
	}
	return true, ""
}

func structural(g goom.Inst, err error, n int) string {
	max := 15
	if n < max {
		max = n
	}
	if err == nil {
		if g.Len < 1 || g.Len > max {
			return fmt.Sprintf("success with Len=%d (src %d bytes)", g.Len, n)
		}
		switch g.PCRel {
		case 0, 1, 2, 4, 8:
		default:
			return fmt.Sprintf("PCRel=%d", g.PCRel)
		}
		if g.PCRelOff < 0 || g.PCRelOff+g.PCRel > g.Len {
			return fmt.Sprintf("PCRel field [%d,%d) outside instruction of %d bytes", g.PCRelOff, g.PCRelOff+g.PCRel, g.Len)
		}
		if g.PCRel == 0 && g.PCRelOff != 0 {
			return fmt.Sprintf("PCRelOff=%d without PCRel", g.PCRelOff)
		}
	} else if g.Len < 0 || g.Len > max {
		return fmt.Sprintf("error with Len=%d (src %d bytes)", g.Len, n)
	}
	return ""
}

func walkFunc(im *image, f fn, rep *vmon.Report, ops map[string]struct{}, st *walkStats) {
	pos := f.off
	st.funcs++
	defer func() {
		if r := recover(); r != nil {
			rep.Violate("C16/panic", fmt.Sprintf("%s %s+%#x: decoder panicked: %v", filepath.Base(im.path), f.name, pos-f.off, r),
				map[string]interface{}{"bytes": fmt.Sprintf("%x", im.text[pos:min(pos+16, len(im.text))])})
		}
	}()
	for pos < f.end {
		e := pos + 16
		if e > len(im.text) {
			e = len(im.text)
		}
		src := im.text[pos:e]
		ri, rerr := ref.Decode(src, 64)
		gi, gerr := goom.Decode(src, 64)
		if s := structural(gi, gerr, len(src)); s != "" {
			rep.Violate("C16/structural", fmt.Sprintf("%s %s+%#x: %s", filepath.Base(im.path), f.name, pos-f.off, s),
				map[string]interface{}{"bytes": fmt.Sprintf("%x", src)})
		}
		if rerr != nil {
			st.noOracle++
			return // re-synchronise at the next function
		}
		if gerr != nil {
			rep.Violate("C16/goom-fails-on-emitted-instruction", fmt.Sprintf("%s %s+%#x: goom: %v, reference: %s", filepath.Base(im.path), f.name, pos-f.off, gerr, ri.String()),
				map[string]interface{}{"bytes": fmt.Sprintf("%x", src[:ri.Len])})
			return
		}
		if ok, why := sameInst(gi, ri); !ok {
			rep.Violate("C16/disagrees-with-reference", fmt.Sprintf("%s %s+%#x: %s (%s)", filepath.Base(im.path), f.name, pos-f.off, why, ri.String()),
				map[string]interface{}{"bytes": fmt.Sprintf("%x", src[:ri.Len])})
			return
		}
		// the same instruction with not one byte behind it (the last instruction of a buffer): same answer
		if gi.Op == 0 {
			// goom's own answer is a lone prefix (an encoding outside its tables): nothing to compare
		} else if gx, xerr := goom.Decode(src[:ri.Len:ri.Len], 64); xerr != nil || gx.Len != gi.Len || gx.Op != gi.Op || gx.Opcode != gi.Opcode || gx.PCRel != gi.PCRel || gx.PCRelOff != gi.PCRelOff || gx.String() != gi.String() {
			rep.Violate("C16/answer-depends-on-bytes-behind-the-instruction", fmt.Sprintf("%s %s+%#x: %s decoded from exactly its %d bytes gives %s (len %d, pcrel %d@%d, err %v), with bytes behind it len %d, pcrel %d@%d", filepath.Base(im.path), f.name, pos-f.off, gi.String(), ri.Len, gx.String(), gx.Len, gx.PCRel, gx.PCRelOff, xerr, gi.Len, gi.PCRel, gi.PCRelOff),
				map[string]interface{}{"bytes": fmt.Sprintf("%x", src[:ri.Len])})
			return
		}
		st.insts++
		if gi.PCRel != 0 {
			st.pcrel++
		}
		k := gi.Op.String()
		if _, ok := ops[k]; !ok {
			ops[k] = struct{}{}
		}
		pos += gi.Len
	}
}

func min(a, b int) int {
	if a < b {
		return a
	}
	return b
}

func binaries() []string {
	var out []string
	if exe, err := os.Executable(); err == nil {
		out = append(out, exe)
	}
	roots := []string{runtime.GOROOT(), "/opt/veriftools/go1.26.8"}
	names := []string{"bin/go", "bin/gofmt", "pkg/tool/linux_amd64/compile", "pkg/tool/linux_amd64/link", "pkg/tool/linux_amd64/asm", "pkg/tool/linux_amd64/vet", "pkg/tool/linux_amd64/cgo"}
	for _, r := range roots {
		for _, n := range names {
			p := filepath.Join(r, n)
			if st, err := os.Stat(p); err == nil && !st.IsDir() {
				out = append(out, p)
			}
		}
	}
	return out
}

func TestC16(t *testing.T) {
	rep := vmon.NewReport("C16")
	defer rep.Write()
	seed := vmon.Seed()
	workers := vmon.EnvInt("VERIF_WORKERS", 16)

	bins := binaries()
	if !vmon.Thorough() && len(bins) > 3 {
		bins = bins[:3] // own binary + go + gofmt of the repo toolchain
	}
	var images []*image
	for _, b := range bins {
		im, err := loadImage(b)
		if err != nil {
			rep.Note("skip:"+b, err.Error())
			continue
		}
		images = append(images, im)
		rep.Stat("binaries", 1)
	}
	if len(images) == 0 {
		rep.Inconclusive = "no binary with pclntab could be loaded"
		return
	}

	// ---- exactness walk
	type job struct {
		im     *image
		lo, hi int
	}
	var jobs []job
	for _, im := range images {
		for i := 0; i < len(im.funcs); i += 256 {
			jobs = append(jobs, job{im, i, min(i+256, len(im.funcs))})
		}
	}
	var next int64 = -1
	var mu sync.Mutex
	allOps := map[string]struct{}{}
	var tot walkStats
	var wg sync.WaitGroup
	for w := 0; w < workers; w++ {
		wg.Add(1)
		go func() {
			defer wg.Done()
			ops := map[string]struct{}{}
			var st walkStats
			for {
				i := int(atomic.AddInt64(&next, 1))
				if i >= len(jobs) {
					break
				}
				j := jobs[i]
				for k := j.lo; k < j.hi; k++ {
					walkFunc(j.im, j.im.funcs[k], rep, ops, &st)
				}
			}
			mu.Lock()
			for k := range ops {
				allOps[k] = struct{}{}
			}
			tot.insts += st.insts
			tot.noOracle += st.noOracle
			tot.funcs += st.funcs
			tot.pcrel += st.pcrel
			mu.Unlock()
		}()
	}
	wg.Wait()
	for k := range allOps {
		rep.Class("op:" + k)
	}
	rep.Stat("functions_walked", tot.funcs)
	rep.Stat("instructions_agreeing", tot.insts)
	rep.Stat("pcrel_instructions_agreeing", tot.pcrel)
	rep.Stat("functions_cut_short_no_oracle", tot.noOracle)
	rep.Eval(tot.insts)

	// ---- totality fuzz: random strings and operand-mutated real instructions
	nfuzz := int64(2_000_000)
	if vmon.Thorough() {
		nfuzz = 100_000_000
	}
	nfuzz = int64(vmon.EnvInt("VERIF_C16_FUZZ", int(nfuzz)))
	own := images[0]
	var fuzzed, fuzzOK, fuzzErr int64
	per := nfuzz / int64(workers)
	for w := 0; w < workers; w++ {
		wg.Add(1)
		go func(w int) {
			defer wg.Done()
			rng := vmon.NewRng(seed, uint64(1000+w))
			var buf [16]byte
			var okc, errc int64
			var n int
			i := int64(0)
			for i < per {
				func() {
					defer func() {
						if r := recover(); r != nil {
							rep.Violate("C16/panic", fmt.Sprintf("fuzz input %x: decoder panicked: %v", buf[:n], r), map[string]interface{}{"bytes": fmt.Sprintf("%x", buf[:n])})
							i++
						}
					}()
					for ; i < per; i++ {
						n = 1 + rng.Intn(16)
						if i%3 == 2 {
							// a real instruction padded to exactly 15 and 16 bytes with redundant legacy prefixes:
							// the architectural 15-byte limit must hold whatever window the caller passes
							f := own.funcs[rng.Intn(len(own.funcs))]
							p := f.off + rng.Intn(f.end-f.off)
							ri, rerr := ref.Decode(own.text[p:min(p+16, len(own.text))], 64)
							l := 1
							if rerr == nil {
								l = ri.Len
							}
							total := 15 + rng.Intn(2)
							if l > total {
								l = total
							}
							pre := []byte{0x66, 0x2e, 0x3e, 0x26, 0x36, 0x64, 0x65, 0x67, 0xf2, 0xf3}
							n = 0
							for ; n < total-l; n++ {
								buf[n] = pre[rng.Intn(len(pre))]
							}
							n += copy(buf[n:], own.text[p:p+l])
						} else if i&1 == 0 {
							for k := 0; k < n; k += 8 {
								v := rng.Uint64()
								for b := 0; b < 8 && k+b < n; b++ {
									buf[k+b] = byte(v >> (8 * b))
								}
							}
						} else {
							// a real instruction start from our own text, with 1-3 bytes mutated
							f := own.funcs[rng.Intn(len(own.funcs))]
							p := f.off + rng.Intn(f.end-f.off)
							n = copy(buf[:], own.text[p:min(p+16, len(own.text))])
							if n == 0 {
								n = 1
							}
							for m := 1 + rng.Intn(3); m > 0; m-- {
								buf[rng.Intn(n)] ^= byte(1 << uint(rng.Intn(8)))
							}
							if rng.Chance(1, 4) {
								n = 1 + rng.Intn(n)
							}
						}
						gi, gerr := goom.Decode(buf[:n], 64)
						if s := structural(gi, gerr, n); s != "" {
							rep.Violate("C16/structural", fmt.Sprintf("fuzz input %x: %s", buf[:n], s), map[string]interface{}{"bytes": fmt.Sprintf("%x", buf[:n])})
						}
						if gerr == nil {
							okc++
						} else {
							errc++
						}
					}
				}()
			}
			atomic.AddInt64(&fuzzed, per)
			atomic.AddInt64(&fuzzOK, okc)
			atomic.AddInt64(&fuzzErr, errc)
		}(w)
	}
	wg.Wait()
	rep.Eval(fuzzed)
	rep.Stat("fuzz_inputs", fuzzed)
	rep.Stat("fuzz_decoded", fuzzOK)
	rep.Stat("fuzz_rejected", fuzzErr)
	var names []string
	for _, im := range images {
		names = append(names, fmt.Sprintf("%s(%d funcs)", strings.TrimPrefix(im.path, "/"), len(im.funcs)))
	}
	rep.Note("binaries", strings.Join(names, ", "))
	// samples: first instructions of a few functions
	for i := 0; i < 3 && i < len(own.funcs); i++ {
		f := own.funcs[(int(seed)*7919+i*104729)%len(own.funcs)]
		src := own.text[f.off:min(f.off+16, len(own.text))]
		gi, _ := goom.Decode(src, 64)
		ri, _ := ref.Decode(src, 64)
		rep.Sample(map[string]interface{}{"func": f.name, "bytes": fmt.Sprintf("%x", src[:min(gi.Len, len(src))]), "goom": gi.String(), "ref": ri.String(), "len": gi.Len, "pcrel": gi.PCRel, "pcreloff": gi.PCRelOff})
	}
}
