//go:build go1.21

package c16

import (
	"bytes"
	"fmt"
	"testing"

	"github.com/tencent/goom/internal/bytecode"
	ref "github.com/tencent/goom/zzverif/ref/x86asm"
	"github.com/tencent/goom/zzverif/vmon"
)

var prologue64 = []byte{0x65, 0x48, 0x8b, 0x0c, 0x25, 0x30, 0x00, 0x00, 0x00, 0x48}

// refExtent is goom's extent scan made with the reference decoder on the bytes of the binary: instruction after
// instruction until a decode error, the first instruction behind int3 padding, or the next prologue
func refExtent(text []byte, off int) int {
	cur, int3 := 0, false
	for {
		p := off + cur
		if p >= len(text) {
			return cur
		}
		end := p + 16
		if end > len(text) {
			end = len(text)
		}
		code := text[p:end]
		inst, err := ref.Decode(code, 64)
		if err != nil || (inst.Opcode == 0 && inst.Len == 1 && inst.Prefix[0] == ref.Prefix(code[0])) {
			return cur
		}
		if inst.Len == 1 && code[0] == 0xCC {
			int3 = true
		} else if int3 {
			return cur
		}
		cur += inst.Len
		if off+cur+len(prologue64) <= len(text) && bytes.Equal(prologue64, text[off+cur:off+cur+len(prologue64)]) {
			return cur
		}
	}
}

// TestC16FuncSize: goom's extent scan (bytecode.GetFuncSize - its decoder applied instruction after instruction from a
// function's entry until padding or the next prologue) over the functions of the running binary, compared with the
// same scan made with the reference decoder: wherever one decoder sees another instruction boundary, length or padding
// byte than the other, the extents differ. (An extent that stops early hides the rest of the function from every check
// goom makes with it.)
func TestC16FuncSize(t *testing.T) {
	rep := vmon.NewReport("C16")
	defer rep.Write()
	bins := binaries()
	im, err := loadImage(bins[0])
	if err != nil {
		rep.Inconclusive = "cannot load own binary: " + err.Error()
		return
	}
	rng := vmon.NewRng(vmon.Seed(), 1617)
	n := vmon.EnvInt("VERIF_C16_SIZEFUNCS", 4000)
	var checked, agree, beyondCode int64
	for k := 0; k < n; k++ {
		f := im.funcs[rng.Intn(len(im.funcs))]
		if f.end-f.off < 16 {
			continue
		}
		addr := uintptr(im.base) + uintptr(f.off)
		var sz int
		var perr interface{}
		func() {
			defer func() { perr = recover() }()
			sz, _ = bytecode.GetFuncSize(64, addr, false)
		}()
		want := refExtent(im.text, int(f.off))
		checked++
		c := map[string]interface{}{"function": f.name, "slot_bytes": f.end - f.off, "reported": sz, "reference": want}
		switch {
		case perr != nil:
			rep.Violate("C16/panic", fmt.Sprintf("GetFuncSize(%s) panicked: %v", f.name, perr), c)
		case sz != want:
			rep.Violate("C16/extent-disagrees-with-reference", fmt.Sprintf("%s (%d bytes up to the next function): goom's scan ends after %d bytes, the same scan with the reference decoder after %d", f.name, f.end-f.off, sz, want), c)
		default:
			agree++
			if sz > int(f.end-f.off) {
				beyondCode++
			}
		}
	}
	rep.Stat("funcsize_functions", checked)
	rep.Stat("funcsize_agree", agree)
	rep.Stat("funcsize_extents_running_into_the_next_function", beyondCode)
	rep.Eval(checked)
	rep.Class("funcsize/own-binary")
	rep.Class("funcsize/differential")
}
