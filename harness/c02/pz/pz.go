//go:build go1.21

// Package pz defines an unexported function with the same name as one in package c02.
package pz

import "reflect"

//go:noinline
func ufoo(a int) int { return a*11 + 500 }

//go:noinline
func Ufoo(a int) int { return ufoo(a) }

func UfooEntry() uintptr { return reflect.ValueOf(ufoo).Pointer() }
