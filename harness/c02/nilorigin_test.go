//go:build go1.21

package c02

import (
	"fmt"
	"testing"

	mocker "github.com/tencent/goom"
	"github.com/tencent/goom/zzverif/vmon"
)

var nilOriginSink int

//go:noinline
func nilOriginTarget(i int) int {
	if i < -10000 {
		nilOriginSink += i
		fmt.Println("never", i)
	}
	return i*5 + 1
}

type nilOriginT struct{ k int }

//go:noinline
func (t *nilOriginT) M(i int) int {
	if i < -10000 {
		nilOriginSink += i
		fmt.Println("never", i)
	}
	return i*7 + t.k
}

// TestC02NilOrigin: Origin(&v) where v is a declared function variable without a body (nil): whatever the library makes
// of v, the only bytes of the image that differ while the mock is live - applied once, re-applied, stubbed, re-applied
// again through the same mocker - are the entry jump of the target, and after Reset the image is the pristine one.
func TestC02NilOrigin(t *testing.T) {
	rep := vmon.NewReport("C02")
	defer rep.Write()
	img := vmon.SnapshotText()
	entryF := vmon.FuncCodePtr(nilOriginTarget)
	entryM := vmon.FuncCodePtr((*nilOriginT).M)
	for _, form := range []string{"function", "method"} {
		for _, seq := range [][]string{{"apply"}, {"apply", "apply"}, {"apply", "return", "apply"}, {"return", "apply", "apply"}, {"apply", "when", "apply", "apply"}} {
			var originF func(int) int
			var originM func(*nilOriginT, int) int
			b := mocker.Create()
			entry := entryF
			var m mocker.ExportedMocker
			if form == "function" {
				m = b.Func(nilOriginTarget).Origin(&originF)
			} else {
				entry = entryM
				m = b.Struct(&nilOriginT{}).Method("M").Origin(&originM)
			}
			call := func() int {
				if form == "function" {
					return nilOriginTarget(3)
				}
				return (&nilOriginT{k: 2}).M(3)
			}
			orig := call()
			hist := ""
			bad := false
			for si, op := range seq {
				hist += op + " "
				want := 1000 + si
				var perr interface{}
				func() {
					defer func() { perr = recover() }()
					switch op {
					case "apply":
						if form == "function" {
							m.Apply(func(int) int { return want })
						} else {
							m.Apply(func(*nilOriginT, int) int { return want })
						}
					case "return":
						m.Return(want)
					case "when":
						m.When(3).Return(want)
					}
				}()
				rep.Eval(2)
				if perr != nil {
					rep.Note("nil-origin", fmt.Sprintf("%s: %s refused: %v", form, hist, perr))
					break
				}
				if d := img.DiffOutside([]vmon.Range{{Start: entry, End: entry + 13}}); len(d) != 0 {
					rep.Violate("C02/stray-bytes-differ", fmt.Sprintf("%s mocked with Origin(&v), v a nil function variable, after [%s]: the image differs outside the target's entry jump: %v", form, hist, d), map[string]interface{}{"form": form, "history": hist})
					bad = true
					break
				}
				if got := call(); got != want {
					rep.Violate("C02/mocked-behaviour-wrong", fmt.Sprintf("%s mocked with Origin(&v), v nil, after [%s]: call gives %d, want %d", form, hist, got, want), nil)
				}
			}
			func() { defer func() { recover() }(); b.Reset() }()
			if d := img.Diff(); len(d) != 0 {
				rep.Violate("C02/bytes-not-restored", fmt.Sprintf("%s mocked with Origin(&v), v a nil function variable, [%s] then Reset: the image differs from the pristine one at %v", form, hist, d), map[string]interface{}{"form": form, "history": hist})
				rep.Write()
				return // the code is damaged: nothing more is called
			}
			if !bad {
				if got := call(); got != orig {
					rep.Violate("C02/behaviour-not-restored", fmt.Sprintf("%s after [%s] and Reset gives %d, want %d", form, hist, got, orig), nil)
				}
			}
			rep.Class(fmt.Sprintf("nil-origin/%s/%d-instructions", form, len(seq)))
		}
	}
}
