//go:build go1.21

package c02

import (
	"fmt"
	"testing"

	mocker "github.com/tencent/goom"
	"github.com/tencent/goom/zzverif/vmon"
)

var nilOriginSink int

//go:noinline
func nilOriginTarget(i int) int {
	if i < -10000 {
		nilOriginSink += i
		fmt.Println("never", i)
	}
	return i*5 + 1
}

type nilOriginT struct{ k int }

//go:noinline
func (t *nilOriginT) M(i int) int {
	if i < -10000 {
		nilOriginSink += i
		fmt.Println("never", i)
	}
	return i*7 + t.k
}

// TestC02NilOrigin: Origin(&v) where v is a declared function variable without a body (nil): whatever the library makes
// of v, the only bytes of the image that differ while the mock is live - applied once, re-applied, stubbed, re-applied
// again through the same mocker - are the entry jump of the target, and after Reset the image is the pristine one.
func TestC02NilOrigin(t *testing.T) {
	rep := vmon.NewReport("C02")
	defer rep.Write()
	img := vmon.SnapshotText()
	entryF := vmon.FuncCodePtr(nilOriginTarget)
	entryM := vmon.FuncCodePtr((*nilOriginT).M)
	for _, form := range []string{"function", "method"} {
		for _, seq := range [][]string{{"apply"}, {"apply", "apply"}, {"apply", "return", "apply"}, {"return", "apply", "apply"}, {"apply", "when", "apply", "apply"}} {
			var originF func(int) int
			var originM func(*nilOriginT, int) int
			b := mocker.Create()
			entry := entryF
			var m mocker.ExportedMocker
			if form == "function" {
				m = b.Func(nilOriginTarget).Origin(&originF)
			} else {
				entry = entryM
				m = b.Struct(&nilOriginT{}).Method("M").Origin(&originM)
			}
			call := func() int {
				if form == "function" {
					return nilOriginTarget(3)
				}
				return (&nilOriginT{k: 2}).M(3)
			}
			orig := call()
			hist := ""
			bad := false
			for si, op := range seq {
				hist += op + " "
				want := 1000 + si
				var perr interface{}
				func() {
					defer func() { perr = recover() }()
					switch op {
					case "apply":
						if form == "function" {
							m.Apply(func(int) int { return want })
						} else {
							m.Apply(func(*nilOriginT, int) int { return want })
						}
					case "return":
						m.Return(want)
					case "when":
						m.When(3).Return(want)
					}
				}()
				rep.Eval(2)
				if perr != nil {
					rep.Note("nil-origin", fmt.Sprintf("%s: %s refused: %v", form, hist, perr))
					break
				}
				if d := img.DiffOutside([]vmon.Range{{Start: entry, End: entry + 13}}); len(d) != 0 {
					rep.Violate("C02/stray-bytes-differ", fmt.Sprintf("%s mocked with Origin(&v), v a nil function variable, after [%s]: the image differs outside the target's entry jump: %v", form, hist, d), map[string]interface{}{"form": form, "history": hist})
					bad = true
					break
				}
				if got := call(); got != want {
					rep.Violate("C02/mocked-behaviour-wrong", fmt.Sprintf("%s mocked with Origin(&v), v nil, after [%s]: call gives %d, want %d", form, hist, got, want), nil)
				}
			}
			func() { defer func() { recover() }(); b.Reset() }()
			if d := img.Diff(); len(d) != 0 {
				rep.Violate("C02/bytes-not-restored", fmt.Sprintf("%s mocked with Origin(&v), v a nil function variable, [%s] then Reset: the image differs from the pristine one at %v", form, hist, d), map[string]interface{}{"form": form, "history": hist})
				rep.Write()
				return // the code is damaged: nothing more is called
			}
			if !bad {
				if got := call(); got != orig {
					rep.Violate("C02/behaviour-not-restored", fmt.Sprintf("%s after [%s] and Reset gives %d, want %d", form, hist, got, orig), nil)
				}
			}
			rep.Class(fmt.Sprintf("nil-origin/%s/%d-instructions", form, len(seq)))
		}
	}
}

//go:noinline
func tinyN0(i int) int { return i + 1 }

//go:noinline
func tinyN1(i int) int { return i + 2 }

//go:noinline
func tinyN2(i int) int { return i + 3 }

//go:noinline
func tinyN3(i int) int { return i + 4 }

// TestC02TinyNeighbours: functions of a few bytes lie in adjacent 32-byte slots; mocking, re-applying and cancelling one
// of them in every order never changes a byte of its neighbours (beyond a neighbour's own entry jump while that one is
// mocked), and after the last Reset the image is pristine.
func TestC02TinyNeighbours(t *testing.T) {
	rep := vmon.NewReport("C02")
	defer rep.Write()
	img := vmon.SnapshotText()
	fs := []func(int) int{tinyN0, tinyN1, tinyN2, tinyN3}
	entry := make([]uintptr, len(fs))
	adjacent := 0
	for i, f := range fs {
		entry[i] = vmon.FuncCodePtr(f)
		if i > 0 && entry[i]-entry[i-1] == 32 {
			adjacent++
		}
	}
	rep.Stat("tiny_neighbour_pairs_32_bytes_apart", int64(adjacent))
	rng := vmon.NewRng(vmon.Seed(), 2222)
	n := vmon.EnvInt("VERIF_C02_TINY", 300)
	for h := 0; h < n; h++ {
		bs := make([]*mocker.Builder, len(fs))
		val := make([]int, len(fs)) // 0: not mocked
		hist := ""
		steps := 4 + rng.Intn(8)
		ok := true
		for s := 0; s < steps && ok; s++ {
			i := rng.Intn(len(fs))
			var perr interface{}
			switch op := rng.Intn(4); {
			case op <= 1: // apply or re-apply
				v := 5000 + h*16 + s
				hist += fmt.Sprintf("apply(%d) ", i)
				if bs[i] == nil {
					bs[i] = mocker.Create()
				}
				func() {
					defer func() { perr = recover() }()
					if op == 0 || val[i] != 0 { // (a second Return on a live stub would extend its sequence)
						bs[i].Func(fs[i]).Apply(func(int) int { return v })
					} else {
						bs[i].Func(fs[i]).Return(v)
					}
				}()
				if perr == nil {
					val[i] = v
				}
			default:
				hist += fmt.Sprintf("reset(%d) ", i)
				if bs[i] != nil {
					func() { defer func() { perr = recover() }(); bs[i].Reset() }()
					val[i] = 0
				}
			}
			rep.Eval(1)
			if perr != nil {
				rep.Note("tiny-neighbours", fmt.Sprintf("[%s] refused: %v", hist, perr))
			}
			var allowed []vmon.Range
			for k := range fs {
				if val[k] != 0 {
					allowed = append(allowed, vmon.Range{Start: entry[k], End: entry[k] + 13})
				}
			}
			if d := img.DiffOutside(allowed); len(d) != 0 {
				rep.Violate("C02/stray-bytes-differ", fmt.Sprintf("functions in adjacent slots (entries %#x) after [%s]: the image differs outside the entry jumps of the functions mocked now (%v): %v", entry, hist, val, d), map[string]interface{}{"history": hist})
				ok = false
				break
			}
			for k, f := range fs {
				want := 7 + k + 1
				if val[k] != 0 {
					want = val[k]
					if !img.Contains(entry[k]) || string(vmon.ReadMem(entry[k], 13)) == string(img.Pristine(entry[k], 13)) {
						rep.Violate("C02/mocked-target-has-pristine-bytes", fmt.Sprintf("tiny function %d after [%s]: mocked, but its entry holds the pristine bytes", k, hist), map[string]interface{}{"history": hist})
						ok = false
						break
					}
				}
				if got := f(7); got != want {
					rep.Violate("C02/mocked-behaviour-wrong", fmt.Sprintf("tiny function %d after [%s]: call gives %d, want %d", k, hist, got, want), map[string]interface{}{"history": hist})
					ok = false
					break
				}
			}
		}
		for _, b := range bs {
			if b != nil {
				func() { defer func() { recover() }(); b.Reset() }()
			}
		}
		if d := img.Diff(); len(d) != 0 {
			rep.Violate("C02/bytes-not-restored", fmt.Sprintf("functions in adjacent slots after [%s] and the Reset of every builder: the image differs from the pristine one at %v", hist, d), map[string]interface{}{"history": hist})
			rep.Write()
			return
		}
		rep.Class(fmt.Sprintf("tiny-neighbours/steps=%d", steps))
	}
	if adjacent == 0 {
		rep.Note("tiny-neighbours", "the linker placed none of the four functions 32 bytes behind its predecessor")
	}
}
