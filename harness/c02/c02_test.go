//go:build go1.21

package c02

import (
	"fmt"
	"testing"

	mocker "github.com/tencent/goom"
	"github.com/tencent/goom/arg"
	"github.com/tencent/goom/zzverif/c02/pz"
	"github.com/tencent/goom/zzverif/vmon"
)

const marker = 1 << 40

type tgt struct {
	name        string
	entry       uintptr
	call        func(a int) int
	orig        func(a int) int
	handle      func(b *mocker.Builder) mocker.ExportedMocker
	cb          func(v int) interface{}
	ocb         func() interface{} // callback that calls the origin placeholder
	ph          interface{}        // pointer to placeholder var
	phAddr      uintptr
	recvIsParam bool // As(): the receiver is an ordinary first parameter of the stub
	// refusesOrigin: goom cannot build a trampoline for this function (Origin(...).Apply must be refused)
	refusesOrigin bool
}

func targets() []*tgt {
	var ts []*tgt
	fs := []func(int) int{C0, C1, C2, C3, C4, C5, C6, C7, C8, C9, C10, C11}
	phs := []*func(int) int{&ph0, &ph1, &ph2, &ph3, &ph4, &ph5, &ph6, &ph7, &ph8, &ph9, &ph10, &ph11}
	for k := range fs {
		f, ph, k := fs[k], phs[k], k
		ts = append(ts, &tgt{name: fmt.Sprintf("C%d", k), entry: vmon.FuncCodePtr(f), call: f, orig: func(a int) int { return a*(k+3) + k },
			handle: func(b *mocker.Builder) mocker.ExportedMocker { return b.Func(f) },
			cb:     func(v int) interface{} { return func(a int) int { return v } },
			ocb:    func() interface{} { return func(a int) int { return (*ph)(a) | marker } },
			ph:     ph, phAddr: vmon.FuncCodePtr(*ph)})
	}
	ms := []func(*CT, int) int{(*CT).M0, (*CT).M1, (*CT).M2, (*CT).M3, (*CT).M4, (*CT).M5}
	phms := []*func(*CT, int) int{&phm0, &phm1, &phm2, &phm3, &phm4, &phm5}
	for k := range ms {
		m, ph, k := ms[k], phms[k], k
		ts = append(ts, &tgt{name: fmt.Sprintf("CT.M%d", k), entry: vmon.FuncCodePtr(m), call: func(a int) int { return m(&CT{v: 9}, a) }, orig: func(a int) int { return 9 + a*(k+2) + 100 + k },
			handle: func(b *mocker.Builder) mocker.ExportedMocker { return ctContainer(b).Method(fmt.Sprintf("M%d", k)) },
			cb:     func(v int) interface{} { return func(t *CT, a int) int { return v } },
			ocb:    func() interface{} { return func(t *CT, a int) int { return (*ph)(t, a) | marker } },
			ph:     ph, phAddr: vmon.FuncCodePtr(*ph)})
	}
	// unexported methods reached through Struct(x).ExportMethod(name): several of them on one struct in one builder
	ums := []func(*CT, int) int{(*CT).um0, (*CT).um1, (*CT).um2}
	phus := []*func(*CT, int) int{&phu0, &phu1, &phu2}
	for k := range ums {
		m, ph, k := ums[k], phus[k], k
		ts = append(ts, &tgt{name: fmt.Sprintf("CT.um%d", k), entry: vmon.FuncCodePtr(m), call: func(a int) int { return m(&CT{v: 9}, a) }, orig: func(a int) int { return 9 + a*(k+5) + 300 + k },
			handle: func(b *mocker.Builder) mocker.ExportedMocker {
				return ctContainer(b).ExportMethod(fmt.Sprintf("um%d", k)).As(func(t *CT, a int) int { return 0 })
			},
			cb:  func(v int) interface{} { return func(t *CT, a int) int { return v } },
			ocb: func() interface{} { return func(t *CT, a int) int { return (*ph)(t, a) | marker } },
			ph:  ph, phAddr: vmon.FuncCodePtr(*ph), recvIsParam: true})
	}
	// unexported methods reached through ExportStruct("*CT").Method(name)
	ems := []func(*CT, int) int{(*CT).um3, (*CT).um4}
	phes := []*func(*CT, int) int{&phu3, &phu4}
	for k := range ems {
		m, ph, k := ems[k], phes[k], k
		ts = append(ts, &tgt{name: fmt.Sprintf("ExportStruct(*CT).um%d", k+3), entry: vmon.FuncCodePtr(m), call: func(a int) int { return m(&CT{v: 9}, a) }, orig: func(a int) int { return 9 + a*(k+8) + 300 + k + 3 },
			handle: func(b *mocker.Builder) mocker.ExportedMocker {
				return b.ExportStruct("*CT").Method(fmt.Sprintf("um%d", k+3)).As(func(t *CT, a int) int { return 0 })
			},
			cb:  func(v int) interface{} { return func(t *CT, a int) int { return v } },
			ocb: func() interface{} { return func(t *CT, a int) int { return (*ph)(t, a) | marker } },
			ph:  ph, phAddr: vmon.FuncCodePtr(*ph), recvIsParam: true})
	}
	ts = append(ts, &tgt{name: "CLoop", entry: vmon.FuncCodePtr(CLoop), call: CLoop, orig: func(n int) int {
		for n > 0 {
			n -= 3
		}
		return n
	},
		handle: func(b *mocker.Builder) mocker.ExportedMocker { return b.Func(CLoop) },
		cb:     func(v int) interface{} { return func(a int) int { return v } },
		ocb:    func() interface{} { return func(a int) int { return phl2(a) | marker } },
		ph:     &phl2, phAddr: vmon.FuncCodePtr(phl2), refusesOrigin: true})
	// function literals held in package variables
	lits := []func(int) int{Lit0, Lit1, Lit2}
	phls := []*func(int) int{&phl0, &phl1, &phl3}
	for k := range lits {
		f, ph, k := lits[k], phls[k], k
		ts = append(ts, &tgt{name: fmt.Sprintf("literal%d", k), entry: vmon.FuncCodePtr(f), call: f, orig: func(a int) int { return a*17 + 600 + k + 1 },
			handle: func(b *mocker.Builder) mocker.ExportedMocker { return b.Func(f) },
			cb:     func(v int) interface{} { return func(a int) int { return v } },
			ocb:    func() interface{} { return func(a int) int { return (*ph)(a) | marker } },
			ph:     ph, phAddr: vmon.FuncCodePtr(*ph)})
	}
	// unexported functions addressed by name: the same name in this package and in another one (Pkg override)
	ts = append(ts, &tgt{name: "ExportFunc(ufoo)", entry: vmon.FuncCodePtr(ufoo), call: ufoo, orig: func(a int) int { return a*9 + 400 },
		handle: func(b *mocker.Builder) mocker.ExportedMocker {
			return b.ExportFunc("ufoo").As(func(a int) int { return 0 })
		},
		cb:  func(v int) interface{} { return func(a int) int { return v } },
		ocb: func() interface{} { return func(a int) int { return phf0(a) | marker } },
		ph:  &phf0, phAddr: vmon.FuncCodePtr(phf0)})
	ts = append(ts, &tgt{name: "Pkg(pz).ExportFunc(ufoo)", entry: pz.UfooEntry(), call: pz.Ufoo, orig: func(a int) int { return a*11 + 500 },
		handle: func(b *mocker.Builder) mocker.ExportedMocker {
			return b.Pkg("github.com/tencent/goom/zzverif/c02/pz").ExportFunc("ufoo").As(func(a int) int { return 0 })
		},
		cb:  func(v int) interface{} { return func(a int) int { return v } },
		ocb: func() interface{} { return func(a int) int { return phf1(a) | marker } },
		ph:  &phf1, phAddr: vmon.FuncCodePtr(phf1)})
	return ts
}

// ctContainer: the user holds on to the container Struct(&CT{}) returned first - also across Reset - and works
// through it every other time; the other times the builder is asked again (which also happens in between).
var (
	ctKept  = map[*mocker.Builder]*mocker.CachedMethodMocker{}
	ctTurns = map[*mocker.Builder]int{}
)

func ctContainer(b *mocker.Builder) *mocker.CachedMethodMocker {
	fresh := b.Struct(&CT{})
	kept, ok := ctKept[b]
	if !ok {
		ctKept[b] = fresh
		return fresh
	}
	ctTurns[b]++
	if ctTurns[b]%2 == 0 {
		return kept
	}
	return fresh
}

type neighbour struct {
	name string
	call func(a int) int
	orig func(a int) int
}

func neighbours() []neighbour {
	ns := []neighbour{}
	for _, k := range []int{0, 3, 6, 9} {
		k := k
		f := map[int]func(int) int{0: N0, 3: N3, 6: N6, 9: N9}[k]
		ns = append(ns, neighbour{fmt.Sprintf("N%d", k), f, func(a int) int { return a ^ (0x100 + k) }})
	}
	ns = append(ns, neighbour{"LitHelper", LitHelper, func(a int) int { return a*17 + 600 }})
	ns = append(ns, neighbour{"LitGen[int]", func(a int) int { return LitGen[int](a, a) }, func(a int) int { return a*17 + 600 }})
	ns = append(ns, neighbour{"LitGen[string]", func(a int) int { return LitGen[string]("s", a) }, func(a int) int { return a*17 + 600 }})
	for _, k := range []int{0, 2, 4} {
		k := k
		m := map[int]func(*CT, int) int{0: (*CT).NM0, 2: (*CT).NM2, 4: (*CT).NM4}[k]
		ns = append(ns, neighbour{fmt.Sprintf("CT.NM%d", k), func(a int) int { return m(&CT{v: 9}, a) }, func(a int) int { return 9 - a - k }})
	}
	return ns
}

// per (builder,target) configuration
type cfg struct {
	mode       string // none | cb | ocb | stub
	cbVal      int
	hasDefault bool
	hasWhen    bool
}

// placeholders stay overwritten for the rest of the process
var phUsedGlobal = map[uintptr]bool{}

type world struct {
	rep     *vmon.Report
	img     *vmon.TextImage
	ts      []*tgt
	ns      []neighbour
	bs      []*mocker.Builder
	cfgs    [][]cfg // [builder][target]
	cur     []int   // builder currently in effect on target, -1 none
	amb     []bool  // two builders touched the target and the statement does not settle who is in effect
	touched [][]bool
	phUsed  map[uintptr]bool
	kept    map[[2]int]mocker.ExportedMocker // mocker objects the "user" held on to
	sess    map[[2]int]bool                  // true: every instruction for (builder,target) goes through the kept object
	cbs     map[[2]int]interface{}           // (target, value) -> the one callback value used for it
	// poisoned: this builder's mocker for the target still carries an origin placeholder goom refused
	poisoned map[[2]int]bool
	rng      *vmon.Rng
	hist     []string
	bad      bool
	maxLive  int
}

func retVal(b, t int) int  { return 100000 + b*1000 + t }
func whenVal(b, t int) int { return 200000 + b*1000 + t }
func whenArg(t int) int    { return 50 + t }

func newWorld(rep *vmon.Report, img *vmon.TextImage, ts []*tgt, ns []neighbour, nb int) *world {
	w := &world{rep: rep, img: img, ts: ts, ns: ns, phUsed: phUsedGlobal}
	w.amb = make([]bool, len(ts))
	w.kept = map[[2]int]mocker.ExportedMocker{}
	w.cbs = map[[2]int]interface{}{}
	w.sess = map[[2]int]bool{}
	w.poisoned = map[[2]int]bool{}
	for i := 0; i < nb; i++ {
		w.bs = append(w.bs, mocker.Create())
		w.cfgs = append(w.cfgs, make([]cfg, len(ts)))
		w.touched = append(w.touched, make([]bool, len(ts)))
	}
	w.cur = make([]int, len(ts))
	for i := range w.cur {
		w.cur[i] = -1
	}
	return w
}

func (w *world) viol(key, what string) {
	w.bad = true
	w.rep.Violate(key, fmt.Sprintf("%s after %v", what, w.hist), map[string]interface{}{"history": append([]string{}, w.hist...)})
}

func safe(f func(int) int, a int) (v int, p interface{}) {
	defer func() { p = recover() }()
	return f(a), nil
}

// verify checks image and behaviour after a step
func (w *world) verify() {
	w.rep.Eval(1)
	// (1) bytes
	var allowed []vmon.Range
	live := 0
	for ti, t := range w.ts {
		b := vmon.ReadMem(t.entry, 13)
		pr := w.img.Pristine(t.entry, 13)
		same := string(b) == string(pr)
		if w.amb[ti] {
			allowed = append(allowed, vmon.Range{Start: t.entry, End: t.entry + 13})
			if j := vmon.DecodeJumpBytes(b, t.entry, false); !same && j.Kind != vmon.JumpEntry {
				w.viol("C02/entry-bytes-malformed", fmt.Sprintf("%s entry bytes % x are neither pristine nor a well-formed entry jump", t.name, b))
			}
			continue
		}
		if w.cur[ti] >= 0 {
			live++
			allowed = append(allowed, vmon.Range{Start: t.entry, End: t.entry + 13})
			if same {
				w.viol("C02/mocked-target-has-pristine-bytes", fmt.Sprintf("%s should be mocked by builder %d but its entry bytes are pristine", t.name, w.cur[ti]))
			} else if j := vmon.DecodeJumpBytes(b, t.entry, false); j.Kind != vmon.JumpEntry {
				w.viol("C02/entry-bytes-malformed", fmt.Sprintf("%s entry bytes % x are neither pristine nor a well-formed entry jump", t.name, b))
			}
		} else if !same {
			w.viol("C02/bytes-not-restored", fmt.Sprintf("%s is not mocked but its entry bytes are % x, pristine % x", t.name, b, pr))
		}
	}
	if live > w.maxLive {
		w.maxLive = live
	}
	for a := range w.phUsed {
		allowed = append(allowed, vmon.Range{Start: a, End: a + 300})
	}
	if d := w.img.DiffOutside(allowed); len(d) != 0 {
		w.viol("C02/stray-bytes-differ", fmt.Sprintf("image differs outside entry jumps of mocked targets and used placeholders: %v", d))
	}
	w.rep.Stat("image_compares", 1)
	if w.bad {
		w.rep.Write() // bytes are wrong: calling the targets may crash the process, keep what was observed
		return
	}
	// (2) behaviour
	for ti, t := range w.ts {
		bi := w.cur[ti]
		if w.amb[ti] {
			safe(t.call, 7) // must not crash; the value is not settled by the statement
			continue
		}
		if bi < 0 {
			for _, a := range []int{7, whenArg(ti)} {
				if v, p := safe(t.call, a); p != nil || v != t.orig(a) {
					w.viol("C02/behaviour-not-restored", fmt.Sprintf("%s(%d) = %d (panic %v), want the original %d", t.name, a, v, p, t.orig(a)))
				}
			}
			continue
		}
		c := w.cfgs[bi][ti]
		switch c.mode {
		case "cb":
			if v, p := safe(t.call, 7); p != nil || v != c.cbVal {
				w.viol("C02/mocked-behaviour-wrong", fmt.Sprintf("%s(7) = %d (panic %v), want callback value %d of builder %d", t.name, v, p, c.cbVal, bi))
			}
		case "ocb":
			if v, p := safe(t.call, 7); p != nil || v != t.orig(7)|marker {
				w.viol("C02/mocked-behaviour-wrong", fmt.Sprintf("%s(7) = %d (panic %v), want origin|marker = %d", t.name, v, p, t.orig(7)|marker))
			}
		case "stub":
			if c.hasWhen {
				if v, p := safe(t.call, whenArg(ti)); p != nil || v != whenVal(bi, ti) {
					w.viol("C02/mocked-behaviour-wrong", fmt.Sprintf("%s(%d) = %d (panic %v), want When value %d", t.name, whenArg(ti), v, p, whenVal(bi, ti)))
				}
			}
			if c.hasDefault {
				if v, p := safe(t.call, 7); p != nil || v != retVal(bi, ti) {
					w.viol("C02/mocked-behaviour-wrong", fmt.Sprintf("%s(7) = %d (panic %v), want Return value %d", t.name, v, p, retVal(bi, ti)))
				}
			}
		}
	}
	for _, n := range w.ns {
		if v, p := safe(n.call, 5); p != nil || v != n.orig(5) {
			w.viol("C02/neighbour-altered", fmt.Sprintf("neighbour %s(5) = %d (panic %v), want %d", n.name, v, p, n.orig(5)))
		}
	}
}

type op struct {
	kind string // applyA applyB origin return when cancel reset badapply
	b, t int
}

func (o op) String() string {
	if o.kind == "reset" {
		return fmt.Sprintf("b%d.Reset", o.b)
	}
	return fmt.Sprintf("b%d.%s(t%d)", o.b, o.kind, o.t)
}

func (w *world) apply(o op) {
	w.hist = append(w.hist, fmt.Sprintf("%s[%s]", o.String(), func() string {
		if o.kind == "reset" {
			return ""
		}
		return w.ts[o.t].name
	}()))
	w.rep.Journal(map[string]interface{}{"hist": w.hist})
	var perr interface{}
	func() {
		defer func() { perr = recover() }()
		b := w.bs[o.b]
		// stale: X configured t earlier and somebody else is (or has been) in effect since: what a further
		// Return/When of X does is not settled by the statement (X's mocker is not told it was superseded)
		stale := func() bool {
			m := w.cfgs[o.b][o.t].mode
			return m != "none" && m != "" && (w.cur[o.t] != o.b || w.amb[o.t])
		}
		switch o.kind {
		case "applyA", "applyB":
			v := 7000 + o.b*100 + o.t
			if o.kind == "applyB" {
				v += 1000
			}
			if w.sess[[2]int{o.b, o.t}] {
				w.hist[len(w.hist)-1] += "(kept handle)"
			}
			// the same callback VALUE every time this builder applies this variant to this target (a test helper that
			// installs its one stub again), not a fresh closure per apply
			ck := [2]int{o.t, v}
			if _, ok := w.cbs[ck]; !ok {
				w.cbs[ck] = w.ts[o.t].cb(v)
			}
			w.lookup(o.b, o.t).Apply(w.cbs[ck])
			w.cfgs[o.b][o.t] = cfg{mode: "cb", cbVal: v}
			w.cur[o.t], w.amb[o.t] = o.b, false
			w.touched[o.b][o.t] = true
		case "originonly":
			// Origin(...) alone configures the next Apply and installs nothing - also on a kept object whose mock was
			// reset: the target stays as it is
			t := w.ts[o.t]
			w.phUsed[t.phAddr] = true
			if w.sess[[2]int{o.b, o.t}] {
				w.hist[len(w.hist)-1] += "(kept handle)"
			}
			w.lookup(o.b, o.t).Origin(t.ph)
		case "origin":
			t := w.ts[o.t]
			w.phUsed[t.phAddr] = true
			w.lookup(o.b, o.t).Origin(t.ph).Apply(t.ocb())
			w.cfgs[o.b][o.t] = cfg{mode: "ocb"}
			w.cur[o.t], w.amb[o.t] = o.b, false
			w.touched[o.b][o.t] = true
		case "return", "when":
			st := stale()
			if o.kind == "return" {
				w.lookup(o.b, o.t).Return(retVal(o.b, o.t))
			} else {
				if w.ts[o.t].recvIsParam {
					w.lookup(o.b, o.t).When(arg.Any(), whenArg(o.t)).Return(whenVal(o.b, o.t))
				} else {
					w.lookup(o.b, o.t).When(whenArg(o.t)).Return(whenVal(o.b, o.t))
				}
			}
			c := w.cfgs[o.b][o.t]
			if c.mode != "stub" {
				c = cfg{mode: "stub"}
			}
			if o.kind == "return" {
				c.hasDefault = true
			} else {
				c.hasWhen = true
			}
			w.cfgs[o.b][o.t] = c
			w.touched[o.b][o.t] = true
			if st {
				w.amb[o.t] = true
			} else {
				w.cur[o.t], w.amb[o.t] = o.b, false
			}
		case "badorigin":
			// an Apply that the patch layer itself refuses (the prologue cannot be moved into an origin placeholder):
			// nothing changes, whatever was or was not in effect stays so - in particular a mock that was cancelled before
			// does not come back
			var rej interface{}
			func() {
				defer func() { rej = recover() }()
				w.lookup(o.b, o.t).Origin(w.ts[o.t].ph).Apply(w.ts[o.t].ocb())
			}()
			if rej == nil {
				w.viol("C02/unrelocatable-origin-accepted", fmt.Sprintf("%s: an origin placeholder was accepted for a function whose loop re-enters its first bytes", w.ts[o.t].name))
			}
			w.rep.Stat("refused_origin_applies", 1)
			w.poisoned[[2]int{o.b, o.t}] = true
			w.touched[o.b][o.t] = true
		case "badapply":
			// an Apply whose callback cannot fit the target is rejected; whatever was in effect stays in effect and
			// stays removable (the model does not change)
			var rej interface{}
			func() {
				defer func() { rej = recover() }()
				w.lookup(o.b, o.t).Apply(func(a, b, c, d string) (string, string) { return a, b })
			}()
			if rej == nil {
				w.amb[o.t] = true // accepted: what the target does now is C13's business
			}
			w.rep.Stat("rejected_applies", 1)
		case "cancel":
			w.lookup(o.b, o.t).Cancel()
			w.release(o.b, o.t)
			delete(w.poisoned, [2]int{o.b, o.t})
		case "reset":
			b.Reset()
			for ti := range w.ts {
				w.release(o.b, ti)
				// a "session" goes on after the builder's Reset: the user still holds the mocker object and applies
				// through it again (table-driven tests do); other objects are looked up afresh
				if !w.sess[[2]int{o.b, ti}] {
					delete(w.kept, [2]int{o.b, ti})
					delete(w.sess, [2]int{o.b, ti})
				}
				delete(w.poisoned, [2]int{o.b, ti})
			}
		}
	}()
	if perr != nil {
		w.viol("C02/operation-panicked", fmt.Sprintf("%s panicked: %v", o, perr))
	}
}

// lookup asks the builder for the mocker of target t and remembers the object (the most recent one the "user" holds)
func (w *world) lookup(bi, ti int) mocker.ExportedMocker {
	k := [2]int{bi, ti}
	if h, ok := w.kept[k]; ok && w.sess[k] {
		return h // a "session": the user keeps working through the mocker object obtained first, also after its Cancel
	}
	h := w.ts[ti].handle(w.bs[bi])
	w.kept[k] = h
	if _, seen := w.sess[k]; !seen {
		w.sess[k] = w.rng != nil && w.rng.Chance(1, 3)
	}
	return h
}

// release models X.Cancel(t) / X.Reset for one target
func (w *world) release(bi, ti int) {
	if !w.touched[bi][ti] {
		return
	}
	live := w.cfgs[bi][ti].mode != "none" && w.cfgs[bi][ti].mode != ""
	w.cfgs[bi][ti] = cfg{mode: "none"}
	switch {
	case live:
		// "after a builder's Reset (or a mocker's Cancel) every function it mocked behaves exactly as before":
		// X still had a live configuration on t, so t is original and pristine now, whoever patched it last
		w.cur[ti], w.amb[ti] = -1, false
	case w.cur[ti] == -1 && !w.amb[ti]:
	default:
		w.amb[ti] = true // X only touched t earlier (already cancelled) and another builder is in effect
	}
	// once no builder has a live configuration for t it must be pristine and original again
	for b := range w.bs {
		if m := w.cfgs[b][ti].mode; m != "none" && m != "" {
			return
		}
	}
	w.cur[ti], w.amb[ti] = -1, false
}

// legal reports whether the model can predict the outcome of o (see DESIGN: only unambiguous clauses)
func (w *world) legal(o op) bool {
	if o.kind == "reset" {
		return true
	}
	c := w.cfgs[o.b][o.t]
	if o.kind == "originonly" {
		// only where this builder has nothing live on the target (what Origin does to a live configuration is the
		// "origin" instruction's business) and the target can have a placeholder at all
		return (c.mode == "none" || c.mode == "") && !w.ts[o.t].refusesOrigin && !w.poisoned[[2]int{o.b, o.t}]
	}
	if w.sess[[2]int{o.b, o.t}] && o.kind != "applyA" && o.kind != "applyB" && o.kind != "cancel" {
		// stubbing through a mocker object after its own Cancel is not a use the statement covers
		// (on the pinned tree the stale stub forwards to the patched function itself): sessions only Apply and Cancel
		return false
	}
	if o.kind == "badorigin" {
		// issued only while nobody has the target mocked (what a refused re-apply does to a LIVE mock - goom drops it -
		// is not settled by the statement); afterwards this builder's mocker for the target keeps the refused origin
		// until it is cancelled or the builder reset, so nothing else goes through it before that
		if !w.ts[o.t].refusesOrigin || w.cur[o.t] != -1 || w.amb[o.t] {
			return false
		}
		for b := range w.bs {
			if m := w.cfgs[b][o.t].mode; m != "none" && m != "" {
				return false
			}
		}
		return !w.sess[[2]int{o.b, o.t}]
	}
	if w.poisoned[[2]int{o.b, o.t}] && o.kind != "cancel" {
		return false
	}
	if o.kind == "origin" && w.ts[o.t].refusesOrigin {
		return false
	}
	switch o.kind {
	case "return":
		// Return right after a When chain extends the clause (chain state): not generated
		return !(c.mode == "stub" && c.hasWhen)
	case "cancel":
		return true
	case "origin":
		// the origin callback of another builder may still be referenced by a stale patch: keep to one owner
		return true
	}
	return true
}

func (w *world) finish() {
	for bi := range w.bs {
		w.apply(op{kind: "reset", b: bi})
		if !w.bad {
			w.verify()
		}
	}
}

func TestC02(t *testing.T) {
	rep := vmon.NewReport("C02")
	defer rep.Write()
	img := vmon.SnapshotText()
	ts, ns := targets(), neighbours()
	shard, _ := vmon.Shard()
	rng := vmon.NewRng(vmon.Seed(), uint64(200+shard))
	nh := vmon.EnvInt("VERIF_C02_HIST", 40)
	// layout facts
	pages := map[uintptr]int{}
	for _, t := range ts {
		pages[t.entry>>12]++
	}
	share := 0
	for _, n := range pages {
		if n > 1 {
			share += n
		}
	}
	rep.Stat("max:targets_sharing_a_page_with_another_target", int64(share))
	kinds := []string{"applyA", "applyB", "origin", "return", "when", "cancel", "reset", "applyA", "return", "when", "badapply", "badorigin", "badorigin", "originonly"}
	for h := 0; h < nh; h++ {
		nb := 1 + rng.Intn(3)
		w := newWorld(rep, img, ts, ns, nb)
		w.rng = rng
		shared := rng.Chance(1, 4) // a minority of histories lets two builders touch the same targets
		n := 4 + rng.Intn(37)
		for s := 0; s < n && !w.bad; s++ {
			o := op{kind: kinds[rng.Intn(len(kinds))], b: rng.Intn(nb)}
			if shared {
				o.t = rng.Intn(6)
			} else {
				// builder-disjoint targets: builder b owns targets with index % nb == b
				o.t = (rng.Intn(len(ts)/nb))*nb + o.b
				if o.t >= len(ts) {
					o.t = o.b
				}
			}
			if !w.legal(o) {
				continue
			}
			prior := "none"
			if o.kind != "reset" {
				prior = w.cfgs[o.b][o.t].mode
				if prior == "" {
					prior = "none"
				}
			}
			w.apply(o)
			if !w.bad {
				w.verify()
			}
			rep.Class(fmt.Sprintf("%s/prior=%s/shared=%v", o.kind, prior, shared))
		}
		if !w.bad {
			w.finish()
		}
		rep.StatMax("max:simultaneous_mocks", int64(w.maxLive))
		rep.Stat("histories", 1)
		rep.Stat("steps", int64(len(w.hist)))
		if h < 2 {
			rep.Sample(map[string]interface{}{"builders": nb, "shared_targets": shared, "history": w.hist})
		}
		if w.bad {
			// leave a clean slate for the next history
			for _, b := range w.bs {
				func() { defer func() { recover() }(); b.Reset() }()
			}
		}
	}
}

// TestC02Exhaustive enumerates every history up to a length over 2 targets x 2 builders.
func TestC02Exhaustive(t *testing.T) {
	rep := vmon.NewReport("C02")
	defer rep.Write()
	img := vmon.SnapshotText()
	all := targets()
	ts := []*tgt{all[0], all[1]}
	ns := neighbours()
	maxLen := vmon.EnvInt("VERIF_C02_EXLEN", 3)
	shard, nshards := vmon.Shard()
	var alphabet []op
	for b := 0; b < 2; b++ {
		for t := 0; t < 2; t++ {
			for _, k := range []string{"applyA", "applyB", "return", "cancel"} {
				alphabet = append(alphabet, op{k, b, t})
			}
		}
		alphabet = append(alphabet, op{kind: "reset", b: b})
	}
	count := 0
	var rec func(prefix []op)
	run := func(seq []op) {
		count++
		if count%nshards != shard {
			return
		}
		w := newWorld(rep, img, ts, ns, 2)
		for _, o := range seq {
			if !w.legal(o) {
				return
			}
			w.apply(o)
			if w.bad {
				break
			}
			w.verify()
			if w.bad {
				break
			}
		}
		if !w.bad {
			w.finish()
		}
		rep.Stat("exhaustive_histories", 1)
		if w.bad {
			for _, b := range w.bs {
				func() { defer func() { recover() }(); b.Reset() }()
			}
		}
	}
	rec = func(prefix []op) {
		if len(prefix) > 0 {
			run(prefix)
		}
		if len(prefix) == maxLen {
			return
		}
		for _, o := range alphabet {
			rec(append(append([]op{}, prefix...), o))
		}
	}
	rec(nil)
	rep.Class(fmt.Sprintf("exhaustive/len<=%d/alphabet%d", maxLen, len(alphabet)))
	rep.Class("exhaustive/two-builders-same-target")
	rep.Note("exhaustive", fmt.Sprintf("all %d histories of length <= %d over %d operations (2 targets x 2 builders x {ApplyA, ApplyB, Return, Cancel} + Reset per builder)", count, maxLen, len(alphabet)))
}
