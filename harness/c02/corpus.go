//go:build go1.21

package c02

var sink [8]int

//go:noinline
func C0(a int) int { return a*3 + 0 }

//go:noinline
func N0(a int) int { return a ^ 256 }

//go:noinline
func C1(a int) int { return a*4 + 1 }

//go:noinline
func C2(a int) int { return a*5 + 2 }

//go:noinline
func C3(a int) int { return a*6 + 3 }

//go:noinline
func N3(a int) int { return a ^ 259 }

//go:noinline
func C4(a int) int { return a*7 + 4 }

//go:noinline
func C5(a int) int { return a*8 + 5 }

//go:noinline
func C6(a int) int { return a*9 + 6 }

//go:noinline
func N6(a int) int { return a ^ 262 }

//go:noinline
func C7(a int) int { return a*10 + 7 }

//go:noinline
func C8(a int) int { return a*11 + 8 }

//go:noinline
func C9(a int) int { return a*12 + 9 }

//go:noinline
func N9(a int) int { return a ^ 265 }

//go:noinline
func C10(a int) int { return a*13 + 10 }

//go:noinline
func C11(a int) int { return a*14 + 11 }

type CT struct{ v int }

//go:noinline
func (t *CT) M0(a int) int { return t.v + a*2 + 100 }

//go:noinline
func (t *CT) NM0(a int) int { return t.v - a - 0 }

//go:noinline
func (t *CT) M1(a int) int { return t.v + a*3 + 101 }

//go:noinline
func (t *CT) M2(a int) int { return t.v + a*4 + 102 }

//go:noinline
func (t *CT) NM2(a int) int { return t.v - a - 2 }

//go:noinline
func (t *CT) M3(a int) int { return t.v + a*5 + 103 }

//go:noinline
func (t *CT) M4(a int) int { return t.v + a*6 + 104 }

//go:noinline
func (t *CT) NM4(a int) int { return t.v - a - 4 }

//go:noinline
func (t *CT) M5(a int) int { return t.v + a*7 + 105 }

var ph0 = func(a int) int {
	x := a
	for i := 0; i < len(sink); i++ {
		x = x*31 + i
		sink[i&7] += x
		if x&1 == 0 {
			x ^= sink[(i+1)&7]
		} else {
			x += sink[(i+3)&7] * 7
		}
		sink[(i+5)&7] -= x >> 3
		if x%7 == 3 {
			x = x*x + sink[(i+2)&7]
		}
		sink[(i+6)&7] ^= x << 2
		x += sink[(i+4)&7]*13 - sink[(i+7)&7]*17
	}
	return x
}

var ph1 = func(a int) int {
	x := a
	for i := 0; i < len(sink); i++ {
		x = x*31 + i
		sink[i&7] += x
		if x&1 == 0 {
			x ^= sink[(i+1)&7]
		} else {
			x += sink[(i+3)&7] * 7
		}
		sink[(i+5)&7] -= x >> 3
		if x%7 == 3 {
			x = x*x + sink[(i+2)&7]
		}
		sink[(i+6)&7] ^= x << 2
		x += sink[(i+4)&7]*13 - sink[(i+7)&7]*17
	}
	return x
}

var ph2 = func(a int) int {
	x := a
	for i := 0; i < len(sink); i++ {
		x = x*31 + i
		sink[i&7] += x
		if x&1 == 0 {
			x ^= sink[(i+1)&7]
		} else {
			x += sink[(i+3)&7] * 7
		}
		sink[(i+5)&7] -= x >> 3
		if x%7 == 3 {
			x = x*x + sink[(i+2)&7]
		}
		sink[(i+6)&7] ^= x << 2
		x += sink[(i+4)&7]*13 - sink[(i+7)&7]*17
	}
	return x
}

var ph3 = func(a int) int {
	x := a
	for i := 0; i < len(sink); i++ {
		x = x*31 + i
		sink[i&7] += x
		if x&1 == 0 {
			x ^= sink[(i+1)&7]
		} else {
			x += sink[(i+3)&7] * 7
		}
		sink[(i+5)&7] -= x >> 3
		if x%7 == 3 {
			x = x*x + sink[(i+2)&7]
		}
		sink[(i+6)&7] ^= x << 2
		x += sink[(i+4)&7]*13 - sink[(i+7)&7]*17
	}
	return x
}

var ph4 = func(a int) int {
	x := a
	for i := 0; i < len(sink); i++ {
		x = x*31 + i
		sink[i&7] += x
		if x&1 == 0 {
			x ^= sink[(i+1)&7]
		} else {
			x += sink[(i+3)&7] * 7
		}
		sink[(i+5)&7] -= x >> 3
		if x%7 == 3 {
			x = x*x + sink[(i+2)&7]
		}
		sink[(i+6)&7] ^= x << 2
		x += sink[(i+4)&7]*13 - sink[(i+7)&7]*17
	}
	return x
}

var ph5 = func(a int) int {
	x := a
	for i := 0; i < len(sink); i++ {
		x = x*31 + i
		sink[i&7] += x
		if x&1 == 0 {
			x ^= sink[(i+1)&7]
		} else {
			x += sink[(i+3)&7] * 7
		}
		sink[(i+5)&7] -= x >> 3
		if x%7 == 3 {
			x = x*x + sink[(i+2)&7]
		}
		sink[(i+6)&7] ^= x << 2
		x += sink[(i+4)&7]*13 - sink[(i+7)&7]*17
	}
	return x
}

var ph6 = func(a int) int {
	x := a
	for i := 0; i < len(sink); i++ {
		x = x*31 + i
		sink[i&7] += x
		if x&1 == 0 {
			x ^= sink[(i+1)&7]
		} else {
			x += sink[(i+3)&7] * 7
		}
		sink[(i+5)&7] -= x >> 3
		if x%7 == 3 {
			x = x*x + sink[(i+2)&7]
		}
		sink[(i+6)&7] ^= x << 2
		x += sink[(i+4)&7]*13 - sink[(i+7)&7]*17
	}
	return x
}

var ph7 = func(a int) int {
	x := a
	for i := 0; i < len(sink); i++ {
		x = x*31 + i
		sink[i&7] += x
		if x&1 == 0 {
			x ^= sink[(i+1)&7]
		} else {
			x += sink[(i+3)&7] * 7
		}
		sink[(i+5)&7] -= x >> 3
		if x%7 == 3 {
			x = x*x + sink[(i+2)&7]
		}
		sink[(i+6)&7] ^= x << 2
		x += sink[(i+4)&7]*13 - sink[(i+7)&7]*17
	}
	return x
}

var ph8 = func(a int) int {
	x := a
	for i := 0; i < len(sink); i++ {
		x = x*31 + i
		sink[i&7] += x
		if x&1 == 0 {
			x ^= sink[(i+1)&7]
		} else {
			x += sink[(i+3)&7] * 7
		}
		sink[(i+5)&7] -= x >> 3
		if x%7 == 3 {
			x = x*x + sink[(i+2)&7]
		}
		sink[(i+6)&7] ^= x << 2
		x += sink[(i+4)&7]*13 - sink[(i+7)&7]*17
	}
	return x
}

var ph9 = func(a int) int {
	x := a
	for i := 0; i < len(sink); i++ {
		x = x*31 + i
		sink[i&7] += x
		if x&1 == 0 {
			x ^= sink[(i+1)&7]
		} else {
			x += sink[(i+3)&7] * 7
		}
		sink[(i+5)&7] -= x >> 3
		if x%7 == 3 {
			x = x*x + sink[(i+2)&7]
		}
		sink[(i+6)&7] ^= x << 2
		x += sink[(i+4)&7]*13 - sink[(i+7)&7]*17
	}
	return x
}

var ph10 = func(a int) int {
	x := a
	for i := 0; i < len(sink); i++ {
		x = x*31 + i
		sink[i&7] += x
		if x&1 == 0 {
			x ^= sink[(i+1)&7]
		} else {
			x += sink[(i+3)&7] * 7
		}
		sink[(i+5)&7] -= x >> 3
		if x%7 == 3 {
			x = x*x + sink[(i+2)&7]
		}
		sink[(i+6)&7] ^= x << 2
		x += sink[(i+4)&7]*13 - sink[(i+7)&7]*17
	}
	return x
}

var ph11 = func(a int) int {
	x := a
	for i := 0; i < len(sink); i++ {
		x = x*31 + i
		sink[i&7] += x
		if x&1 == 0 {
			x ^= sink[(i+1)&7]
		} else {
			x += sink[(i+3)&7] * 7
		}
		sink[(i+5)&7] -= x >> 3
		if x%7 == 3 {
			x = x*x + sink[(i+2)&7]
		}
		sink[(i+6)&7] ^= x << 2
		x += sink[(i+4)&7]*13 - sink[(i+7)&7]*17
	}
	return x
}

var phm0 = func(t *CT, a int) int {
	x := a
	for i := 0; i < len(sink); i++ {
		x = x*31 + i
		sink[i&7] += x
		if x&1 == 0 {
			x ^= sink[(i+1)&7]
		} else {
			x += sink[(i+3)&7] * 7
		}
		sink[(i+5)&7] -= x >> 3
		if x%7 == 3 {
			x = x*x + sink[(i+2)&7]
		}
		sink[(i+6)&7] ^= x << 2
		x += sink[(i+4)&7]*13 - sink[(i+7)&7]*17
	}
	return x
}

var phm1 = func(t *CT, a int) int {
	x := a
	for i := 0; i < len(sink); i++ {
		x = x*31 + i
		sink[i&7] += x
		if x&1 == 0 {
			x ^= sink[(i+1)&7]
		} else {
			x += sink[(i+3)&7] * 7
		}
		sink[(i+5)&7] -= x >> 3
		if x%7 == 3 {
			x = x*x + sink[(i+2)&7]
		}
		sink[(i+6)&7] ^= x << 2
		x += sink[(i+4)&7]*13 - sink[(i+7)&7]*17
	}
	return x
}

var phm2 = func(t *CT, a int) int {
	x := a
	for i := 0; i < len(sink); i++ {
		x = x*31 + i
		sink[i&7] += x
		if x&1 == 0 {
			x ^= sink[(i+1)&7]
		} else {
			x += sink[(i+3)&7] * 7
		}
		sink[(i+5)&7] -= x >> 3
		if x%7 == 3 {
			x = x*x + sink[(i+2)&7]
		}
		sink[(i+6)&7] ^= x << 2
		x += sink[(i+4)&7]*13 - sink[(i+7)&7]*17
	}
	return x
}

var phm3 = func(t *CT, a int) int {
	x := a
	for i := 0; i < len(sink); i++ {
		x = x*31 + i
		sink[i&7] += x
		if x&1 == 0 {
			x ^= sink[(i+1)&7]
		} else {
			x += sink[(i+3)&7] * 7
		}
		sink[(i+5)&7] -= x >> 3
		if x%7 == 3 {
			x = x*x + sink[(i+2)&7]
		}
		sink[(i+6)&7] ^= x << 2
		x += sink[(i+4)&7]*13 - sink[(i+7)&7]*17
	}
	return x
}

var phm4 = func(t *CT, a int) int {
	x := a
	for i := 0; i < len(sink); i++ {
		x = x*31 + i
		sink[i&7] += x
		if x&1 == 0 {
			x ^= sink[(i+1)&7]
		} else {
			x += sink[(i+3)&7] * 7
		}
		sink[(i+5)&7] -= x >> 3
		if x%7 == 3 {
			x = x*x + sink[(i+2)&7]
		}
		sink[(i+6)&7] ^= x << 2
		x += sink[(i+4)&7]*13 - sink[(i+7)&7]*17
	}
	return x
}

var phm5 = func(t *CT, a int) int {
	x := a
	for i := 0; i < len(sink); i++ {
		x = x*31 + i
		sink[i&7] += x
		if x&1 == 0 {
			x ^= sink[(i+1)&7]
		} else {
			x += sink[(i+3)&7] * 7
		}
		sink[(i+5)&7] -= x >> 3
		if x%7 == 3 {
			x = x*x + sink[(i+2)&7]
		}
		sink[(i+6)&7] ^= x << 2
		x += sink[(i+4)&7]*13 - sink[(i+7)&7]*17
	}
	return x
}

//go:noinline
func (t *CT) um0(a int) int { return t.v + a*5 + 300 }

//go:noinline
func (t *CT) um1(a int) int { return t.v + a*6 + 301 }

//go:noinline
func (t *CT) um2(a int) int { return t.v + a*7 + 302 }

//go:noinline
func (t *CT) um3(a int) int { return t.v + a*8 + 303 }

//go:noinline
func (t *CT) um4(a int) int { return t.v + a*9 + 304 }

var phu3 = func(t *CT, a int) int {
	x := a
	for i := 0; i < len(sink); i++ {
		x += sink[(i+2)&7]*19 - sink[(i+5)&7]*23
		sink[i&7] ^= x
	}
	return x
}

var phu4 = func(t *CT, a int) int {
	x := a
	for i := 0; i < len(sink); i++ {
		x = x*29 + sink[(i+6)&7]
		sink[(i+1)&7] += x
	}
	return x
}

var phu0 = func(t *CT, a int) int {
	x := a
	for i := 0; i < len(sink); i++ {
		x = x*31 + i
		sink[i&7] += x
		if x&1 == 0 {
			x ^= sink[(i+1)&7]
		} else {
			x += sink[(i+3)&7] * 7
		}
		sink[(i+5)&7] -= x >> 3
		if x%7 == 3 {
			x = x*x + sink[(i+2)&7]
		}
		sink[(i+6)&7] ^= x << 2
		x += sink[(i+4)&7]*13 - sink[(i+7)&7]*17
	}
	return x
}

var phu1 = func(t *CT, a int) int {
	x := a
	for i := 0; i < len(sink); i++ {
		x = x*31 + i
		sink[i&7] += x
		if x&1 == 0 {
			x ^= sink[(i+1)&7]
		} else {
			x += sink[(i+3)&7] * 7
		}
		sink[(i+5)&7] -= x >> 3
		if x%7 == 3 {
			x = x*x + sink[(i+2)&7]
		}
		sink[(i+6)&7] ^= x << 2
		x += sink[(i+4)&7]*13 - sink[(i+7)&7]*17
	}
	return x
}

var phu2 = func(t *CT, a int) int {
	x := a
	for i := 0; i < len(sink); i++ {
		x = x*31 + i
		sink[i&7] += x
		if x&1 == 0 {
			x ^= sink[(i+1)&7]
		} else {
			x += sink[(i+3)&7] * 7
		}
		sink[(i+5)&7] -= x >> 3
		if x%7 == 3 {
			x = x*x + sink[(i+2)&7]
		}
		sink[(i+6)&7] ^= x << 2
		x += sink[(i+4)&7]*13 - sink[(i+7)&7]*17
	}
	return x
}

//go:noinline
func ufoo(a int) int { return a*9 + 400 }

var phf0 = func(a int) int {
	x := a
	for i := 0; i < len(sink); i++ {
		x = x*31 + i
		sink[i&7] += x
		if x&1 == 0 {
			x ^= sink[(i+1)&7]
		} else {
			x += sink[(i+3)&7] * 7
		}
		sink[(i+5)&7] -= x >> 3
		if x%7 == 3 {
			x = x*x + sink[(i+2)&7]
		}
		sink[(i+6)&7] ^= x << 2
		x += sink[(i+4)&7]*13 - sink[(i+7)&7]*17
	}
	return x
}

var phf1 = func(a int) int {
	x := a
	for i := 0; i < len(sink); i++ {
		x = x*31 + i
		sink[i&7] += x
		if x&1 == 0 {
			x ^= sink[(i+1)&7]
		} else {
			x += sink[(i+3)&7] * 7
		}
		sink[(i+5)&7] -= x >> 3
		if x%7 == 3 {
			x = x*x + sink[(i+2)&7]
		}
		sink[(i+6)&7] ^= x << 2
		x += sink[(i+4)&7]*13 - sink[(i+7)&7]*17
	}
	return x
}

// function literals as targets; each calls a named helper directly (the helper is a neighbour that must stay intact)

//go:noinline
func LitHelper(a int) int { return a*17 + 600 }

var Lit0 = func(a int) int { return LitHelper(a) + 1 }

var Lit1 = func(a int) int { return LitHelper(a) + sink[0]*0 + 2 }

var phl0 = func(a int) int {
	x := a
	for i := 0; i < len(sink); i++ {
		x = x*31 + i
		sink[i&7] += x
		if x&1 == 0 {
			x ^= sink[(i+1)&7]
		} else {
			x += sink[(i+3)&7] * 7
		}
		sink[(i+5)&7] -= x >> 3
		if x%7 == 3 {
			x = x*x + sink[(i+2)&7]
		}
		sink[(i+6)&7] ^= x << 2
		x += sink[(i+4)&7]*13 - sink[(i+7)&7]*17
	}
	return x
}

var phl1 = func(a int) int {
	x := a
	for i := 0; i < len(sink); i++ {
		x = x*31 + i
		sink[i&7] += x
		if x&1 == 0 {
			x ^= sink[(i+1)&7]
		} else {
			x += sink[(i+3)&7] * 7
		}
		sink[(i+5)&7] -= x >> 3
		if x%7 == 3 {
			x = x*x + sink[(i+2)&7]
		}
		sink[(i+6)&7] ^= x << 2
		x += sink[(i+4)&7]*13 - sink[(i+7)&7]*17
	}
	return x
}

// LitGen is generic; Lit2's first call goes to the body of its int instantiation
//
//go:noinline
func LitGen[T any](a T, n int) int { return n*17 + 600 }

var Lit2 = func(a int) int { return LitGen[int](a, a) + 3 }

var phl3 = func(a int) int {
	x := a
	for i := 0; i < len(sink); i++ {
		x = x*37 + i
		sink[i&7] -= x
		if x&3 == 0 {
			x ^= sink[(i+2)&7]
		}
		sink[(i+3)&7] ^= x << 1
		x += sink[(i+1)&7]*11 - sink[(i+6)&7]*19
	}
	return x
}

// CLoop is a loop whose back edge comes from behind the first 13 bytes and lands inside them: goom cannot relocate its
// prologue into an origin placeholder and refuses an apply that asks for one
//
//go:noinline
func CLoop(n int) int {
	for n > 0 {
		n -= 3
	}
	return n
}

var phl2 = func(a int) int {
	x := a
	for i := 0; i < len(sink); i++ {
		x = x*31 + i
		sink[i&7] += x
		if x&1 == 0 {
			x ^= sink[(i+1)&7]
		} else {
			x += sink[(i+3)&7] * 7
		}
		sink[(i+5)&7] -= x >> 3
		if x%7 == 3 {
			x = x*x + sink[(i+2)&7]
		}
		sink[(i+6)&7] ^= x << 2
		x += sink[(i+4)&7]*13 - sink[(i+7)&7]*17
	}
	return x
}
