//go:build go1.21

// Package reg is the registry generated type packages append their methods to.
package reg

type Method struct {
	Pkg, Type, Name                 string
	TypeExported, Exported, PtrRecv bool
	TIdx, MIdx, NFields             int
	Orig                            func(inst, a int) int
	Forms                           map[string]func(inst, a int) int
	RecvID                          func(inst int) uintptr
}

var Methods []Method
