//go:build go1.21

package shapes

type T struct{ W, H int }

//go:noinline
func (t *T) Area() int { return -200 - t.W*t.H }

//go:noinline
func (t *T) Get(a int) int { return -210 - a }
