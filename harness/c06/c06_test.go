//go:build go1.21

package c06

import (
	"fmt"
	"sort"
	"testing"
	"unsafe"

	mocker "github.com/tencent/goom"
	ashapes "github.com/tencent/goom/zzverif/c06/a/shapes"
	bshapes "github.com/tencent/goom/zzverif/c06/b/shapes"
	"github.com/tencent/goom/zzverif/c06/reg"
	"github.com/tencent/goom/zzverif/vmon"
)

var forms = []string{"value", "pointer", "iface", "mvalue", "mexpr"}

func safe(f func(int, int) int, i, a int) (v int, p interface{}) {
	defer func() { p = recover() }()
	return f(i, a), nil
}

func key(m *reg.Method) string { return m.Pkg + "." + m.Type + "." + m.Name }

func TestC06(t *testing.T) {
	rep := vmon.NewReport("C06")
	defer rep.Write()
	shard, nshards := vmon.Shard()
	ms := reg.Methods
	sort.Slice(ms, func(i, j int) bool { return key(&ms[i]) < key(&ms[j]) })
	rep.Stat("max:methods_in_corpus", int64(len(ms)))
	// every method is original to begin with
	for i := range ms {
		for inst := 0; inst < 3; inst++ {
			for _, f := range forms {
				if v, p := safe(ms[i].Forms[f], inst, 5); p != nil || v != ms[i].Orig(inst, 5) {
					rep.Inconclusive = fmt.Sprintf("harness self-check: %s via %s = %d (%v), want %d", key(&ms[i]), f, v, p, ms[i].Orig(inst, 5))
					return
				}
			}
		}
	}
	for mi := range ms {
		if mi%nshards != shard {
			continue
		}
		m := &ms[mi]
		inst, ok := Installers[key(m)]
		if !ok {
			rep.Inconclusive = "no installer for " + key(m)
			return
		}
		for _, mode := range []string{"Apply", "Return"} {
			b := mocker.Create()
			var rec uintptr
			v := 900000 + mi
			rep.Journal(map[string]interface{}{"method": key(m), "mode": mode, "lookup": inst.Path})
			var perr interface{}
			func() {
				defer func() { perr = recover() }()
				if mode == "Apply" {
					inst.Apply(b, &rec, v)
				} else {
					inst.Return(b, v)
				}
			}()
			c := map[string]interface{}{"method": key(m), "mode": mode, "lookup": inst.Path, "ptr_receiver": m.PtrRecv, "exported_method": m.Exported, "exported_type": m.TypeExported}
			cell := fmt.Sprintf("recv=%s/method-exported=%v/type-exported=%v/%s/%s", map[bool]string{true: "ptr", false: "value"}[m.PtrRecv], m.Exported, m.TypeExported, inst.Path, mode)
			rep.Class(cell)
			if perr != nil {
				rep.Violate("C06/mock-rejected", fmt.Sprintf("%s of %s via %s panicked: %v", mode, key(m), inst.Path, perr), c)
				func() { defer func() { recover() }(); b.Reset() }()
				continue
			}
			bad := false
			for oi := range ms {
				o := &ms[oi]
				for i := 0; i < 3 && !bad; i++ {
					for _, f := range forms {
						rec = 0
						got, p := safe(o.Forms[f], i, 7)
						rep.Eval(1)
						if oi == mi {
							if p != nil || got != v {
								bad = true
								rep.Violate("C06/mocked-method-not-replaced", fmt.Sprintf("%s mocked (%s, %s) but instance %d called through %s returned %d (panic %v), want %d", key(m), mode, inst.Path, i, f, got, p, v), c)
								break
							}
							if mode == "Apply" && !(m.PtrRecv && f == "value") && rec != m.RecvID(i) {
								bad = true
								rep.Violate("C06/receiver-not-handed-to-callback", fmt.Sprintf("%s: callback saw receiver %#x, the instance is %#x (form %s)", key(m), rec, m.RecvID(i), f), c)
								break
							}
						} else {
							rep.Stat("isolation_observations", 1)
							if p != nil || got != o.Orig(i, 7) {
								bad = true
								rep.Violate("C06/other-method-affected", fmt.Sprintf("mocking %s changed %s: instance %d through %s returned %d (panic %v), want %d", key(m), key(o), i, f, got, p, o.Orig(i, 7)), c)
								break
							}
						}
					}
				}
			}
			if mode == "Apply" && !bad {
				// applying again with another closure of the same literal must take effect
				var perr2 interface{}
				func() {
					defer func() { perr2 = recover() }()
					inst.Apply(b, &rec, v+1)
				}()
				for i := 0; i < 3 && perr2 == nil; i++ {
					got, p := safe(m.Forms["pointer"], i, 7)
					rep.Eval(1)
					if p != nil || got != v+1 {
						rep.Violate("C06/re-apply-not-in-effect", fmt.Sprintf("%s: Apply(cb %d) then Apply(cb %d) on the same builder: instance %d returned %d (panic %v), want %d", key(m), v, v+1, i, got, p, v+1), c)
						break
					}
				}
			}
			b.Reset()
			for i := 0; i < 3; i++ {
				for _, f := range forms {
					if got, p := safe(m.Forms[f], i, 7); p != nil || got != m.Orig(i, 7) {
						rep.Violate("C06/not-restored", fmt.Sprintf("%s after Reset: instance %d through %s returned %d (%v), want %d", key(m), i, f, got, p, m.Orig(i, 7)), c)
					}
				}
			}
		}
		if mi < 2 {
			rep.Sample(map[string]interface{}{"method": key(m), "lookup": inst.Path, "ptr_receiver": m.PtrRecv, "forms": forms, "instances": 3})
		}
	}
}

// TestC06Groups mocks all methods of one type at once in one builder (the per-method mockers of a type share
// cached containers), verifies every method of the corpus, resets, verifies again.
func TestC06Groups(t *testing.T) {
	rep := vmon.NewReport("C06")
	defer rep.Write()
	ms := reg.Methods
	sort.Slice(ms, func(i, j int) bool { return key(&ms[i]) < key(&ms[j]) })
	byType := map[string][]int{}
	var order []string
	for i := range ms {
		k := ms[i].Pkg + "." + ms[i].Type
		if _, ok := byType[k]; !ok {
			order = append(order, k)
		}
		byType[k] = append(byType[k], i)
	}
	for gi, tk := range order {
		idx := byType[tk]
		for _, mode := range []string{"Apply", "Return", "mixed"} {
			b := mocker.Create()
			recs := make([]uintptr, len(ms))
			want := map[int]int{}
			var perr interface{}
			func() {
				defer func() { perr = recover() }()
				for n, mi := range idx {
					in := Installers[key(&ms[mi])]
					v := 800000 + mi
					if mode == "Apply" || (mode == "mixed" && n%2 == 0) {
						in.Apply(b, &recs[mi], v)
					} else {
						in.Return(b, v)
					}
					want[mi] = v
				}
			}()
			c := map[string]interface{}{"type": tk, "methods": len(idx), "mode": mode}
			rep.Class(fmt.Sprintf("group/methods%d/%s", len(idx), mode))
			if perr != nil {
				rep.Violate("C06/mock-rejected", fmt.Sprintf("mocking all %d methods of %s (%s) panicked: %v", len(idx), tk, mode, perr), c)
				func() { defer func() { recover() }(); b.Reset() }()
				continue
			}
			verify := func(phase string, mocked bool) {
				for oi := range ms {
					o := &ms[oi]
					for i := 0; i < 3; i++ {
						for _, f := range forms {
							got, p := safe(o.Forms[f], i, 7)
							rep.Eval(1)
							w, is := want[oi]
							if !mocked || !is {
								w = o.Orig(i, 7)
							}
							if p != nil || got != w {
								k := "C06/mocked-method-not-replaced"
								if !mocked {
									k = "C06/not-restored"
								} else if !is {
									k = "C06/other-method-affected"
								}
								rep.Violate(k, fmt.Sprintf("all methods of %s mocked in one builder (%s) [%s]: %s instance %d via %s returned %d (panic %v), want %d", tk, mode, phase, key(o), i, f, got, p, w), c)
								return
							}
						}
					}
				}
			}
			verify("mocked", true)
			b.Reset()
			verify("after Reset", false)
			b.Reset() // a second Reset changes nothing
			verify("after second Reset", false)
		}
		if gi == 0 {
			rep.Sample(map[string]interface{}{"type": tk, "methods_mocked_together": len(idx)})
		}
	}
}

// ---- generic types: instantiations of equal and different GC shape

type GA struct{ x int }
type GB struct{ y, z int }
type G[T any] struct {
	v T
	n int
}

//go:noinline
func (g *G[T]) Get(a int) int { return g.n + a + 500 }

//go:noinline
func (g *G[T]) Other(a int) int { return g.n - a }

// Wide has a stack-passed value receiver; Many has many arguments: both make the dictionary wrapper long, so the
// call into the shared shape function lies far from the wrapper's entry.
type Wide[T any] struct {
	pad [6]int64
	v   T
}

//go:noinline
func (w Wide[T]) Get(a int) int { return int(w.pad[5]) + a + 600 }

//go:noinline
func (g *G[T]) Many(a, b, c, d, e, f, h int) int { return g.n + a + b + c + d + e + f + h + 700 }

// Huge is passed by value through runtime.duffcopy (136 bytes): its dictionary wrapper calls into the middle of that
// runtime routine before it calls the shared body.
type Huge[T any] struct {
	pad [16]int64
	v   T
}

//go:noinline
func (h Huge[T]) Get(a int) int { return int(h.pad[15]) + a + 1100 }

// Plain is not generic; Emb promotes its method into an instantiated generic type, whose wrapper Emb[int].Val forwards
// to Plain.Val - a method of another type.
type Plain struct{ n int }

//go:noinline
func (p Plain) Val() int { return p.n + 1200 }

type Emb[T any] struct {
	Plain
	v T
}

type Box[T any] struct {
	v T
	n int
}

//go:noinline
func (b Box[T]) Val() int { return b.n + 900 }

// MyInt has the GC shape of int
type MyInt int

var pickSink int

// Width is a generic function whose type parameter does not occur in its signature: all instantiations have one Go type
//
//go:noinline
func Width[T any](n int) int {
	var z [3]T
	if n < -10000 {
		pickSink += n
		fmt.Println("never", n)
	}
	return n + len(z) + int(unsafe.Sizeof(z))*100
}

// Pick is a generic function (not a method): its instantiations are mocked through Builder.Func
//
//go:noinline
func Pick[T any](seed int) (t T, n int) {
	if seed < -10000 {
		pickSink += seed
		fmt.Println("never", seed)
	}
	pickSink++
	return t, seed*3 + 40
}

// Chain: methods whose bodies begin by calling another generic method (or a generic function) of the same instantiation

//go:noinline
func (b Box[T]) Count() int { return b.n + 40 }

//go:noinline
func (b Box[T]) Total() int { return b.Count()*2 + 1 }

//go:noinline
func (g *G[T]) Inner(a int) int { return g.n*3 + a }

//go:noinline
func (g *G[T]) Outer(a int) int { return g.Inner(a) + genHelper[T](a) }

//go:noinline
func genHelper[T any](a int) int { return a + 11 }

func TestC06Generics(t *testing.T) {
	rep := vmon.NewReport("C06")
	defer rep.Write()
	type inst struct {
		name, shape string
		get         func(a int) int
		other       func(a int) int
		mock        func(b *mocker.Builder, v int)
	}
	gi, gi64, gs, ga, gb, garr := &G[int]{n: 1}, &G[int64]{n: 2}, &G[string]{n: 3}, &G[*GA]{n: 4}, &G[*GB]{n: 5}, &G[[2]int]{n: 6}
	insts := []inst{
		{"G[int]", "int", func(a int) int { return gi.Get(a) }, gi.Other, func(b *mocker.Builder, v int) { b.Struct(&G[int]{}).Method("Get").Return(v) }},
		{"G[int64]", "int64", func(a int) int { return gi64.Get(a) }, gi64.Other, func(b *mocker.Builder, v int) { b.Struct(&G[int64]{}).Method("Get").Return(v) }},
		{"G[string]", "string", func(a int) int { return gs.Get(a) }, gs.Other, func(b *mocker.Builder, v int) { b.Struct(&G[string]{}).Method("Get").Return(v) }},
		{"G[*GA]", "ptr", func(a int) int { return ga.Get(a) }, ga.Other, func(b *mocker.Builder, v int) { b.Struct(&G[*GA]{}).Method("Get").Return(v) }},
		{"G[*GB]", "ptr", func(a int) int { return gb.Get(a) }, gb.Other, func(b *mocker.Builder, v int) { b.Struct(&G[*GB]{}).Method("Get").Return(v) }},
		{"G[[2]int]", "arr", func(a int) int { return garr.Get(a) }, garr.Other, func(b *mocker.Builder, v int) { b.Struct(&G[[2]int]{}).Method("Get").Return(v) }},
	}
	wi, ws := Wide[int]{pad: [6]int64{0, 0, 0, 0, 0, 5}}, Wide[string]{pad: [6]int64{0, 0, 0, 0, 0, 6}}
	insts = append(insts,
		inst{"Wide[int].Get", "wide-int", func(a int) int { return wi.Get(a) }, func(a int) int { return gi.Other(a) }, func(b *mocker.Builder, v int) { b.Struct(Wide[int]{}).Method("Get").Return(v) }},
		inst{"Wide[string].Get", "wide-string", func(a int) int { return ws.Get(a) }, func(a int) int { return gs.Other(a) }, func(b *mocker.Builder, v int) { b.Struct(Wide[string]{}).Method("Get").Return(v) }},
		inst{"G[int].Many", "many-int", func(a int) int { return gi.Many(a, 1, 2, 3, 4, 5, 6) }, func(a int) int { return gi.Other(a) }, func(b *mocker.Builder, v int) { b.Struct(&G[int]{}).Method("Many").Return(v) }},
		inst{"G[string].Many", "many-string", func(a int) int { return gs.Many(a, 1, 2, 3, 4, 5, 6) }, func(a int) int { return gs.Other(a) }, func(b *mocker.Builder, v int) { b.Struct(&G[string]{}).Method("Many").Return(v) }},
	)
	hi, hs := Huge[int]{pad: [16]int64{15: 5}}, Huge[string]{pad: [16]int64{15: 6}}
	plain := Plain{n: 4}
	insts = append(insts,
		inst{"Huge[int].Get", "huge-int", func(a int) int { return hi.Get(a) }, func(a int) int { return plain.Val() }, func(b *mocker.Builder, v int) { b.Struct(Huge[int]{}).Method("Get").Return(v) }},
		inst{"Huge[string].Get", "huge-string", func(a int) int { return hs.Get(a) }, func(a int) int { return plain.Val() }, func(b *mocker.Builder, v int) { b.Struct(Huge[string]{}).Method("Get").Return(v) }},
	)
	bi, bs := Box[int]{n: 7}, Box[string]{n: 8}
	insts = append(insts,
		inst{"Box[int].Val", "box-int", func(a int) int { return bi.Val() }, func(a int) int { return gi.Other(a) }, func(b *mocker.Builder, v int) { b.Struct(Box[int]{}).Method("Val").Return(v) }},
		inst{"Box[string].Val", "box-string", func(a int) int { return bs.Val() }, func(a int) int { return gs.Other(a) }, func(b *mocker.Builder, v int) { b.Struct(Box[string]{}).Method("Val").Return(v) }},
		inst{"Box[int].Val via method value", "box-int", func(a int) int { f := bi.Val; return f() }, func(a int) int { return gi.Other(a) }, func(b *mocker.Builder, v int) { b.Struct(Box[int]{}).Method("Val").Return(v) }},
	)
	// a mocked method whose body starts with a call to a sibling generic method: the sibling (the "other" here) stays
	insts = append(insts,
		inst{"Box[int].Total (calls Count first)", "box-int-total", func(a int) int { return bi.Total() }, func(a int) int { return bi.Count() }, func(b *mocker.Builder, v int) { b.Struct(Box[int]{}).Method("Total").Return(v) }},
		inst{"Box[string].Total (calls Count first)", "box-string-total", func(a int) int { return bs.Total() }, func(a int) int { return bs.Count() }, func(b *mocker.Builder, v int) { b.Struct(Box[string]{}).Method("Total").Return(v) }},
		inst{"G[int].Outer (calls Inner first)", "g-int-outer", func(a int) int { return gi.Outer(a) }, func(a int) int { return gi.Inner(a) }, func(b *mocker.Builder, v int) { b.Struct(&G[int]{}).Method("Outer").Return(v) }},
		inst{"G[*GA].Outer (calls Inner first)", "g-ptr-outer", func(a int) int { return ga.Outer(a) }, func(a int) int { return ga.Inner(a) }, func(b *mocker.Builder, v int) { b.Struct(&G[*GA]{}).Method("Outer").Return(v) }},
	)
	orig := make([]int, len(insts))
	oorig := make([]int, len(insts))
	for i, in := range insts {
		orig[i], oorig[i] = in.get(7), in.other(7)
	}
	for i, in := range insts {
		b := mocker.Create()
		var perr interface{}
		rep.Journal(map[string]interface{}{"part": "generics", "instantiation": in.name, "crashkey": "C06/generic-mock-kills-the-process:" + in.shape})
		func() {
			defer func() { perr = recover() }()
			in.mock(b, 7000+i)
		}()
		rep.Eval(1)
		rep.Class("generic/" + in.name)
		if perr != nil {
			rep.Violate("C06/generic-mock-rejected", fmt.Sprintf("mocking %s.Get panicked: %v", in.name, perr), nil)
			func() { defer func() { recover() }(); b.Reset() }()
			continue
		}
		if got := in.get(7); got != 7000+i {
			rep.Violate("C06/mocked-method-not-replaced", fmt.Sprintf("%s.Get mocked but returns %d", in.name, got), nil)
		}
		for j, o := range insts {
			rep.Eval(1)
			if got := o.other(7); got != oorig[j] {
				rep.Violate("C06/other-method-affected", fmt.Sprintf("mocking %s.Get changed %s.Other: %d want %d", in.name, o.name, got, oorig[j]), nil)
			}
			if j == i || o.shape == in.shape {
				continue // same GC shape may share code
			}
			rep.Stat("different_shape_isolation_observations", 1)
			if got := o.get(7); got != orig[j] {
				rep.Violate("C06/different-shape-instantiation-affected", fmt.Sprintf("mocking %s.Get changed %s.Get (different GC shape): %d want %d", in.name, o.name, got, orig[j]), nil)
			}
		}
		b.Reset()
		for j, o := range insts {
			if got := o.get(7); got != orig[j] {
				rep.Violate("C06/not-restored", fmt.Sprintf("after Reset of %s mock, %s.Get = %d want %d", in.name, o.name, got, orig[j]), nil)
			}
		}
	}
	// callbacks on methods of instantiated generic types receive the receiver unchanged (the other parameters of such
	// methods are the business of C01's generic finding: they are shifted by the dictionary word)
	{
		b := mocker.Create()
		var seen [3]uintptr
		var perr interface{}
		func() {
			defer func() { perr = recover() }()
			b.Struct(&G[int]{}).Method("Inner").Apply(func(g *G[int], a int) int { seen[0] = uintptr(unsafe.Pointer(g)); return 1 })
			b.Struct(&G[*GA]{}).Method("Inner").Apply(func(g *G[*GA], a int) int { seen[1] = uintptr(unsafe.Pointer(g)); return 2 })
			b.Struct(Box[string]{}).Method("Count").Apply(func(x Box[string]) int { seen[2] = uintptr(x.n); return 3 })
		}()
		got := [3]int{}
		if perr == nil {
			func() {
				defer func() { perr = recover() }()
				got = [3]int{gi.Inner(1), ga.Inner(1), bs.Count()}
			}()
		}
		rep.Eval(3)
		rep.Class("generic/receiver-handed-to-callback")
		want := [3]uintptr{uintptr(unsafe.Pointer(gi)), uintptr(unsafe.Pointer(ga)), uintptr(bs.n)}
		if perr != nil || got != [3]int{1, 2, 3} || seen != want {
			rep.Violate("C06/receiver-not-handed-over", fmt.Sprintf("Apply on G[int].Inner, G[*GA].Inner, Box[string].Count: results %v (want [1 2 3]), receivers seen %#x, want %#x, panic %v", got, seen, want, perr), nil)
		}
		b.Reset()
	}
	// a method promoted into an instantiated generic type from an embedded plain type: whatever the mock does to calls on
	// the generic type, the embedded type's own method is another method and stays as it is
	{
		b := mocker.Create()
		e := Emb[int]{Plain: Plain{n: 3}}
		before := plain.Val()
		var perr interface{}
		rep.Journal(map[string]interface{}{"part": "generics", "instantiation": "Emb[int].Val (promoted)", "crashkey": "C06/generic-mock-kills-the-process:promoted"})
		func() {
			defer func() { perr = recover() }()
			b.Struct(Emb[int]{}).Method("Val").Return(8801)
		}()
		rep.Eval(2)
		rep.Class("generic/promoted-method-of-embedded-plain-type")
		if perr == nil {
			if got := plain.Val(); got != before {
				rep.Violate("C06/other-type-method-affected", fmt.Sprintf("mocking Emb[int].Val (promoted from the embedded Plain) changed Plain.Val on a plain value: %d, want %d", got, before), nil)
			}
			_ = e.Val()
		}
		func() { defer func() { recover() }(); b.Reset() }()
		if got, got2 := plain.Val(), e.Val(); got != before || got2 != 1203 {
			rep.Violate("C06/not-restored", fmt.Sprintf("after Reset of the Emb[int].Val mock: Plain.Val = %d (want %d), Emb[int].Val = %d (want 1203)", got, before, got2), nil)
		}
	}
	// two instantiations of equal GC shape (they share one body) mocked one after the other without a Reset in between:
	// the one mocked last is replaced (no "already patched" refusal), and Reset brings both back
	{
		b := mocker.Create()
		var perr interface{}
		func() {
			defer func() { perr = recover() }()
			b.Struct(&G[*GA]{}).Method("Get").Return(8101)
			b.Struct(&G[*GB]{}).Method("Get").Return(8102)
			b.Struct(&G[int]{}).Method("Get").Return(8103)
			b.Struct(&G[int64]{}).Method("Get").Return(8104)
			b.Struct(Box[int]{}).Method("Val").Return(8105)
			b.Struct(Box[MyInt]{}).Method("Val").Return(8106)
			b.Struct(&G[MyInt]{}).Method("Get").Return(8107)
		}()
		rep.Eval(2)
		rep.Class("generic/equal-shape-instantiations-mocked-together")
		if perr != nil {
			rep.Violate("C06/generic-mock-rejected", fmt.Sprintf("mocking G[*GA].Get and then G[*GB].Get (equal GC shape) in one builder: %v", perr), nil)
		} else if got := [5]int{gb.Get(7), gi64.Get(7), (Box[MyInt]{n: 1}).Val(), (&G[MyInt]{n: 1}).Get(7), gs.Get(7)}; got != [5]int{8102, 8104, 8106, 8107, orig[2]} {
			rep.Violate("C06/mocked-method-not-replaced", fmt.Sprintf("(G[*GB].Get, G[int64].Get, Box[MyInt].Val, G[MyInt].Get - each mocked after an instantiation of equal shape - and G[string].Get untouched): %v, want [8102 8104 8106 8107 %d]", got, orig[2]), nil)
		}
		func() { defer func() { recover() }(); b.Reset() }()
		for j, o := range insts {
			if got := o.get(7); got != orig[j] {
				rep.Violate("C06/not-restored", fmt.Sprintf("after Reset of equal-shape mocks, %s = %d want %d", o.name, got, orig[j]), nil)
			}
		}
	}
	// instantiations of one generic function mocked through one builder, then Reset: each gives its own stubbed value
	// while mocked, asking again for one of them continues that one's configuration, and the Reset brings all of them back
	{
		type pk struct {
			name string
			call func() int
			mock func(b *mocker.Builder, v int)
		}
		pks := []pk{
			{"Pick[int]", func() int { _, n := Pick[int](2); return n }, func(b *mocker.Builder, v int) { b.Func(Pick[int]).Return(0, v) }},
			{"Pick[string]", func() int { _, n := Pick[string](2); return n }, func(b *mocker.Builder, v int) { b.Func(Pick[string]).Return("", v) }},
			{"Pick[float64]", func() int { _, n := Pick[float64](2); return n }, func(b *mocker.Builder, v int) { b.Func(Pick[float64]).Return(0.0, v) }},
			{"Pick[[2]int]", func() int { _, n := Pick[[2]int](2); return n }, func(b *mocker.Builder, v int) { b.Func(Pick[[2]int]).Return([2]int{}, v) }},
		}
		for round := 0; round < 3; round++ {
			b := mocker.Create()
			var perr interface{}
			rep.Journal(map[string]interface{}{"part": "generics", "instantiation": "Pick[T] x4", "crashkey": "C06/generic-mock-kills-the-process:generic-function"})
			func() {
				defer func() { perr = recover() }()
				for i := range pks {
					k := (i + round) % len(pks)
					pks[k].mock(b, 8200+k)
				}
			}()
			rep.Eval(int64(2 * len(pks)))
			rep.Class("generic/function-instantiations-mocked-together")
			if perr != nil {
				rep.Violate("C06/generic-mock-rejected", fmt.Sprintf("mocking four instantiations of the generic function Pick in one builder: %v", perr), nil)
			} else {
				for k, p := range pks {
					if got := p.call(); got != 8200+k {
						rep.Violate("C06/mocked-method-not-replaced", fmt.Sprintf("%s stubbed to give %d (with three other instantiations stubbed in the same builder) gives %d", p.name, 8200+k, got), nil)
					}
				}
				if round == 2 {
					// the handle asked for again: a new instruction through it changes that instantiation, nobody else
					func() {
						defer func() { perr = recover() }()
						b.Func(Pick[string]).Apply(func(int) (string, int) { return "", 8301 })
					}()
					if got := [3]int{pks[1].call(), pks[0].call(), pks[2].call()}; perr != nil || got != [3]int{8301, 8200, 8202} {
						rep.Violate("C06/mocked-method-not-replaced", fmt.Sprintf("an Apply through Func(Pick[string]) of the same builder: calls of Pick[string], Pick[int], Pick[float64] give %v, want [8301 8200 8202] (panic: %v)", got, perr), nil)
					}
				}
			}
			func() { defer func() { recover() }(); b.Reset() }()
			for _, p := range pks {
				if got := p.call(); got != 46 {
					rep.Violate("C06/not-restored", fmt.Sprintf("after Reset of a builder that stubbed four instantiations of Pick, %s gives %d, want the original 46", p.name, got), nil)
				}
			}
		}
	}
	// the same for instantiations that all have the Go type func(int) int (and one printed name)
	{
		type wk struct {
			name string
			call func() int
			fn   interface{}
		}
		wks := []wk{
			{"Width[int32]", func() int { return Width[int32](1) }, Width[int32]},
			{"Width[int64]", func() int { return Width[int64](1) }, Width[int64]},
			{"Width[string]", func() int { return Width[string](1) }, Width[string]},
			{"Width[[5]byte]", func() int { return Width[[5]byte](1) }, Width[[5]byte]},
		}
		origs := make([]int, len(wks))
		for i, w := range wks {
			origs[i] = w.call()
		}
		for round := 0; round < 3; round++ {
			b := mocker.Create()
			var perr interface{}
			rep.Journal(map[string]interface{}{"part": "generics", "instantiation": "Width[T] x4", "crashkey": "C06/generic-mock-kills-the-process:generic-function-one-type"})
			func() {
				defer func() { perr = recover() }()
				for i := range wks {
					k := (i + round) % len(wks)
					b.Func(wks[k].fn).Returns(8400+k, 8500+k)
				}
			}()
			rep.Eval(int64(3 * len(wks)))
			rep.Class("generic/function-instantiations-of-one-go-type-mocked-together")
			if perr != nil {
				rep.Violate("C06/generic-mock-rejected", fmt.Sprintf("mocking four instantiations of Width (all of type func(int) int) in one builder: %v", perr), nil)
			} else {
				for k, w := range wks {
					if got := [3]int{w.call(), w.call(), w.call()}; got != [3]int{8400 + k, 8500 + k, 8500 + k} {
						rep.Violate("C06/mocked-method-not-replaced", fmt.Sprintf("%s stubbed with Returns(%d, %d) (three other instantiations of the same Go type stubbed in the same builder): three calls give %v", w.name, 8400+k, 8500+k, got), nil)
						break
					}
				}
			}
			func() { defer func() { recover() }(); b.Reset() }()
			for i, w := range wks {
				if got := w.call(); got != origs[i] {
					rep.Violate("C06/not-restored", fmt.Sprintf("after Reset of a builder that stubbed four instantiations of Width, %s gives %d, want the original %d", w.name, got, origs[i]), nil)
				}
			}
		}
	}
	rep.Sample(map[string]interface{}{"generic": "G[T].Get", "instantiations": []string{"int", "int64", "string", "*GA", "*GB", "[2]int"}})
}

// ---- two packages with the same package name and type name in different directories, one builder
func TestC06SameName(t *testing.T) {
	rep := vmon.NewReport("C06")
	defer rep.Write()
	a, b := &ashapes.T{W: 2, H: 3}, &bshapes.T{W: 2, H: 3}
	type step struct {
		name string
		do   func(m *mocker.Builder)
		want [4]int // a.Area a.Get(1) b.Area b.Get(1)
	}
	scen := [][]step{
		{
			{"a.T.Area->1", func(m *mocker.Builder) { m.Struct(&ashapes.T{}).Method("Area").Return(1) }, [4]int{1, -111, -206, -211}},
			{"b.T.Area->2", func(m *mocker.Builder) { m.Struct(&bshapes.T{}).Method("Area").Return(2) }, [4]int{1, -111, 2, -211}},
		},
		{
			{"b.T.Get->3", func(m *mocker.Builder) { m.Struct(&bshapes.T{}).Method("Get").Return(3) }, [4]int{-106, -111, -206, 3}},
			{"a.T.Get->4", func(m *mocker.Builder) { m.Struct(&ashapes.T{}).Method("Get").Return(4) }, [4]int{-106, 4, -206, 3}},
			{"a.T.Area->5", func(m *mocker.Builder) { m.Struct(&ashapes.T{}).Method("Area").Return(5) }, [4]int{5, 4, -206, 3}},
		},
	}
	state := func() [4]int { return [4]int{a.Area(), a.Get(1), b.Area(), b.Get(1)} }
	for si, sc := range scen {
		m := mocker.Create()
		var hist []string
		for _, st := range sc {
			hist = append(hist, st.name)
			var perr interface{}
			func() {
				defer func() { perr = recover() }()
				st.do(m)
			}()
			rep.Eval(1)
			rep.Class(fmt.Sprintf("same-name/scenario%d/%s", si, st.name))
			// call twice: a wrongly shared stub would serve a sequence
			s1, s2 := state(), state()
			if perr != nil || s1 != st.want || s2 != st.want {
				rep.Violate("C06/type-string-cache-collision", fmt.Sprintf("one builder, types a/shapes.T and b/shapes.T: after %v (panic %v) state (a.Area a.Get b.Area b.Get) = %v then %v, want %v", hist, perr, s1, s2, st.want),
					map[string]interface{}{"history": hist})
				break
			}
		}
		m.Reset()
		if s := state(); s != [4]int{-106, -111, -206, -211} {
			rep.Violate("C06/not-restored", fmt.Sprintf("same-name scenario %d: after Reset %v", si, s), nil)
		}
	}
}

// TestC06Retarget: one by-name method mocker object pointed at one method after another (Method(a)... Cancel,
// Method(b)...): each time exactly the method named last is replaced.
func TestC06Retarget(t *testing.T) {
	rep := vmon.NewReport("C06")
	defer rep.Write()
	byType := map[string][]reg.Method{}
	var order []string
	for _, m := range reg.Methods {
		if m.PtrRecv {
			k := m.Pkg + ".*" + m.Type
			if _, ok := byType[k]; !ok {
				order = append(order, k)
			}
			byType[k] = append(byType[k], m)
		}
	}
	sort.Strings(order)
	for _, k := range order {
		ms := byType[k]
		if len(ms) < 2 {
			continue
		}
		um := mocker.NewUnexportedMethodMocker(ms[0].Pkg, "(*"+ms[0].Type+")")
		// Apply only: a Return through a mocker object that was cancelled before is not a use the statement covers (the
		// builder hands out a fresh object after a cancel)
		for round, forApply := range []bool{true, true, true} {
			for mi, m := range ms {
				v := 700000 + round*1000 + mi
				rep.Journal(map[string]interface{}{"part": "retarget", "type": k, "method": m.Name, "crashkey": "C06/crash"})
				var perr interface{}
				func() {
					defer func() { perr = recover() }()
					if forApply {
						um.Method(m.Name).Apply(func(r unsafe.Pointer, a int) int { return v })
					} else {
						um.Method(m.Name).As(func(r unsafe.Pointer, a int) int { return 0 }).Return(v)
					}
				}()
				if perr != nil {
					rep.Violate("C06/retargeted-mocker-rejected", fmt.Sprintf("%s: Method(%q) on a mocker object used for another method before: %v", k, m.Name, perr), nil)
					continue
				}
				for oi, o := range ms {
					got := o.Forms["pointer"](0, 3)
					rep.Eval(1)
					if oi == mi && got != v {
						rep.Violate("C06/mocked-method-not-replaced", fmt.Sprintf("%s: mocker object retargeted to %q: calling %s returns %d, want the stub value %d", k, m.Name, o.Name, got, v), nil)
					}
					if oi != mi && got != o.Orig(0, 3) {
						rep.Violate("C06/other-method-affected", fmt.Sprintf("%s: mocker object retargeted to %q: sibling %s returns %d, want its original %d", k, m.Name, o.Name, got, o.Orig(0, 3)), nil)
					}
				}
				um.Cancel()
				for _, o := range ms {
					if got := o.Forms["pointer"](0, 3); got != o.Orig(0, 3) {
						rep.Violate("C06/not-restored", fmt.Sprintf("%s: after Cancel of the mocker object (last target %q) %s returns %d, want %d", k, m.Name, o.Name, got, o.Orig(0, 3)), nil)
					}
				}
			}
		}
		rep.Class("retarget/one-mocker-object")
		rep.Stat("retargeted_mocker_objects", 1)
	}
}

type ownT struct{ v int }

//go:noinline
func (o *ownT) peek(a int) int { return o.v + a + 70 }

//go:noinline
func (o *ownT) poke(a int) int { return o.v + a + 80 }

type siteHelper struct{}

// a helper with a value receiver, as test suites have them
func (siteHelper) mock(b *mocker.Builder, v int) {
	b.ExportStruct("*ownT").Method("peek").As(func(o unsafe.Pointer, a int) int { return 0 }).Return(v)
}

func genericSite[T any](b *mocker.Builder, v int) {
	b.ExportStruct("*ownT").Method("peek").As(func(o unsafe.Pointer, a int) int { return 0 }).Return(v)
}

// TestC06CallSites: an unexported type of the calling package addressed by name (no Pkg), with the lookup written in a
// flat function body, a function literal, a t.Run sub-test, a deferred closure, a value-receiver helper method and a
// generic helper: the named method of the CALLER's package is replaced each time.
func TestC06CallSites(t *testing.T) {
	rep := vmon.NewReport("C06")
	defer rep.Write()
	o := &ownT{v: 1}
	as := func(o unsafe.Pointer, a int) int { return 0 }
	check := func(site string, b *mocker.Builder, v int, perr interface{}) {
		rep.Eval(1)
		rep.Class("call-site/" + site)
		if perr != nil {
			rep.Violate("C06/mock-rejected", fmt.Sprintf("by-name method mock written in a %s: %v", site, perr), map[string]interface{}{"site": site})
		} else if got, other := o.peek(2), o.poke(2); got != v || other != 83 {
			rep.Violate("C06/mocked-method-not-replaced", fmt.Sprintf("by-name method mock written in a %s: peek(2) = %d want %d, poke(2) = %d want 83", site, got, v, other), map[string]interface{}{"site": site})
		}
		func() { defer func() { recover() }(); b.Reset() }()
		if got := o.peek(2); got != 73 {
			rep.Violate("C06/not-restored", fmt.Sprintf("after Reset (%s): peek(2) = %d want 73", site, got), nil)
		}
	}
	guard := func(f func()) (perr interface{}) {
		defer func() { perr = recover() }()
		f()
		return nil
	}
	// flat
	{
		b := mocker.Create()
		var perr interface{}
		func() {
			defer func() { perr = recover() }()
		}()
		perr = guardFlat(b, 7101)
		check("flat function body", b, 7101, perr)
	}
	// function literal, builder created outside
	{
		b := mocker.Create()
		perr := guard(func() { b.ExportStruct("*ownT").Method("peek").As(as).Return(7102) })
		check("function literal", b, 7102, perr)
	}
	// function literal creating the builder itself, two lookups
	{
		var b *mocker.Builder
		perr := guard(func() {
			b = mocker.Create()
			b.ExportStruct("*ownT").Method("poke")
			b.ExportStruct("*ownT").Method("peek").As(as).Return(7103)
		})
		check("function literal that also creates the builder", b, 7103, perr)
	}
	// t.Run sub-test
	t.Run("sub", func(t *testing.T) {
		b := mocker.Create()
		perr := guard(func() { b.ExportStruct("*ownT").Method("peek").As(as).Return(7104) })
		check("t.Run sub-test", b, 7104, perr)
	})
	// deferred closure
	{
		b := mocker.Create()
		var perr interface{}
		func() {
			defer func() {
				perr = guard(func() { b.ExportStruct("*ownT").Method("peek").As(as).Return(7105) })
			}()
		}()
		check("deferred closure", b, 7105, perr)
	}
	// value-receiver helper and generic helper
	{
		b := mocker.Create()
		perr := guard(func() { siteHelper{}.mock(b, 7106) })
		check("value-receiver helper method", b, 7106, perr)
	}
	{
		b := mocker.Create()
		perr := guard(func() { genericSite[int](b, 7107) })
		check("generic helper function", b, 7107, perr)
	}
}

func guardFlat(b *mocker.Builder, v int) (perr interface{}) {
	defer func() { perr = recover() }()
	b.ExportStruct("*ownT").Method("peek").As(func(o unsafe.Pointer, a int) int { return 0 }).Return(v)
	return nil
}
