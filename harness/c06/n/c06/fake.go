//go:build go1.21

// Package c06 has the same name (and last import-path element) as the harness package that mocks its type.
package c06

// Fake has an unexported method that callers in other packages reach through Invoke
type Fake struct{ N int }

//go:noinline
func (f *Fake) call(a int) int { return f.N + a + 2000 }

// Invoke calls the unexported method
//
//go:noinline
func Invoke(f *Fake, a int) int { return f.call(a) }
