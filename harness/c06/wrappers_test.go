//go:build go1.21

package c06

import (
	"fmt"
	"runtime"
	"testing"
	"unsafe"

	mocker "github.com/tencent/goom"
	"github.com/tencent/goom/zzverif/vmon"
)

// W has methods on both receiver kinds. For its value-receiver methods the compiler also emits (*W).V1 / (*W).V3,
// the forwarders interface tables of *W and method expressions (*W).V1 go through.
type W struct{ A, B, C int }

//go:noinline
func (w W) V1(a int) int { return 100 + w.A + a }

//go:noinline
func (w W) V3(a, b int) int { return 300 + w.A + w.B + w.C + a + b }

//go:noinline
func (w *W) P1(a int) int { return 500 + w.A + a }

//go:noinline
func (w *W) P2(a int) int { return 600 + w.A + a }

type wIface interface {
	V1(a int) int
	V3(a, b int) int
	P1(a int) int
}

// calls through the forwarder that the compiler cannot turn back into direct calls of W.V1 / W.V3
//
//go:noinline
func viaIfaceV1(x wIface, a int) int { return x.V1(a) }

//go:noinline
func viaIfaceV3(x wIface, a, b int) int { return x.V3(a, b) }

var mexprV1, mexprV3 = (*W).V1, (*W).V3

// TestC06Wrappers: a value-receiver method mocked through a POINTER instance. The named method is then the forwarder
// (*W).M: calls that go through it (interface holding *W, method expression (*W).M) reach the callback, which is handed
// that very pointer and the caller's arguments. (What direct calls on values do in that case is not asserted.)
func TestC06Wrappers(t *testing.T) {
	rep := vmon.NewReport("C06")
	defer rep.Write()
	insts := []*W{{1, 2, 3}, {10, 20, 30}, {7, 0, -7}}
	type seen struct {
		recv uintptr
		a, b int
	}
	for round := 0; round < 3; round++ {
		b := mocker.Create()
		var got seen
		c := map[string]interface{}{"round": round}
		rep.Journal(map[string]interface{}{"part": "wrappers", "round": round, "crashkey": "C06/pointer-instance-value-method-dies"})
		var perr interface{}
		func() {
			defer func() { perr = recover() }()
			switch round {
			case 0, 2:
				b.Struct(&W{}).Method("V1").Apply(func(w *W, a int) int { got = seen{uintptr(unsafe.Pointer(w)), a, 0}; return 9001 })
				b.Struct(&W{}).Method("V3").Apply(func(w *W, a, b int) int { got = seen{uintptr(unsafe.Pointer(w)), a, b}; return 9003 })
			case 1:
				b.Struct(&W{}).Method("V1").Return(9001)
				b.Struct(&W{}).Method("V3").Return(9003)
			}
			if round == 2 {
				// and, in the same builder, methods of the other receiver kind through the other instance kind
				b.Struct(&W{}).Method("P1").Return(9005)
			}
		}()
		rep.Eval(1)
		if perr != nil {
			rep.Violate("C06/well-formed-mock-rejected", fmt.Sprintf("Struct(&W{}).Method(value-receiver method): %v", perr), c)
			b.Reset()
			continue
		}
		for i, p := range insts {
			var x wIface = p
			for _, form := range []string{"iface", "mexpr"} {
				got = seen{}
				var r1, r3 int
				if form == "iface" {
					r1 = viaIfaceV1(x, 40+i)
				} else {
					r1 = mexprV1(p, 40+i)
				}
				g1 := got
				got = seen{}
				if form == "iface" {
					r3 = viaIfaceV3(x, 50+i, 60+i)
				} else {
					r3 = mexprV3(p, 50+i, 60+i)
				}
				g3 := got
				rep.Eval(2)
				if r1 != 9001 || r3 != 9003 {
					rep.Violate("C06/forwarder-call-not-mocked", fmt.Sprintf("round %d, instance %d, %s: V1 = %d (want 9001), V3 = %d (want 9003)", round, i, form, r1, r3), c)
				}
				if round != 1 {
					want1 := seen{uintptr(unsafe.Pointer(p)), 40 + i, 0}
					want3 := seen{uintptr(unsafe.Pointer(p)), 50 + i, 60 + i}
					if g1 != want1 || g3 != want3 {
						rep.Violate("C06/receiver-or-arguments-altered", fmt.Sprintf("round %d, instance %d (%p), %s: the callback of V1 saw receiver %#x args (%d), of V3 receiver %#x args (%d, %d); want %#x (%d) and (%d, %d)",
							round, i, p, form, g1.recv, g1.a, g3.recv, g3.a, g3.b, want1.recv, want1.a, want3.a, want3.b), c)
					}
				}
				rep.Class(fmt.Sprintf("wrappers/round%d/%s", round, form))
			}
			// pointer-receiver methods nobody mocked are original (P2 always, P1 unless round 2)
			if r := p.P2(1); r != 600+p.A+1 {
				rep.Violate("C06/other-method-affected", fmt.Sprintf("round %d: P2 = %d", round, r), c)
			}
			if r, want := p.P1(1), map[bool]int{true: 9005, false: 500 + p.A + 1}[round == 2]; r != want {
				rep.Violate("C06/other-method-affected", fmt.Sprintf("round %d: P1 = %d want %d", round, r, want), c)
			}
		}
		b.Reset()
		for i, p := range insts {
			var x wIface = p
			if r1, r3, rp := viaIfaceV1(x, 1), mexprV3(p, 1, 1), p.P1(1); r1 != 100+p.A+1 || r3 != 300+p.A+p.B+p.C+2 || rp != 500+p.A+1 {
				rep.Violate("C06/not-restored", fmt.Sprintf("round %d instance %d after Reset: V1 %d V3 %d P1 %d", round, i, r1, r3, rp), c)
			}
			if r := p.V1(1); r != 100+p.A+1 {
				rep.Violate("C06/not-restored", fmt.Sprintf("round %d instance %d after Reset: direct V1 %d", round, i, r), c)
			}
		}
	}
	// both receiver kinds through both instance kinds in one builder, pointer lookups first
	{
		b := mocker.Create()
		b.Struct(&W{}).Method("P1").Return(7001)
		b.Struct(W{}).Method("V1").Return(7002)
		b.Struct(&W{}).Method("P2").Return(7003)
		b.Struct(W{}).Method("V3").Return(7004)
		for i, p := range insts {
			v := *p
			f := v.V1
			rep.Eval(5)
			if a, bb, cc, d, e := p.P1(1), v.V1(1), p.P2(1), v.V3(1, 1), f(1); a != 7001 || bb != 7002 || cc != 7003 || d != 7004 || e != 7002 {
				rep.Violate("C06/mixed-receiver-kinds-one-builder", fmt.Sprintf("instance %d: P1 %d V1 %d P2 %d V3 %d V1-method-value %d, want 7001 7002 7003 7004 7002", i, a, bb, cc, d, e), nil)
			}
		}
		b.Reset()
		for i, p := range insts {
			v := *p
			if a, bb := p.P1(1), v.V1(1); a != 500+p.A+1 || bb != 100+p.A+1 {
				rep.Violate("C06/not-restored", fmt.Sprintf("mixed kinds, instance %d after Reset: P1 %d V1 %d", i, a, bb), nil)
			}
		}
		rep.Class("wrappers/mixed-kinds-one-builder")
	}
}

// L is mocked by a helper that lets go of its builder: the mock stays installed for the rest of the process (own child).
type L struct{ A int }

//go:noinline
func (l *L) Read(a int) int { return 800 + l.A + a }

//go:noinline
func installAndForget(k int) {
	b := mocker.Create()
	b.Struct(&L{}).Method("Read").Apply(func(l *L, a int) int { return 7000 + k + l.A + a })
}

var lifetimeSink []func(*L, int) int

// TestC06Lifetime: the callback of an installed mock is reachable from nowhere but the mock itself; it must survive
// collections and the reuse of freed memory for as long as the mock is installed.
func TestC06Lifetime(t *testing.T) {
	rep := vmon.NewReport("C06")
	defer rep.Write()
	k := vmon.EnvInt("VERIF_C06_K", 31)
	installAndForget(k)
	insts := []*L{{1}, {2}, {3}}
	rounds := vmon.EnvInt("VERIF_C06_GCROUNDS", 40)
	for r := 0; r < rounds; r++ {
		rep.Journal(map[string]interface{}{"part": "lifetime", "round": r, "crashkey": "C06/callback-freed-while-installed"})
		runtime.GC()
		// closures of the same shape and size class as the callback, pointing at another function
		lifetimeSink = lifetimeSink[:0]
		for j := 0; j < 4000; j++ {
			j := j
			lifetimeSink = append(lifetimeSink, func(l *L, a int) int { return -999 - j })
		}
		for i, p := range insts {
			rep.Eval(1)
			if got, want := p.Read(5), 7000+k+p.A+5; got != want {
				rep.Violate("C06/callback-freed-while-installed", fmt.Sprintf("after %d collections: Read(5) on instance %d = %d, want %d (the callback of the installed mock)", r+1, i, got, want),
					map[string]interface{}{"collections": r + 1})
				return
			}
		}
	}
	rep.Stat("lifetime_collections", int64(rounds))
	rep.Class("lifetime/builder-dropped")
	rep.Class("lifetime/callback-closure")
}
