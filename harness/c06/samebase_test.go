//go:build go1.21

package c06

import (
	"fmt"
	"testing"

	mocker "github.com/tencent/goom"
	nested "github.com/tencent/goom/zzverif/c06/n/c06"
	"github.com/tencent/goom/zzverif/vmon"
)

// Fake is this package's own type of the same name, with a method of the same name
type Fake struct{ N int }

//go:noinline
func (f *Fake) call(a int) int { return f.N + a + 1000 }

// TestC06SameBase: the mocked type lives in a package whose import path ends like the calling package's
// (.../c06/n/c06 seen from .../c06). Struct(x).ExportMethod(name) names the method of x's type: that one is replaced for
// every instance, the same-named method of the same-named local type is another method.
func TestC06SameBase(t *testing.T) {
	rep := vmon.NewReport("C06")
	defer rep.Write()
	theirs := []*nested.Fake{{N: 1}, {N: 2}}
	ours := &Fake{N: 5}
	for _, form := range []string{"Apply", "As.Return"} {
		b := mocker.Create()
		var perr interface{}
		func() {
			defer func() { perr = recover() }()
			if form == "Apply" {
				b.Struct(&nested.Fake{}).ExportMethod("call").Apply(func(f *nested.Fake, a int) int { return -a })
			} else {
				b.Struct(&nested.Fake{}).ExportMethod("call").As(func(f *nested.Fake, a int) int { return 0 }).Return(-7)
			}
		}()
		rep.Eval(3)
		c := map[string]interface{}{"form": form}
		if perr != nil {
			rep.Violate("C06/well-formed-mock-rejected", fmt.Sprintf("Struct(&nested.Fake{}).ExportMethod(call) from a package with the same last path element, %s: %v", form, perr), c)
		} else {
			for i, f := range theirs {
				if got := nested.Invoke(f, 7); got != -7 {
					rep.Violate("C06/mocked-method-not-replaced", fmt.Sprintf("%s: nested Fake.call on instance %d = %d, want -7", form, i, got), c)
				}
			}
		}
		if got := ours.call(7); got != 1012 {
			rep.Violate("C06/other-type-method-affected", fmt.Sprintf("%s: the local Fake.call(7) = %d, want 1012", form, got), c)
		}
		func() { defer func() { recover() }(); b.Reset() }()
		if got := nested.Invoke(theirs[0], 7); got != 2008 {
			rep.Violate("C06/not-restored", fmt.Sprintf("%s: nested Fake.call after Reset = %d, want 2008", form, got), c)
		}
		rep.Class("same-base/" + form)
	}
}
