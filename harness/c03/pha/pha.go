//go:build go1.21

// Package pha holds origin placeholders in a package that imports nothing, so
// that the linker lays them out at a different place than the test package.
package pha

var Sink [8]int

// Placeholder is a body large enough to hold any trampoline.
//
//go:noinline
func Placeholder(a, b int) int {
	x := a
	for i := 0; i < b; i++ {
		x = x*31 + i
		Sink[i&7] += x
		if x&1 == 0 {
			x ^= Sink[(i+1)&7]
		} else {
			x += Sink[(i+3)&7] * 7
		}
		Sink[(i+5)&7] -= x >> 3
		if x%7 == 3 {
			x = x*x + Sink[(i+2)&7]
		}
		Sink[(i+6)&7] ^= x << 2
		x += Sink[(i+4)&7]*13 - Sink[(i+7)&7]*17
	}
	for i := 0; i < a; i++ {
		x = x*37 + i
		Sink[i&7] -= x
		if x&2 == 0 {
			x ^= Sink[(i+1)&7] * 3
		} else {
			x += Sink[(i+3)&7] * 5
		}
		Sink[(i+5)&7] += x >> 2
	}
	return x
}
