//go:build go1.21

package patch

import (
	"bytes"
	"fmt"
	"sort"
	"strings"
	"testing"

	"github.com/tencent/goom/internal/bytecode/memory"
	pha "github.com/tencent/goom/zzverif/c03pha"
	x86 "github.com/tencent/goom/zzverif/ref/x86asm"
	"github.com/tencent/goom/zzverif/vmon"
)

var c03Sink [8]int

// c03PlaceholderLate lives in the test package (late in link order).
//
//go:noinline
func c03PlaceholderLate(a, b int) int {
	x := a
	for i := 0; i < b; i++ {
		x = x*31 + i
		c03Sink[i&7] += x
		if x&1 == 0 {
			x ^= c03Sink[(i+1)&7]
		} else {
			x += c03Sink[(i+3)&7] * 7
		}
		c03Sink[(i+5)&7] -= x >> 3
		if x%7 == 3 {
			x = x*x + c03Sink[(i+2)&7]
		}
		c03Sink[(i+6)&7] ^= x << 2
		x += c03Sink[(i+4)&7]*13 - c03Sink[(i+7)&7]*17
	}
	for i := 0; i < a; i++ {
		x = x*37 + i
		c03Sink[i&7] -= x
		if x&2 == 0 {
			x ^= c03Sink[(i+1)&7] * 3
		} else {
			x += c03Sink[(i+3)&7] * 5
		}
		c03Sink[(i+5)&7] += x >> 2
	}
	return x
}

//go:noinline
func c03Repl() {}

type c03pc struct {
	posO    int
	kind    string
	tgtO    uintptr
	tgtW    uintptr
	widened bool
}

type c03result struct {
	built     bool
	refusal   string
	why       string // non-empty: violation text
	key       string
	copied    int
	written   int
	shape     string
	pcs       []c03pc
	morestack bool
	insts     int
}

func c03kind(i x86.Inst) string {
	switch {
	case i.Op == x86.CALL:
		return "CALL"
	case i.Op == x86.JMP:
		return "JMP"
	case strings.HasPrefix(i.Op.String(), "J"):
		return "Jcc"
	default:
		return "RIPmem"
	}
}

// c03Validate decodes original prologue O (at E) and written bytes W (at P) in lock-step.
func c03Validate(E uintptr, O []byte, funcLen int, P uintptr, W, P0 []byte) (res c03result) {
	res.built = true
	posO, posW := 0, 0
	offMap := map[int]int{}
	var ops []string
	ended := false
	for {
		if posO >= 13 && posW+5 <= len(W) && W[posW] == 0xE9 {
			j := vmon.DecodeJumpBytes(W[posW:posW+5], P+uintptr(posW), false)
			if j.Target == E+uintptr(posO) {
				// could also be a copied original JMP that happens to... only if O has the same E9 here
				// landing on its own address, which would be an infinite loop: accept as the return jump.
				res.copied, res.written = posO, posW+5
				ended = true
				break
			}
		}
		if posO >= funcLen {
			// goom copied the (short) function whole: no return jump
			res.copied, res.written = posO, posW
			ended = true
			break
		}
		if posO+1 > len(O) || posW+1 > len(W) {
			break
		}
		io, errO := x86.Decode(O[posO:min(posO+16, len(O))], 64)
		if errO != nil {
			res.key, res.why = "C03/no-oracle", fmt.Sprintf("reference cannot decode original at +%d", posO)
			return
		}
		iw, errW := x86.Decode(W[posW:min(posW+16, len(W))], 64)
		if errW != nil {
			res.key, res.why = "C03/trampoline-garbage", fmt.Sprintf("placeholder bytes at +%d (copy of original +%d %s) do not decode: % x", posW, posO, io.String(), W[posW:min(posW+12, len(W))])
			return
		}
		offMap[posO] = posW
		ops = append(ops, io.Op.String())
		res.insts++
		ob := O[posO : posO+io.Len]
		wb := W[posW : posW+iw.Len]
		if io.PCRel == 0 {
			if !bytes.Equal(ob, wb) {
				res.key, res.why = "C03/instruction-altered", fmt.Sprintf("original +%d %s (% x) became %s (% x)", posO, io.String(), ob, iw.String(), wb)
				return
			}
		} else {
			if iw.PCRel == 0 || io.Op != iw.Op {
				res.key, res.why = "C03/instruction-altered", fmt.Sprintf("original +%d %s (% x) became %s (% x)", posO, io.String(), ob, iw.String(), wb)
				return
			}
			relO := c03rel(ob[io.PCRelOff:io.PCRelOff+io.PCRel], io.PCRel)
			relW := c03rel(wb[iw.PCRelOff:iw.PCRelOff+iw.PCRel], iw.PCRel)
			pc := c03pc{posO: posO, kind: c03kind(io),
				tgtO: E + uintptr(posO+io.Len) + uintptr(relO), tgtW: P + uintptr(posW+iw.Len) + uintptr(relW), widened: iw.PCRel != io.PCRel}
			tailO := ob[io.PCRelOff+io.PCRel:]
			tailW := wb[iw.PCRelOff+iw.PCRel:]
			if !bytes.Equal(tailO, tailW) {
				res.key = "C03/immediate-after-riprel-dropped"
				res.why = fmt.Sprintf("original +%d %s (% x): the %d byte(s) after the displacement are not preserved, placeholder has %s (% x)", posO, io.String(), ob, len(tailO), iw.String(), wb)
				return
			}
			if iw.PCRel == io.PCRel {
				if !bytes.Equal(ob[:io.PCRelOff], wb[:iw.PCRelOff]) {
					res.key, res.why = "C03/instruction-altered", fmt.Sprintf("original +%d %s (% x): opcode/modrm bytes changed: % x", posO, io.String(), ob, wb)
					return
				}
			} else {
				k := c03kind(io)
				if !(io.PCRel == 1 && iw.PCRel == 4 && (k == "Jcc" || k == "JMP")) {
					res.key, res.why = "C03/instruction-altered", fmt.Sprintf("original +%d %s (% x): displacement width changed %d->%d: % x", posO, io.String(), ob, io.PCRel, iw.PCRel, wb)
					return
				}
			}
			res.pcs = append(res.pcs, pc)
		}
		posO += io.Len
		posW += iw.Len
	}
	if !ended {
		res.key, res.why = "C03/no-return-jump", fmt.Sprintf("ran out of bytes at original +%d / placeholder +%d without finding the return jump", posO, posW)
		return
	}
	res.shape = strings.Join(ops, " ")
	// rule 2: every PC-relative operand resolves to the same absolute address
	grown := false
	for _, pc := range res.pcs {
		off := int(int64(pc.tgtO) - int64(E))
		if off >= 0 && off < res.copied {
			want, ok := offMap[off]
			okInternal := ok && pc.tgtW == P+uintptr(want)
			if off == 0 && pc.tgtW == E && pc.kind == "CALL" {
				// a recursive CALL may reach the mock (as recursion from deeper in the body does); a JMP/Jcc back
				// to the entry is a loop of the original and has to stay inside the relocated copy
				okInternal = true
			}
			if !okInternal {
				res.key = "C03/internal-target-wrong"
				if grown {
					res.key = "C03/displacement-after-widening"
				}
				res.why = fmt.Sprintf("%s at original +%d targets original +%d (inside the copied prefix); the copy targets %#x which is neither the relocated instruction (%#x) nor the original entry", pc.kind, pc.posO, off, pc.tgtW, P+uintptr(want))
				return
			}
		} else if pc.tgtW != pc.tgtO {
			res.key = "C03/displacement-wrong"
			if grown {
				res.key = "C03/displacement-after-widening"
			}
			res.why = fmt.Sprintf("%s at original +%d targets %#x; its copy targets %#x (off by %d)", pc.kind, pc.posO, pc.tgtO, pc.tgtW, int64(pc.tgtW)-int64(pc.tgtO))
			return
		}
		if pc.widened {
			grown = true
		}
	}
	// rule 2b: nothing in the part of the function that stays behind may branch into the bytes that are overwritten
	// by the entry jump / whose copy now lives elsewhere (offset 0, the entry itself, is the mock and is fine)
	for pos := res.copied; pos < funcLen && pos < len(O); {
		i, err := x86.Decode(O[pos:min(pos+16, len(O))], 64)
		if err != nil {
			break
		}
		if i.PCRel != 0 && c03kind(i) != "RIPmem" {
			t := pos + i.Len + int(c03rel(O[pos+i.PCRelOff:pos+i.PCRelOff+i.PCRel], i.PCRel))
			if t > 0 && t < res.copied {
				res.key = "C03/branch-into-relocated-prefix"
				res.why = fmt.Sprintf("%s at original +%d branches to original +%d, inside the %d bytes that were relocated: the trampoline cannot be faithful, the apply should have been refused", c03kind(i), pos, t, res.copied)
				return
			}
		}
		pos += i.Len
	}
	// rule 4: inside the placeholder, rest untouched
	if res.written > len(P0) {
		res.key, res.why = "C03/placeholder-overrun", fmt.Sprintf("wrote %d bytes into a placeholder of %d", res.written, len(P0))
		return
	}
	if !bytes.Equal(W[res.written:len(P0)], P0[res.written:]) {
		res.key, res.why = "C03/placeholder-tail-changed", fmt.Sprintf("placeholder bytes beyond the %d written ones changed", res.written)
		return
	}
	return
}

func c03rel(b []byte, n int) int64 {
	switch n {
	case 1:
		return int64(int8(b[0]))
	case 2:
		return int64(int16(uint16(b[0]) | uint16(b[1])<<8))
	case 4:
		return int64(int32(uint32(b[0]) | uint32(b[1])<<8 | uint32(b[2])<<16 | uint32(b[3])<<24))
	}
	return 0
}

// c03Morestack: does the copied prefix contain a conditional branch into a
// block that calls runtime.morestack* and then jumps back to the entry?
func c03Morestack(E uintptr, O []byte, funcs []popFunc) bool {
	pos := 0
	for pos < 32 && pos < len(O) {
		i, err := x86.Decode(O[pos:min(pos+16, len(O))], 64)
		if err != nil {
			return false
		}
		if i.PCRel != 0 && c03kind(i) == "Jcc" {
			rel := c03rel(O[pos+i.PCRelOff:pos+i.PCRelOff+i.PCRel], i.PCRel)
			t := pos + i.Len + int(rel)
			if t > 0 && t < len(O) {
				// scan the block for CALL morestack ... JMP entry
				p := t
				sawCall := false
				for n := 0; n < 40 && p < len(O); n++ {
					j, err := x86.Decode(O[p:min(p+16, len(O))], 64)
					if err != nil {
						break
					}
					if j.Op == x86.CALL && j.PCRel == 4 {
						tgt := E + uintptr(p+j.Len) + uintptr(c03rel(O[p+j.PCRelOff:p+j.PCRelOff+4], 4))
						k := sort.Search(len(funcs), func(x int) bool { return funcs[x].Entry > tgt }) - 1
						if k >= 0 && strings.HasPrefix(funcs[k].Name, "runtime.morestack") {
							sawCall = true
						}
					}
					if j.Op == x86.JMP && j.PCRel != 0 {
						tgt := p + j.Len + int(c03rel(O[p+j.PCRelOff:p+j.PCRelOff+j.PCRel], j.PCRel))
						return sawCall && tgt == 0
					}
					p += j.Len
				}
			}
		}
		pos += i.Len
		if pos >= 13 {
			break
		}
	}
	return false
}

func TestC03Validator(t *testing.T) {
	rep := vmon.NewReport("C03")
	defer rep.Write()
	img := vmon.SnapshotText()
	funcs, err := popFuncs()
	if err != nil {
		rep.Inconclusive = "cannot enumerate functions: " + err.Error()
		return
	}
	type ph struct {
		name string
		fn   interface{}
		addr uintptr
		size int
		p0   []byte
	}
	phs := []*ph{{name: "early", fn: pha.Placeholder}, {name: "late", fn: c03PlaceholderLate}}
	for _, p := range phs {
		p.addr = vmon.FuncCodePtr(p.fn)
		k := sort.Search(len(funcs), func(x int) bool { return funcs[x].Entry > p.addr }) - 1
		if k < 0 || funcs[k].Entry != p.addr {
			rep.Inconclusive = "placeholder not found in pclntab"
			return
		}
		p.size = int(funcs[k].End - funcs[k].Entry)
		p.p0 = append([]byte{}, img.Pristine(p.addr, p.size)...)
		rep.Note("placeholder:"+p.name, fmt.Sprintf("%#x size %d", p.addr, p.size))
	}
	rep.Stat("population_functions", int64(len(funcs)))
	shapes := map[string]struct{}{}
	refusals := map[string]int{}
	var sampleDone int
	for fi, f := range funcs {
		isPh := false
		for _, p := range phs {
			if f.Entry == p.addr {
				isPh = true
			}
		}
		if isPh || f.End-f.Entry < 2 {
			continue
		}
		if strings.HasPrefix(f.Name, "_Z") || strings.HasPrefix(f.Name, "__") || strings.Contains(f.Name, "sanitizer") || strings.Contains(f.Name, "tsan") {
			// C/C++ code of the race-detector runtime linked into race builds: not emitted by the Go toolchain
			rep.Stat("skipped_non_go_functions", 1)
			continue
		}
		// a second trampoline for the same function at the other placeholder (what was computed for the first one is of
		// no use at another address): every third function in the quick tier, every function otherwise
		passes := 1
		if fi%3 == 0 || vmon.EnvInt("VERIF_C03_BOTH", 0) == 1 {
			passes = 2
		}
		for pass := 0; pass < passes; pass++ {
			if pass == 1 {
				rep.Stat("second_trampolines_at_the_other_placeholder", 1)
			}
			p := phs[(fi+pass)%2]
			funcLen := int(f.End - f.Entry)
			O := img.Pristine(f.Entry, min(funcLen+16, int(hiOf(img)-f.Entry)))
			if O == nil {
				continue
			}
			rep.Journal(map[string]interface{}{"part": "validator", "func": f.Name, "entry": f.Entry, "placeholder": p.name})
			var perr error
			func() {
				defer func() {
					if r := recover(); r != nil {
						perr = fmt.Errorf("panic: %v", r)
					}
				}()
				_, perr = PtrTrampoline(f.Entry, c03Repl, p.fn)
			}()
			if !patchesLock.TryLock() {
				rep.Violate("C03/lock-left-held", fmt.Sprintf("%s: patch lock still held after PtrTrampoline returned (%v)", f.Name, perr), nil)
				patchesLock.Unlock()
			} else {
				delete(patches, f.Entry)
				patchesLock.Unlock()
			}
			rep.Eval(1)
			W := vmon.ReadMem(p.addr, p.size)
			side := "ph-after-fn"
			if p.addr < f.Entry {
				side = "ph-before-fn"
			}
			// target untouched in any case (nothing was applied), nothing outside the placeholder touched
			if d := img.DiffOutside([]vmon.Range{{Start: p.addr, End: p.addr + uintptr(p.size)}}); len(d) != 0 {
				rep.Violate("C03/bytes-outside-placeholder-changed", fmt.Sprintf("%s: %v", f.Name, d), map[string]interface{}{"func": f.Name})
				for _, r := range d {
					memory.WriteTo(r.Start, img.Pristine(r.Start, int(r.End-r.Start)))
				}
			}
			if perr != nil {
				reason := perr.Error()
				switch {
				case strings.Contains(reason, "jump to inside"):
					reason = "jump-into-first-13-bytes"
				case strings.Contains(reason, "address overflow"):
					reason = "short-branch-not-widenable"
				case strings.Contains(reason, "bigger than"):
					reason = "too-short-or-placeholder-too-small"
				case strings.Contains(reason, "already patched"):
					reason = "starts-with-nop(already-patched heuristic)"
				default:
					if len(reason) > 60 {
						reason = reason[:60]
					}
				}
				refusals[reason]++
				if !bytes.Equal(W, p.p0) {
					rep.Violate("C03/refused-but-placeholder-modified", fmt.Sprintf("%s refused (%s) but the placeholder was written", f.Name, reason), map[string]interface{}{"func": f.Name})
					memory.WriteTo(p.addr, p.p0)
				}
				rep.Class("refused/" + reason)
				continue
			}
			res := c03Validate(f.Entry, O, funcLen, p.addr, W, p.p0)
			if res.why != "" {
				if res.key == "C03/no-oracle" {
					rep.Stat("no_oracle", 1)
				} else {
					rep.Violate(res.key, fmt.Sprintf("%s: %s", f.Name, res.why), map[string]interface{}{"func": f.Name, "entry": fmt.Sprintf("%#x", f.Entry), "placeholder": p.name,
						"original": fmt.Sprintf("% x", O[:min(40, len(O))]), "written": fmt.Sprintf("% x", W[:min(48, len(W))])})
				}
			} else {
				rep.Stat("trampolines_valid", 1)
				rep.Stat("instructions_validated", int64(res.insts))
				if _, ok := shapes[res.shape]; !ok {
					shapes[res.shape] = struct{}{}
					rep.Class("shape/" + res.shape)
				}
				for _, pc := range res.pcs {
					w := ""
					if pc.widened {
						w = "/widened"
					}
					in := "/external"
					if pc.tgtO >= f.Entry && pc.tgtO < f.Entry+uintptr(res.copied) {
						in = "/internal"
					}
					rep.Stat("pcrel:"+pc.kind+w+in, 1)
				}
				if c03Morestack(f.Entry, O, funcs) {
					rep.Stat("trampolines_with_morestack_reentry_precondition", 1)
				}
				rep.Stat("valid:"+side, 1)
				if sampleDone < 3 && len(res.pcs) > 0 {
					sampleDone++
					rep.Sample(map[string]interface{}{"func": f.Name, "placeholder": p.name, "copied_bytes": res.copied, "written_bytes": res.written, "prefix": res.shape,
						"original": fmt.Sprintf("% x", O[:res.copied]), "trampoline": fmt.Sprintf("% x", W[:res.written])})
				}
			}
			memory.WriteTo(p.addr, p.p0)
		}
	}
	for k, v := range refusals {
		rep.Stat("refused:"+k, int64(v))
	}
	rep.Stat("distinct_prefix_shapes", int64(len(shapes)))
	if d := img.Diff(); len(d) != 0 {
		rep.Violate("C03/image-differs-at-end", fmt.Sprintf("%v", d), nil)
	}
}

func hiOf(img *vmon.TextImage) uintptr { _, hi := img.Bounds(); return hi }
