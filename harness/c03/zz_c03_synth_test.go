//go:build go1.21

package patch

// Synthetic zoo: byte-exact prologue shapes written into a harness mapping and EXECUTED through forged func
// values, before mocking (expected values), mocked with an origin placeholder (callback = 3*origin+1, counted),
// and after unpatching.  One shape per child process: a wrong trampoline usually means SIGSEGV/SIGTRAP.

import (
	"bytes"
	"fmt"
	"os"
	"strconv"
	"strings"
	"syscall"
	"testing"
	"unsafe"

	"github.com/tencent/goom/zzverif/vmon"
)

type asm struct {
	b      []byte
	labels map[string]int
	fix    []asmFix
}
type asmFix struct {
	at, size int // position of the displacement, its size (1 or 4)
	end      int // offset the displacement is relative to (end of instruction)
	label    string
}

func newAsm() *asm { return &asm{labels: map[string]int{}} }

func (a *asm) raw(bs ...byte) *asm { a.b = append(a.b, bs...); return a }
func (a *asm) label(n string) *asm { a.labels[n] = len(a.b); return a }

// rel8 emits opcode + 1-byte displacement to label
func (a *asm) rel8(op byte, l string) *asm {
	a.b = append(a.b, op, 0)
	a.fix = append(a.fix, asmFix{len(a.b) - 1, 1, len(a.b), l})
	return a
}

// rel32 emits opcode bytes + 4-byte displacement to label, followed by tail bytes (e.g. an immediate)
func (a *asm) rel32(op []byte, l string, tail ...byte) *asm {
	a.b = append(a.b, op...)
	a.b = append(a.b, 0, 0, 0, 0)
	at := len(a.b) - 4
	a.b = append(a.b, tail...)
	a.fix = append(a.fix, asmFix{at, 4, len(a.b), l})
	return a
}

func (a *asm) link() []byte {
	for _, f := range a.fix {
		t, ok := a.labels[f.label]
		if !ok {
			panic("undefined label " + f.label)
		}
		d := t - f.end
		if f.size == 1 {
			if d < -128 || d > 127 {
				panic("rel8 out of range")
			}
			a.b[f.at] = byte(int8(d))
		} else {
			a.b[f.at], a.b[f.at+1], a.b[f.at+2], a.b[f.at+3] = byte(d), byte(d>>8), byte(d>>16), byte(d>>24)
		}
	}
	return a.b
}

type synthShape struct {
	name        string
	build       func() *asm // code starts at offset 0; labels "flag"/"data"/"data2" are data bytes inside the blob
	dataStates  [][]byte    // values written at label "flag" (1 byte each state); nil = one state
	mayRefuse   bool        // a refusal is an allowed outcome
	mustRefuse  bool
	description string
}

func synthShapes() []synthShape {
	ret := byte(0xC3)
	data := func(a *asm) *asm {
		// int3 run, then the fingerprint goom's extent scan stops at, then data
		a.raw(0xCC, 0xCC, 0xCC, 0xCC, 0xCC, 0xCC, 0xCC, 0xCC)
		a.raw(0x65, 0x48, 0x8b, 0x0c, 0x25, 0x30, 0x00, 0x00, 0x00, 0x48, 0x90, 0x90)
		a.label("flag").raw(0)
		a.raw(0, 0, 0, 0, 0, 0, 0)
		a.label("data").raw(0x11, 0x01, 0, 0, 0, 0, 0, 0)  // 0x111
		a.label("data2").raw(0x22, 0x02, 0, 0, 0, 0, 0, 0) // 0x222
		return a
	}
	return []synthShape{
		{name: "riprel-cmp-imm8 then je", dataStates: [][]byte{{0}, {1}}, description: "80 3D d32 imm8 first, short JE (widened), ADD, RET",
			build: func() *asm {
				a := newAsm()
				a.rel32([]byte{0x80, 0x3D}, "flag", 0x00) // cmp byte [rip+flag], 0
				a.rel8(0x74, "L0")                        // je L0
				a.raw(0x48, 0x83, 0xC0, 0x64, ret)        // add rax,100; ret
				a.label("L0").raw(0x48, 0x8D, 0x44, 0x00, 0x05, ret)
				return data(a)
			}},
		{name: "riprel-cmp-imm32", dataStates: [][]byte{{0x11}, {0x12}}, description: "81 3D d32 imm32 (dword compare with a 4-byte immediate after the displacement)",
			build: func() *asm {
				a := newAsm()
				a.rel32([]byte{0x81, 0x3D}, "data", 0x11, 0x01, 0x00, 0x00) // cmp dword [rip+data], 0x111
				a.rel8(0x74, "L0")
				a.raw(0x48, 0x83, 0xC0, 0x07, ret)
				a.label("L0").raw(0x48, 0x83, 0xC0, 0x09, ret)
				return data(a)
			}},
		{name: "two short branches", description: "two rel8 Jcc inside the first 13 bytes (the second must account for the growth of the first)",
			build: func() *asm {
				a := newAsm()
				a.raw(0x48, 0x85, 0xC0)            // test rax,rax
				a.rel8(0x74, "L0")                 // je L0
				a.raw(0x48, 0x83, 0xF8, 0x0A)      // cmp rax,10
				a.rel8(0x7F, "L1")                 // jg L1
				a.raw(0x48, 0xFF, 0xC0, ret)       // inc rax; ret
				a.label("L0").raw(0xB8, 0x4D, 0x01, 0x00, 0x00, ret)
				a.label("L1").raw(0x48, 0x8D, 0x04, 0x40, ret) // lea rax,[rax+rax*2]
				return data(a)
			}},
		{name: "short branch then call", description: "rel8 JE (widened) followed by CALL rel32 and LEA [rip+d] inside the prefix",
			build: func() *asm {
				a := newAsm()
				a.raw(0x48, 0x85, 0xC0)
				a.rel8(0x74, "L0")
				a.rel32([]byte{0xE8}, "H")                  // call H
				a.rel32([]byte{0x48, 0x8D, 0x15}, "data")   // lea rdx,[rip+data]
				a.raw(0x48, 0x03, 0x02, ret)                // add rax,[rdx]; ret
				a.label("L0").raw(0xB8, 0x2A, 0, 0, 0, ret) // mov eax,42
				a.label("H").raw(0x48, 0x83, 0xC0, 0x07, ret)
				return data(a)
			}},
		{name: "jne outside widening table", mayRefuse: true, description: "rel8 JNE: refusal (address overflow) or a correct trampoline are both fine",
			build: func() *asm {
				a := newAsm()
				a.raw(0x48, 0x83, 0xF8, 0x05) // cmp rax,5
				a.rel8(0x75, "L0")            // jne L0
				a.raw(0xB8, 0x37, 0x02, 0, 0, ret, 0x90, 0x90, 0x90, 0x90)
				a.label("L0").raw(0x48, 0x83, 0xC0, 0x03, ret)
				return data(a)
			}},
		{name: "jmp rel32 first", description: "E9 first, dead NOPs up to byte 13",
			build: func() *asm {
				a := newAsm()
				a.rel32([]byte{0xE9}, "L0")
				a.raw(0x90, 0x90, 0x90, 0x90, 0x90, 0x90, 0x90, 0x90, 0x90, 0x90, 0x90)
				a.label("L0").raw(0x48, 0x8D, 0x04, 0x40, ret)
				return data(a)
			}},
		{name: "call rel32 first", description: "E8 first, then two ADDs",
			build: func() *asm {
				a := newAsm()
				a.rel32([]byte{0xE8}, "H")
				a.raw(0x48, 0x83, 0xC0, 0x01, 0x48, 0x83, 0xC0, 0x02, ret, 0x90)
				a.label("H").raw(0x48, 0x83, 0xC0, 0x07, ret)
				return data(a)
			}},
		{name: "mov and lea riprel", description: "MOV rcx,[rip+d]; LEA rdx,[rip+d2]; ADD; ADD; RET",
			build: func() *asm {
				a := newAsm()
				a.rel32([]byte{0x48, 0x8B, 0x0D}, "data")
				a.rel32([]byte{0x48, 0x8D, 0x15}, "data2")
				a.raw(0x48, 0x01, 0xC8, 0x48, 0x03, 0x02, ret)
				return data(a)
			}},
		{name: "recursive call to own entry", description: "TEST; JE (widened); DEC; CALL entry inside the prefix",
			build: func() *asm {
				a := newAsm()
				a.label("E").raw(0x48, 0x85, 0xC0)
				a.rel8(0x74, "L0")
				a.raw(0x48, 0xFF, 0xC8)
				a.rel32([]byte{0xE8}, "E")
				a.raw(0x48, 0x83, 0xC0, 0x02, ret)
				a.label("L0").raw(0xB8, 0x2A, 0, 0, 0, ret)
				return data(a)
			}},
		{name: "loop at entry", description: "loop whose head is the entry and fits in 13 bytes (SUB; TEST; JG entry; RET)",
			build: func() *asm {
				a := newAsm()
				a.label("E").raw(0x48, 0x83, 0xC0, 0xFD) // add rax,-3
				a.raw(0x48, 0x85, 0xC0)                  // test rax,rax
				a.rel8(0x7F, "E")                        // jg E
				a.raw(ret, 0x90, 0x90, 0x90, 0x90, 0x90, 0x90)
				return data(a)
			}},
		{name: "shorter than the jump, followed by a function", mustRefuse: true, description: "8-byte function directly followed by another function",
			build: func() *asm {
				a := newAsm()
				a.raw(0x48, 0x8D, 0x44, 0x00, 0x01, ret, 0x90, 0x90)
				// next function: fingerprint first
				a.raw(0x65, 0x48, 0x8b, 0x0c, 0x25, 0x30, 0x00, 0x00, 0x00, 0x48, 0x90, 0x90, ret)
				a.label("flag").raw(0, 0, 0, 0, 0, 0, 0, 0)
				a.label("data").raw(0, 0, 0, 0, 0, 0, 0, 0)
				a.label("data2").raw(0, 0, 0, 0, 0, 0, 0, 0)
				return a
			}},
	}
}

//go:nocheckptr
func synthCall(addr uintptr, a int) int {
	fv := &struct{ pc uintptr }{addr}
	f := *(*func(int) int)(unsafe.Pointer(&fv))
	return f(a)
}

// TestC03Synth runs ONE shape (VERIF_C03_SHAPE = index, VERIF_C03_PHSIDE = before|after).
func TestC03Synth(t *testing.T) {
	rep := vmon.NewReport("C03")
	defer rep.Write()
	shapes := synthShapes()
	if os.Getenv("VERIF_C03_SHAPE") == "count" {
		rep.Stat("max:synthetic_shapes", int64(len(shapes)))
		rep.Eval(1)
		rep.Class("synth/count")
		rep.Class("synth/count2")
		return
	}
	idx, _ := strconv.Atoi(os.Getenv("VERIF_C03_SHAPE"))
	side := os.Getenv("VERIF_C03_PHSIDE")
	if idx < 0 || idx >= len(shapes) {
		rep.Inconclusive = "bad shape index"
		return
	}
	sh := shapes[idx]
	img := vmon.SnapshotText()
	mem, err := syscall.Mmap(-1, 0, 3*4096, syscall.PROT_READ|syscall.PROT_WRITE|syscall.PROT_EXEC, syscall.MAP_PRIVATE|syscall.MAP_ANON)
	if err != nil {
		rep.Inconclusive = "mmap: " + err.Error()
		return
	}
	base := uintptr(unsafe.Pointer(&mem[0]))
	for i := range mem {
		mem[i] = 0xCC
	}
	// layout: placeholder (240 NOPs + RET, then int3s and a fingerprint) and the function blob, in either order
	// "before"/"after" put a 240-byte placeholder about 1 KiB away; "before:N"/"after:N" put a 72-byte placeholder N
	// bytes in front of / behind the entry, so that re-based rel8 displacements fall on either side of the signed-byte
	// limits (the widening decision)
	phOff, fnOff, phLen := 64, 1024, 240
	a := sh.build()
	code := a.link()
	if side == "after" {
		phOff, fnOff = 2048, 1024
	} else if strings.HasPrefix(side, "small:") {
		// a far placeholder of only L bytes: the relocated prefix plus its jump back fits exactly, barely, or not at all
		n, _ := strconv.Atoi(side[6:])
		phLen = n
		if n < 8 || n > 200 {
			rep.Inconclusive = "bad placement " + side
			return
		}
	} else if strings.HasPrefix(side, "before:") {
		n, _ := strconv.Atoi(side[7:])
		phLen, phOff = 72, fnOff-n
		if n < 96 {
			rep.Inconclusive = "bad placement " + side
			return
		}
	} else if strings.HasPrefix(side, "after:") {
		n, _ := strconv.Atoi(side[6:])
		phLen, phOff = 72, fnOff+n
		if n < len(code)+8 {
			// the blob itself is longer than this distance: placement impossible, nothing to decide
			rep.Eval(1)
			rep.Class("synth/placement-skipped")
			rep.Class("synth/placement-skipped2")
			rep.Stat("synthetic_placements_skipped", 1)
			return
		}
	}
	// goom's extent scanner counts the padding behind a function (up to the next function's first byte) as part of
	// it; no function owns those bytes, so a trampoline may reach into them: the placeholder's extent is its NOPs,
	// its RET and the 8 padding bytes in front of the next function (the fingerprint written below)
	phExtent := phLen + 9
	for i := 0; i < phLen; i++ {
		mem[phOff+i] = 0x90
	}
	mem[phOff+phLen] = 0xC3
	copy(mem[phOff+phLen+9:], []byte{0x65, 0x48, 0x8b, 0x0c, 0x25, 0x30, 0x00, 0x00, 0x00, 0x48})
	copy(mem[fnOff:], code)
	entry, ph := base+uintptr(fnOff), base+uintptr(phOff)
	flagOff := fnOff + a.labels["flag"]
	states := sh.dataStates
	if states == nil {
		states = [][]byte{nil}
	}
	args := []int{0, 1, 4, 5, 10, 11, 31, 100}
	c := map[string]interface{}{"shape": sh.name, "placeholder": side, "bytes": fmt.Sprintf("% x", code[:min(len(code), 32)]), "what": sh.description}
	rep.Journal(map[string]interface{}{"part": "synthetic", "shape": sh.name, "placeholder": side, "crashkey": "C03/synthetic-zoo-crash"})
	rep.JournalSync()
	setState := func(st []byte) {
		if st != nil {
			syscall.Mprotect(mem[(flagOff/4096)*4096:(flagOff/4096+1)*4096], syscall.PROT_READ|syscall.PROT_WRITE|syscall.PROT_EXEC)
			copy(mem[flagOff:], st)
		}
	}
	expected := map[string]int{}
	for si, st := range states {
		setState(st)
		for _, x := range args {
			expected[fmt.Sprint(si, ":", x)] = synthCall(entry, x)
		}
	}
	before := append([]byte{}, mem...)
	var cnt int
	fvp := &struct{ pc uintptr }{ph}
	origin := *(*func(int) int)(unsafe.Pointer(&fvp))
	repl := func(x int) int { cnt++; return origin(x)*3 + 1 }
	var g *Guard
	var perr error
	func() {
		defer func() {
			if r := recover(); r != nil {
				perr = fmt.Errorf("panic: %v", r)
			}
		}()
		g, perr = PtrTrampoline(entry, repl, origin)
	}()
	rep.Eval(1)
	if perr != nil {
		rep.Class("synth/" + sh.name + "/refused")
		rep.Stat("synthetic_refused", 1)
		if !sh.mayRefuse && !sh.mustRefuse {
			rep.Stat("synthetic_refused_unexpectedly", 1)
			rep.Note("refused:"+sh.name+"/"+side, perr.Error())
		}
		if !bytes.Equal(mem, before) {
			rep.Violate("C03/refused-but-modified", fmt.Sprintf("synthetic shape %q refused (%v) but function or placeholder bytes changed", sh.name, perr), c)
		}
		for si, st := range states {
			setState(st)
			for _, x := range args {
				if got := synthCall(entry, x); got != expected[fmt.Sprint(si, ":", x)] {
					rep.Violate("C03/refused-but-behaviour-changed", fmt.Sprintf("synthetic shape %q: f(%d) = %d after the refused apply, before %d", sh.name, x, got, expected[fmt.Sprint(si, ":", x)]), c)
				}
			}
		}
		return
	}
	if sh.mustRefuse {
		rep.Violate("C03/unfaithful-trampoline-accepted", fmt.Sprintf("synthetic shape %q must be refused but a trampoline was built", sh.name), c)
		return
	}
	// nothing but the placeholder may have been written so far
	for i := range mem {
		if mem[i] != before[i] && (i < phOff || i >= phOff+phExtent) {
			rep.Violate("C03/bytes-outside-placeholder-changed", fmt.Sprintf("synthetic shape %q: byte at mapping offset %d changed before Apply", sh.name, i), c)
			break
		}
	}
	c["trampoline"] = fmt.Sprintf("% x", mem[phOff:phOff+40])
	g.Apply()
	for si, st := range states {
		setState(st)
		for _, x := range args {
			cnt = 0
			rep.Journal(map[string]interface{}{"part": "synthetic-call", "shape": sh.name, "placeholder": side, "arg": x, "state": si, "crashkey": "C03/synthetic-zoo-crash"})
			got := synthCall(entry, x)
			rep.Eval(1)
			want := expected[fmt.Sprint(si, ":", x)]*3 + 1
			if got != want || cnt != 1 {
				rep.Violate("C03/origin-wrong-result", fmt.Sprintf("synthetic shape %q (placeholder %s, state %d): mocked f(%d) = %d with %d callback run(s), want %d = 3*original+1 with exactly 1", sh.name, side, si, x, got, cnt, want), c)
				break
			}
		}
	}
	g.UnpatchWithLock()
	for i := range mem {
		if mem[i] != before[i] && (i < phOff || i >= phOff+phExtent) && !(i >= flagOff && i < flagOff+8) {
			rep.Violate("C03/not-restored", fmt.Sprintf("synthetic shape %q: byte at mapping offset %d differs after unpatch", sh.name, i), c)
			break
		}
	}
	for si, st := range states {
		setState(st)
		for _, x := range args {
			if got := synthCall(entry, x); got != expected[fmt.Sprint(si, ":", x)] {
				rep.Violate("C03/not-original-after-reset", fmt.Sprintf("synthetic shape %q: f(%d) = %d after unpatch, want %d", sh.name, x, got, expected[fmt.Sprint(si, ":", x)]), c)
			}
		}
	}
	if d := img.Diff(); len(d) != 0 {
		rep.Violate("C03/image-differs-at-end", fmt.Sprintf("%v", d), c)
	}
	rep.Class("synth/" + sh.name + "/" + side)
	rep.Stat("synthetic_shapes_executed", 1)
	rep.Sample(c)
}
