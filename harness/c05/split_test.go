//go:build go1.21

package c05

import (
	"fmt"
	"testing"

	mocker "github.com/tencent/goom"
	"github.com/tencent/goom/zzverif/vmon"
)

// TestC05Split: (1) one sequence given in two statements (the second through a fresh lookup of the same target) with
// calls in between: the k-th call still receives the k-th element of the whole; (2) sequences whose elements are
// interface-typed results (distinct error objects, distinct boxed values): every position delivers its own object,
// also when two stubs and two functions are served in turn.
func TestC05Split(t *testing.T) {
	rep := vmon.NewReport("C05")
	defer rep.Write()
	rng := vmon.NewRng(vmon.Seed(), 555)
	n := vmon.EnvInt("VERIF_C05_SPLIT", 120)
	forms := []string{"func", "method", "iface"}
	for c := 0; c < n; c++ {
		form := forms[c%len(forms)]
		L := 2 + rng.Intn(7)
		s := 1 + rng.Intn(L-1)
		// fewer calls than elements given so far: the cursor has not reached the last known element when the second
		// statement arrives (what an extension does to a cursor that already sticks is not settled by the statement)
		between := rng.Intn(s)
		var iv I
		b := mocker.Create()
		lookup := func() mocker.ExportedMocker {
			switch form {
			case "func":
				return b.Func(S1)
			case "method":
				return b.Struct(&T{}).Method("M")
			}
			return b.Interface(&iv).Method("Get").As(func(ctx *mocker.IContext, a int) int { return 0 })
		}
		call := func() int {
			switch form {
			case "func":
				return S1(7)
			case "method":
				return recvT.M(7)
			}
			return iv.Get(7)
		}
		vals := make([]interface{}, L)
		for p := range vals {
			vals[p] = val(-1, p)
		}
		desc := fmt.Sprintf("%s: Returns(first %d of %d), %d calls, Returns(the other %d) through a fresh lookup", form, s, L, between, L-s)
		rep.Journal(map[string]interface{}{"part": "split", "desc": desc})
		var perr interface{}
		var got []int
		func() {
			defer func() { perr = recover() }()
			lookup().Returns(vals[:s]...)
			for i := 0; i < between; i++ {
				got = append(got, call())
			}
			lookup().Returns(vals[s:]...)
			for i := between; i < L+3; i++ {
				got = append(got, call())
			}
		}()
		rep.Eval(int64(len(got)))
		if perr != nil {
			rep.Violate("C05/split-sequence", fmt.Sprintf("%s panicked: %v", desc, perr), nil)
		} else {
			for i, g := range got {
				want := i
				if want >= L {
					want = L - 1
				}
				if g != val(-1, want) {
					rep.Violate("C05/split-sequence", fmt.Sprintf("%s: call %d returned %d, want element %d (%d); all results %v", desc, i+1, g, want, val(-1, want), got), nil)
					break
				}
			}
		}
		b.Reset()
		rep.Class(fmt.Sprintf("split/%s/calls-between:%v", form, between > 0))
	}
	// interface-typed result positions
	for c := 0; c < n/2; c++ {
		L := 2 + rng.Intn(6)
		b := mocker.Create()
		errs := make([]*SeqErr, L)
		boxes := make([]interface{}, L)
		var w *mocker.When
		for p := 0; p < L; p++ {
			errs[p] = &SeqErr{pos: p}
			switch p % 3 {
			case 0:
				boxes[p] = &SeqErr{pos: 100 + p}
			case 1:
				boxes[p] = fmt.Sprintf("box%d", p)
			default:
				boxes[p] = p
			}
			var e interface{} = errs[p]
			if p == L-1 && c%2 == 0 {
				e = nil // the last element of a retry sequence is often "no error"
			}
			if w == nil {
				w = b.Func(S4).Return(val(-1, p), e)
			} else {
				w = w.AndReturn(val(-1, p), e)
			}
		}
		b.Func(S5).Returns(boxes...)
		condErr := &SeqErr{pos: 999}
		w.When(77).Return(77, condErr)
		desc := fmt.Sprintf("S4 (int, error) sequence of %d distinct error objects, S5 interface{} sequence, one condition with its own error", L)
		var perr interface{}
		func() {
			defer func() { perr = recover() }()
			for p := 0; p < L+2; p++ {
				q := p
				if q >= L {
					q = L - 1
				}
				v, e := S4(1)
				bx := S5(1)
				cv, ce := S4(77)
				rep.Eval(3)
				var wantE error = errs[q]
				if q == L-1 && c%2 == 0 {
					wantE = nil
				}
				if v != val(-1, q) || e != wantE {
					rep.Violate("C05/sequential-wrong-element", fmt.Sprintf("%s: call %d returned (%d, %v), want (%d, %v): the error object of another position", desc, p+1, v, e, val(-1, q), wantE), nil)
					return
				}
				if bx != boxes[q] {
					rep.Violate("C05/sequential-wrong-element", fmt.Sprintf("%s: S5 call %d returned %#v, want %#v", desc, p+1, bx, boxes[q]), nil)
					return
				}
				if cv != 77 || ce != error(condErr) {
					rep.Violate("C05/sequential-wrong-element", fmt.Sprintf("%s: condition call %d returned (%d, %v), want (77, the condition's own error)", desc, p+1, cv, ce), nil)
					return
				}
			}
		}()
		if perr != nil {
			rep.Violate("C05/configuration-rejected", fmt.Sprintf("%s panicked: %v", desc, perr), nil)
		}
		b.Reset()
		rep.Class(fmt.Sprintf("iface-results/len%d", L))
	}
}
