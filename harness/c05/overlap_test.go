//go:build go1.21

package c05

import (
	"fmt"
	"testing"

	mocker "github.com/tencent/goom"
	"github.com/tencent/goom/arg"
	"github.com/tencent/goom/zzverif/vmon"
)

//go:noinline
func S6(a, b int) int { return -7000 - a - b + pad*3 }

// TestC05Overlap: conditions that accept some of the same calls, each with its own sequence. Which stub a call selects
// is decided by the call alone (the first-registered condition that accepts it, else the default) - not by what earlier
// calls selected - and each sequence is advanced by exactly the calls that selected it. Checked against a reference that
// keeps one cursor per stub, over random call orders.
func TestC05Overlap(t *testing.T) {
	rep := vmon.NewReport("C05")
	defer rep.Write()
	rng := vmon.NewRng(vmon.Seed(), 556)
	n := vmon.EnvInt("VERIF_C05_OVERLAP", 300)
	type cond struct {
		desc   string
		accept func(a, b int) bool
		args   []interface{}
		in     [][]interface{}
	}
	pool := []cond{
		{desc: "When(1, Any)", accept: func(a, b int) bool { return a == 1 }, args: []interface{}{1, arg.Any()}},
		{desc: "When(Any, 2)", accept: func(a, b int) bool { return b == 2 }, args: []interface{}{arg.Any(), 2}},
		{desc: "When(1, 2)", accept: func(a, b int) bool { return a == 1 && b == 2 }, args: []interface{}{1, 2}},
		{desc: "When(Any, Any)", accept: func(a, b int) bool { return true }, args: []interface{}{arg.Any(), arg.Any()}},
		{desc: "When(3, In(2,4))", accept: func(a, b int) bool { return a == 3 && (b == 2 || b == 4) }, args: []interface{}{3, arg.In(2, 4)}},
		{desc: "In({1,4},{3,2})", accept: func(a, b int) bool { return (a == 1 && b == 4) || (a == 3 && b == 2) }, in: [][]interface{}{{1, 4}, {3, 2}}},
	}
	for c := 0; c < n; c++ {
		nc := 2 + rng.Intn(3)
		perm := make([]int, len(pool))
		for i := range perm {
			perm[i] = i
		}
		for i := len(perm) - 1; i > 0; i-- {
			j := rng.Intn(i + 1)
			perm[i], perm[j] = perm[j], perm[i]
		}
		perm = perm[:nc]
		lens := make([]int, nc+1) // the last one is the default's
		for i := range lens {
			lens[i] = 1 + rng.Intn(4)
		}
		val := func(stub, pos int) int { return (stub+1)*1000 + pos }
		seq := func(stub int) []interface{} {
			out := make([]interface{}, lens[stub])
			for p := range out {
				out[p] = val(stub, p)
			}
			return out
		}
		b := mocker.Create()
		desc := ""
		var perr interface{}
		func() {
			defer func() { perr = recover() }()
			w := b.Func(S6).Returns(seq(nc)...)
			for i, pi := range perm {
				cd := pool[pi]
				desc += cd.desc + "; "
				if cd.in != nil {
					ins := make([]interface{}, len(cd.in))
					for k, x := range cd.in {
						ins[k] = x
					}
					w = w.In(ins...).Returns(seq(i)...)
				} else {
					w = w.When(cd.args...).Returns(seq(i)...)
				}
			}
		}()
		rep.Eval(1)
		if perr != nil {
			rep.Violate("C05/configuration-rejected", fmt.Sprintf("overlapping conditions [%s] rejected: %v", desc, perr), nil)
			func() { defer func() { recover() }(); b.Reset() }()
			continue
		}
		cursor := make([]int, nc+1)
		calls := 6 + rng.Intn(14)
		hist := ""
		selected := map[int]bool{}
		for k := 0; k < calls; k++ {
			a, bb := []int{1, 3}[rng.Intn(2)], []int{2, 4}[rng.Intn(2)]
			stub := nc
			for i, pi := range perm {
				if pool[pi].accept(a, bb) {
					stub = i
					break
				}
			}
			pos := cursor[stub]
			if pos >= lens[stub] {
				pos = lens[stub] - 1
			}
			cursor[stub]++
			selected[stub] = true
			got := S6(a, bb)
			hist += fmt.Sprintf("S6(%d,%d)=%d ", a, bb, got)
			rep.Eval(1)
			if got != val(stub, pos) {
				rep.Violate("C05/overlapping-conditions-out-of-step", fmt.Sprintf("conditions in registration order [%s] default last, sequence lengths %v: call %d selects stub %d and is its call number %d, expected %d; history: %s", desc, lens, k+1, stub, cursor[stub], val(stub, pos), hist),
					map[string]interface{}{"conditions": desc, "lens": lens, "history": hist})
				break
			}
		}
		b.Reset()
		rep.Class(fmt.Sprintf("overlap/conditions=%d/stubs-selected=%d", nc, len(selected)))
		if c == 0 {
			rep.Sample(map[string]interface{}{"overlap_conditions": desc, "history": hist})
		}
	}
	// a stub without a default: a call no condition accepts panics (C04) - and leaves the sequences where they were: the
	// calls after it receive the next elements
	for _, form := range []string{"func", "method"} {
		b := mocker.Create()
		var call func(a int) int
		if form == "func" {
			b.Func(S1).When(1).Returns(10, 11, 12).When(2).Returns(20, 21)
			call = S1
		} else {
			b.Struct(&T{}).Method("M").When(1).Returns(10, 11, 12).When(2).Returns(20, 21)
			call = (&T{}).M
		}
		rep.Journal(map[string]interface{}{"part": "uncovered call between covered ones", "form": form, "crashkey": "C05/calls-after-an-uncovered-call-never-return"})
		var got []int
		for _, a := range []int{1, 3, 1, 2, 3, 3, 1, 2, 1, 2} {
			func() {
				defer func() {
					if r := recover(); r != nil {
						got = append(got, -1)
					}
				}()
				got = append(got, call(a))
			}()
		}
		b.Reset()
		rep.Eval(10)
		rep.Class("uncovered-call-between-covered-ones/" + form)
		if want := []int{10, -1, 11, 20, -1, -1, 12, 21, 12, 21}; fmt.Sprint(got) != fmt.Sprint(want) {
			rep.Violate("C05/sequence-disturbed-by-an-uncovered-call", fmt.Sprintf("%s: When(1).Returns(10,11,12), When(2).Returns(20,21), no default; calls 1,3,1,2,3,3,1,2,1,2 give %v (-1: panicked), want %v", form, got, want), nil)
		}
	}
	rep.Stat("overlap_histories", int64(n))
}
