//go:build go1.21

package c05

// pad keeps the hot-loop targets longer than goom's 13-byte entry jump (a tiny function whose jump overhangs
// into padding can crash the runtime unwinder when a signal lands on the jump: recorded under C11)
var pad int

//go:noinline
func S1(a int) int { return -1000 - a + pad*3 }

//go:noinline
func S2(a int) int { return -2000 - a + pad*3 }

//go:noinline
func S3(a int, s string) (int, string) { return -3000 - a + pad*3, s }

type T struct{ v int }

//go:noinline
func (t *T) M(a int) int { return -4000 - a - t.v + pad*3 }

type I interface {
	Get(a int) int
	other()
}

//go:noinline
func S4(a int) (int, error) { return -5000 - a + pad*3, nil }

//go:noinline
func S5(a int) interface{} { return nil }

type SeqErr struct{ pos int }

func (e *SeqErr) Error() string { return "seq" }

//go:noinline
func SV(a int, xs ...int) int { return -6000 - a - len(xs) + pad*3 }
