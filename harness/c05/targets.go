//go:build go1.21

package c05

//go:noinline
func S1(a int) int { return -1000 - a }

//go:noinline
func S2(a int) int { return -2000 - a }

//go:noinline
func S3(a int, s string) (int, string) { return -3000 - a, s }

type T struct{ v int }

//go:noinline
func (t *T) M(a int) int { return -4000 - a - t.v }

type I interface {
	Get(a int) int
	other()
}
