//go:build go1.21

package c05

import (
	"fmt"
	"os"
	"runtime"
	"sort"
	"sync"
	"testing"
	"time"

	"github.com/anishathalye/porcupine"
	mocker "github.com/tencent/goom"
	"github.com/tencent/goom/zzverif/vmon"
)

// a stub "key" is the default (key -1) or condition number i (argument value 100+i)
type seqCfg struct {
	form    string // func | method | iface | func2
	lens    map[int]int
	andForm map[int]bool // Return+AndReturn (true) or Returns (false)
}

// dup: in the sequential test neighbouring results may be EQUAL (a retry stub returns the same error twice): position
// p of stub key serves value (key, p - dupShift(p)), so runs of two or three equal values occur.
var dupOn bool

func val(key, pos int) int {
	if dupOn {
		pos = pos - (pos+key+1)%3%2 - (pos/4)%2 // deterministic, non-decreasing, with repeats
		if pos < 0 {
			pos = 0
		}
	}
	return (key+2)*100000 + pos
}

// install configures the stub and returns a caller: call(key) -> value
func install(b *mocker.Builder, cfg seqCfg, iv *I) func(key int) int {
	keys := []int{}
	for k := range cfg.lens {
		if k >= 0 {
			keys = append(keys, k)
		}
	}
	sort.Ints(keys)
	vals := func(key int) []interface{} {
		out := make([]interface{}, cfg.lens[key])
		for p := range out {
			out[p] = val(key, p)
		}
		return out
	}
	vals2 := func(key int) []interface{} {
		out := make([]interface{}, cfg.lens[key])
		for p := range out {
			out[p] = []interface{}{val(key, p), "x"}
		}
		return out
	}
	var w *mocker.When
	chain := func(first func(v ...interface{}) *mocker.When, key int, two bool) *mocker.When {
		vs := vals(key)
		var x *mocker.When
		if two {
			x = first(val(key, 0), "x")
			for _, v := range vs[1:] {
				x = x.AndReturn(v, "x")
			}
			return x
		}
		x = first(vs[0])
		for _, v := range vs[1:] {
			x = x.AndReturn(v)
		}
		return x
	}
	whenArgs := func(k int) []interface{} {
		if cfg.form == "funcv" {
			return []interface{}{100 + k, 1, 2} // fixed parameter and two variadic elements
		}
		return []interface{}{100 + k}
	}
	switch cfg.form {
	case "func", "method", "iface", "funcv":
		var m mocker.ExportedMocker
		switch cfg.form {
		case "funcv":
			m = b.Func(SV)
		case "func":
			m = b.Func(S1)
		case "method":
			m = b.Struct(&T{}).Method("M")
		case "iface":
			m = b.Interface(iv).Method("Get").As(func(ctx *mocker.IContext, a int) int { return 0 })
		}
		if _, ok := cfg.lens[-1]; ok {
			if cfg.andForm[-1] {
				w = chain(m.Return, -1, false)
			} else {
				w = m.Returns(vals(-1)...)
			}
		}
		for _, k := range keys {
			if w == nil {
				w = m.When(whenArgs(k)...)
			} else {
				w = w.When(whenArgs(k)...)
			}
			if cfg.andForm[k] {
				w = chain(w.Return, k, false)
			} else {
				w = w.Returns(vals(k)...)
			}
		}
	case "func2":
		m := b.Func(S3)
		if _, ok := cfg.lens[-1]; ok {
			if cfg.andForm[-1] {
				w = chain(m.Return, -1, true)
			} else {
				w = m.Returns(vals2(-1)...)
			}
		}
		for _, k := range keys {
			if w == nil {
				w = m.When(100+k, "q")
			} else {
				w = w.When(100+k, "q")
			}
			if cfg.andForm[k] {
				w = chain(w.Return, k, true)
			} else {
				w = w.Returns(vals2(k)...)
			}
		}
	}
	return func(key int) int {
		arg := 7 // selects the default
		if key >= 0 {
			arg = 100 + key
		}
		switch cfg.form {
		case "funcv":
			if key >= 0 {
				return SV(arg, 1, 2)
			}
			return SV(arg, 3)
		case "func":
			return S1(arg)
		case "method":
			return recvT.M(arg)
		case "iface":
			return (*iv).Get(arg)
		default:
			r, _ := S3(arg, "q")
			return r
		}
	}
}

func genCfg(rng *vmon.Rng, form string, maxLen int) seqCfg {
	cfg := seqCfg{form: form, lens: map[int]int{}, andForm: map[int]bool{}}
	cfg.lens[-1] = 1 + rng.Intn(maxLen)
	cfg.andForm[-1] = rng.Bool()
	nc := rng.Intn(5)
	for k := 0; k < nc; k++ {
		cfg.lens[k] = 1 + rng.Intn(maxLen)
		cfg.andForm[k] = rng.Bool()
	}
	return cfg
}

func TestC05Sequential(t *testing.T) {
	rep := vmon.NewReport("C05")
	defer rep.Write()
	shard, _ := vmon.Shard()
	rng := vmon.NewRng(vmon.Seed(), uint64(500+shard))
	n := vmon.EnvInt("VERIF_C05_SEQ", 300)
	forms := []string{"func", "method", "iface", "func2", "funcv"}
	for c := 0; c < n; c++ {
		form := forms[c%len(forms)]
		dupOn = c%2 == 1
		cfg := genCfg(rng, form, 12)
		rep.Journal(map[string]interface{}{"part": "sequential", "cfg": fmt.Sprint(cfg)})
		var iv I
		b := mocker.Create()
		var call func(int) int
		var ierr interface{}
		func() {
			defer func() { ierr = recover() }()
			call = install(b, cfg, &iv)
		}()
		if ierr != nil {
			rep.Violate("C05/configuration-rejected", fmt.Sprintf("well-formed sequence configuration panicked: %v", ierr), map[string]interface{}{"cfg": fmt.Sprint(cfg)})
			b.Reset()
			continue
		}
		keys := []int{}
		total := 0
		for k, l := range cfg.lens {
			keys = append(keys, k)
			total += l
		}
		sort.Ints(keys)
		cursor := map[int]int{}
		var trace []string
		bad := false
		for i := 0; i < 3*total+50 && !bad; i++ {
			k := keys[rng.Intn(len(keys))]
			got := call(k)
			pos := cursor[k]
			if pos >= cfg.lens[k] {
				pos = cfg.lens[k] - 1
			}
			want := val(k, pos)
			cursor[k]++
			rep.Eval(1)
			if len(trace) < 40 {
				trace = append(trace, fmt.Sprintf("k%d->%d", k, got))
			}
			if got != want {
				bad = true
				rep.Violate("C05/sequential-wrong-element", fmt.Sprintf("%s: call %d selecting stub %d returned %d, want element %d (%d) of %d", form, cursor[k], k, got, pos, want, cfg.lens[k]),
					map[string]interface{}{"cfg": fmt.Sprint(cfg), "trace": trace})
			}
		}
		b.Reset()
		if S1(1) != -1001 || (&T{v: 3}).M(1) != -4004 {
			rep.Violate("C05/not-reset", "targets not original after Reset", nil)
		}
		rep.Class(fmt.Sprintf("seq/%s/stubs%d/maxlen%d", form, len(keys), maxLenOf(cfg)))
		if c < 2 {
			rep.Sample(map[string]interface{}{"part": "sequential", "form": form, "lens": fmt.Sprint(cfg.lens), "trace": trace})
		}
	}
	dupOn = false
	rep.Stat("sequential_configs", int64(n))
}

func maxLenOf(c seqCfg) int {
	m := 0
	for _, l := range c.lens {
		if l > m {
			m = l
		}
	}
	return m
}

// recvT is a heap object: a receiver living in the caller's frame would bring the caller-frame pointer hazard of the
// logging wrapper (known finding of C19) into the debug-logging pass as a race report
var recvT = &T{v: 3}

type cin struct{ key int }

func TestC05Concurrent(t *testing.T) {
	rep := vmon.NewReport("C05")
	defer rep.Write()
	shard, _ := vmon.Shard()
	rng := vmon.NewRng(vmon.Seed(), uint64(900+shard))
	n := vmon.EnvInt("VERIF_C05_HIST", 60)
	maxG := vmon.EnvInt("VERIF_C05_MAXG", 32)
	forms := []string{"func", "method", "iface", "func2"}
	if os.Getenv("VERIF_C05_DEBUG") == "1" {
		// with debug logging every replacement runs behind goom's logging wrapper: same specification
		mocker.OpenDebug()
		defer mocker.CloseDebug()
		rep.Stat("histories_with_debug_logging", int64(n))
	}
	for h := 0; h < n; h++ {
		form := forms[h%len(forms)]
		cfg := genCfg(rng, form, 12)
		for k := range cfg.lens { // sequences long enough to see the cursor move
			if cfg.lens[k] < 2 && rng.Bool() {
				cfg.lens[k] = 2 + rng.Intn(8)
			}
		}
		var iv I
		b := mocker.Create()
		call := install(b, cfg, &iv)
		keys := []int{}
		for k := range cfg.lens {
			keys = append(keys, k)
		}
		sort.Ints(keys)
		g := 2 + rng.Intn(maxG-1)
		per := 2 + rng.Intn(10)
		var clock vmon.Clock
		bar := vmon.NewSpinBarrier(g)
		ops := make([][]porcupine.Operation, g)
		seeds := make([]uint64, g)
		for i := range seeds {
			seeds[i] = rng.Uint64()
		}
		hot := keys[rng.Intn(len(keys))]
		var wg sync.WaitGroup
		for c := 0; c < g; c++ {
			wg.Add(1)
			go func(c int) {
				defer wg.Done()
				r := vmon.NewRng(seeds[c], 1)
				bar.Wait()
				for i := 0; i < per; i++ {
					k := hot
					if r.Chance(1, 4) {
						k = keys[r.Intn(len(keys))]
					}
					t0 := clock.Tick()
					v := call(k)
					t1 := clock.Tick()
					ops[c] = append(ops[c], porcupine.Operation{ClientId: c, Input: cin{k}, Call: t0, Output: v, Return: t1})
				}
			}(c)
		}
		wg.Wait()
		b.Reset()
		var all []porcupine.Operation
		for _, o := range ops {
			all = append(all, o...)
		}
		rep.Eval(int64(len(all)))
		rep.Stat("concurrent_ops", int64(len(all)))
		rep.Stat("concurrent_histories", 1)
		// (ii) direct checks
		lens := cfg.lens
		pos := func(o porcupine.Operation) (int, bool) {
			k := o.Input.(cin).key
			p := o.Output.(int) - (k+2)*100000
			return p, p >= 0 && p < lens[k]
		}
		okAll := true
		byKey := map[int][]porcupine.Operation{}
		for _, o := range all {
			if _, ok := pos(o); !ok {
				okAll = false
				rep.Violate("C05/concurrent-not-an-element", fmt.Sprintf("%s: call selecting stub %d returned %d which is not an element of its %d-element sequence", form, o.Input.(cin).key, o.Output, lens[o.Input.(cin).key]),
					map[string]interface{}{"cfg": fmt.Sprint(cfg)})
				continue
			}
			byKey[o.Input.(cin).key] = append(byKey[o.Input.(cin).key], o)
		}
		dupHist := false
		overlaps := 0
		for k, kops := range byKey {
			sort.Slice(kops, func(i, j int) bool { return kops[i].Call < kops[j].Call })
			// for every pair ordered in real time: pos(A) <= pos(B).  maxRet = max position among ops that returned before B was called.
			type ev struct {
				t    int64
				call bool
				p    int
			}
			var evs []ev
			seen := map[int]int{}
			for _, o := range kops {
				p, _ := pos(o)
				seen[p]++
				evs = append(evs, ev{o.Call, true, p}, ev{o.Return, false, p})
			}
			for _, c := range seen {
				if c > 1 {
					dupHist = true
				}
			}
			sort.Slice(evs, func(i, j int) bool { return evs[i].t < evs[j].t })
			maxRet := -1
			open := 0
			for _, e := range evs {
				if e.call {
					if open > 0 {
						overlaps++
					}
					open++
					if e.p < maxRet {
						okAll = false
						rep.Violate("C05/concurrent-position-went-backwards", fmt.Sprintf("%s stub %d: a call that started after position %d had been returned received position %d (sequence length %d)", form, k, maxRet, e.p, lens[k]),
							map[string]interface{}{"cfg": fmt.Sprint(cfg), "goroutines": g})
					}
				} else {
					open--
					if e.p > maxRet {
						maxRet = e.p
					}
				}
			}
		}
		rep.Stat("overlapping_operation_starts", int64(overlaps))
		if dupHist {
			rep.Stat("histories_with_a_position_returned_twice", 1)
		}
		// (i) porcupine against the monotone-cursor specification, partitioned by stub
		model := porcupine.Model{
			Partition: func(h []porcupine.Operation) [][]porcupine.Operation {
				m := map[int][]porcupine.Operation{}
				for _, o := range h {
					m[o.Input.(cin).key] = append(m[o.Input.(cin).key], o)
				}
				var out [][]porcupine.Operation
				for _, v := range m {
					out = append(out, v)
				}
				return out
			},
			Init: func() interface{} { return -1 },
			Step: func(st, in, out interface{}) (bool, interface{}) {
				k := in.(cin).key
				p := out.(int) - (k+2)*100000
				if p < 0 || p >= lens[k] || p < st.(int) {
					return false, st
				}
				return true, p
			},
			Equal: func(a, b interface{}) bool { return a.(int) == b.(int) },
		}
		res, _ := porcupine.CheckOperationsVerbose(model, all, time.Duration(vmon.EnvInt("VERIF_C05_PTIMEOUT", 20))*time.Second)
		switch res {
		case porcupine.Ok:
			rep.Stat("porcupine_ok", 1)
		case porcupine.Illegal:
			rep.Stat("porcupine_illegal", 1)
			if okAll {
				rep.Violate("C05/porcupine-illegal", fmt.Sprintf("%s: history of %d ops by %d goroutines is not linearizable w.r.t. the monotone cursor", form, len(all), g), map[string]interface{}{"cfg": fmt.Sprint(cfg)})
			}
		default:
			rep.Stat("porcupine_unknown_timeout", 1)
		}
		rep.Class(fmt.Sprintf("conc/%s/g%d/stubs%d", form, bucket(g), len(keys)))
		if h < 2 && len(all) > 0 {
			var s []string
			for _, o := range all[:minInt(12, len(all))] {
				s = append(s, fmt.Sprintf("c%d[%d,%d]k%d->%d", o.ClientId, o.Call, o.Return, o.Input.(cin).key, o.Output))
			}
			rep.Sample(map[string]interface{}{"part": "concurrent", "form": form, "goroutines": g, "lens": fmt.Sprint(cfg.lens), "ops": s})
		}
	}
}

// TestC05Long: one long sequence (thousands of distinct elements) on the default stub and one on a condition, hammered
// by as many goroutines as there are processors until everybody has seen the last element; the recorded history is
// checked directly: every value an element, no call that started after position p had been returned receives less
// than p, and after the last element only the last element.
func TestC05Long(t *testing.T) {
	rep := vmon.NewReport("C05")
	defer rep.Write()
	shard, _ := vmon.Shard()
	L := vmon.EnvInt("VERIF_C05_LONG", 6000)
	rounds := vmon.EnvInt("VERIF_C05_LONGROUNDS", 4)
	forms := []string{"func", "method", "iface", "func2"}
	if os.Getenv("VERIF_C05_DEBUG") == "1" {
		mocker.OpenDebug()
		defer mocker.CloseDebug()
	}
	for r := 0; r < rounds; r++ {
		form := forms[(r+shard)%len(forms)]
		cfg := seqCfg{form: form, lens: map[int]int{-1: L, 0: L}, andForm: map[int]bool{-1: false, 0: false}}
		var iv I
		b := mocker.Create()
		call := install(b, cfg, &iv)
		g := runtime.GOMAXPROCS(0)
		if g > 16 {
			g = 16
		}
		if g < 4 {
			g = 4
		}
		type op struct {
			t0, t1 int64
			key, p int
		}
		var clock vmon.Clock
		bar := vmon.NewSpinBarrier(g)
		ops := make([][]op, g)
		var wg sync.WaitGroup
		for c := 0; c < g; c++ {
			wg.Add(1)
			go func(c int) {
				defer wg.Done()
				bar.Wait()
				seenLast := 0
				for i := 0; i < 4*L && seenLast < 3; i++ {
					k := -1 + (i+c)%2
					t0 := clock.Tick()
					v := call(k)
					t1 := clock.Tick()
					p := v - (k+2)*100000
					ops[c] = append(ops[c], op{t0, t1, k, p})
					if p == L-1 {
						seenLast++
					}
				}
			}(c)
		}
		wg.Wait()
		b.Reset()
		for _, key := range []int{-1, 0} {
			type ev struct {
				t    int64
				call bool
				p    int
			}
			var evs []ev
			n := 0
			for _, o := range ops {
				for _, x := range o {
					if x.key != key {
						continue
					}
					n++
					if x.p < 0 || x.p >= L {
						rep.Violate("C05/concurrent-not-an-element", fmt.Sprintf("%s: long sequence of %d on stub %d: a call returned %d which is not one of its elements", form, L, key, x.p+(key+2)*100000), nil)
						continue
					}
					evs = append(evs, ev{x.t0, true, x.p}, ev{x.t1, false, x.p})
				}
			}
			sort.Slice(evs, func(i, j int) bool { return evs[i].t < evs[j].t })
			maxRet, back := -1, 0
			for _, e := range evs {
				if e.call {
					if e.p < maxRet {
						back++
						if back <= 2 {
							rep.Violate("C05/concurrent-position-went-backwards", fmt.Sprintf("%s stub %d, long sequence of %d, %d goroutines: a call that started after position %d had been returned received position %d", form, key, L, g, maxRet, e.p),
								map[string]interface{}{"form": form, "goroutines": g, "length": L})
						}
					}
				} else if e.p > maxRet {
					maxRet = e.p
				}
			}
			rep.Eval(int64(n))
			rep.Stat("long_sequence_ops", int64(n))
		}
		rep.Class(fmt.Sprintf("long/%s/g%d", form, bucket(g)))
		rep.Stat("long_sequence_histories", 1)
	}
}

func bucket(g int) int {
	switch {
	case g <= 2:
		return 2
	case g <= 4:
		return 4
	case g <= 8:
		return 8
	case g <= 16:
		return 16
	}
	return 32
}

func minInt(a, b int) int {
	if a < b {
		return a
	}
	return b
}
