//go:build go1.21

package stub

import (
	"fmt"
	"runtime"
	"strings"
	"syscall"
	"testing"
	"unsafe"

	"github.com/tencent/goom/zzverif/vmon"
)

type c20SockFilter struct {
	code   uint16
	jt, jf uint8
	k      uint32
}

type c20SockFprog struct {
	n      uint16
	_      [6]byte
	filter *c20SockFilter
}

// c20DenyWX installs a seccomp filter for every thread of the process: mmap and mprotect asking for PROT_WRITE and
// PROT_EXEC together fail with EACCES (what systemd's MemoryDenyWriteExecute, SELinux without execmem or PaX do).
func c20DenyWX() error {
	prog := []c20SockFilter{
		{0x20, 0, 0, 4},          // A = arch
		{0x15, 0, 6, 0xC000003E}, // x86-64 ? next : allow
		{0x20, 0, 0, 0},          // A = syscall number
		{0x15, 1, 0, 9},          // mmap -> load prot
		{0x15, 0, 3, 10},         // mprotect ? next : allow
		{0x20, 0, 0, 32},         // A = low half of args[2] (prot)
		{0x54, 0, 0, 6},          // A &= PROT_WRITE|PROT_EXEC
		{0x15, 1, 0, 6},          // both -> deny
		{0x06, 0, 0, 0x7fff0000}, // allow
		{0x06, 0, 0, 0x00050000 | uint32(syscall.EACCES)},
	}
	fp := c20SockFprog{n: uint16(len(prog)), filter: &prog[0]}
	runtime.LockOSThread()
	defer runtime.UnlockOSThread()
	if _, _, e := syscall.RawSyscall6(syscall.SYS_PRCTL, 38, 1, 0, 0, 0, 0); e != 0 { // PR_SET_NO_NEW_PRIVS
		return e
	}
	if _, _, e := syscall.RawSyscall(317, 1, 1, uintptr(unsafe.Pointer(&fp))); e != 0 { // seccomp(SET_MODE_FILTER, TSYNC)
		return e
	}
	runtime.KeepAlive(prog)
	return nil
}

// TestC20WXDenied: the process may neither map nor re-protect memory writable and executable at once. Requests are then
// served from the built-in reserve, and every region is still writable through the provided writer (which has to find
// another way than an rwx window), executable afterwards, inside the reserve, disjoint, and exhaustion is an error.
func TestC20WXDenied(t *testing.T) {
	rep := vmon.NewReport("C20")
	defer rep.Write()
	if err := c20DenyWX(); err != nil {
		rep.Note("wx-denied", "seccomp filter not available: "+err.Error())
		rep.Stat("wx_denied_not_exercised", 1)
		rep.Eval(1)
		rep.Class("wx-denied/not-available")
		rep.Class("wx-denied/not-available2")
		return
	}
	lo, hi := placeHolderIns.min, placeHolderIns.max
	var end uintptr
	n, errs := 0, 0
	for i := 0; i < 400; i++ {
		s, err := Acquire(48)
		rep.Eval(1)
		if err != nil {
			errs++
			continue
		}
		if s.typ == TypeMMap {
			rep.Violate("C20/wx-denied-but-mmap-succeeded", "an rwx mapping was obtained although the policy denies it (the filter is not effective?)", nil)
			break
		}
		n++
		if s.Addr < lo || s.Addr+48 > hi {
			rep.Violate("C20/holder-outside-reserve", fmt.Sprintf("region [%#x,+48) outside reserve [%#x,%#x)", s.Addr, lo, hi), nil)
		}
		if s.Addr < end {
			rep.Violate("C20/holder-overlap", fmt.Sprintf("region at %#x overlaps previous ending %#x", s.Addr, end), nil)
		}
		end = s.Addr + 48
		if n > 40 && n%16 != 0 {
			continue // write and run a sample of the later ones
		}
		v := uint32(0xD70000 + n)
		rep.Journal(map[string]interface{}{"part": "wx-denied", "region": n, "crashkey": "C20/holder-write-failed"})
		if err := safeWrite(s, stubCodeN(v, 48)); err != nil {
			rep.Violate("C20/holder-write-failed", fmt.Sprintf("W^X policy in force: %v (page is %q)", err, vmon.PermsOf(s.Addr)), nil)
			break
		}
		if p := vmon.PermsOf(s.Addr); !strings.HasPrefix(p, "r-x") {
			rep.Violate("C20/holder-write-failed", fmt.Sprintf("W^X policy in force: the page of region %#x is %q after the write", s.Addr, p), nil)
			break
		}
		if got := callStub(s.Addr); uint32(got) != v {
			rep.Violate("C20/holder-stub-not-executable", fmt.Sprintf("W^X policy in force: stub at %#x returned %#x want %#x", s.Addr, got, v), nil)
		}
		rep.Stat("wx_denied_regions_written_and_run", 1)
	}
	rep.Journal(map[string]interface{}{"part": "wx-denied done"})
	rep.Stat("wx_denied_regions", int64(n))
	rep.Stat("wx_denied_exhaustion_errors", int64(errs))
	if want := int((hi - lo) / 48); n > want {
		rep.Violate("C20/holder-overrun", fmt.Sprintf("%d regions of 48 bytes from a reserve of %d bytes", n, hi-lo), nil)
	}
	rep.Class(fmt.Sprintf("wx-denied/served%v/errors%v", n > 0, errs > 0))
}
