//go:build go1.21

package stub

import (
	"debug/elf"
	"debug/gosym"
	"fmt"
	"math"
	"math/bits"
	"os"
	"runtime"
	"runtime/debug"
	"sort"
	"strings"
	"sync"
	"sync/atomic"
	"syscall"
	"testing"
	"time"
	"unsafe"

	"github.com/tencent/goom/zzverif/vmon"
)

type c20op struct {
	g        int
	size     int
	addr     uintptr
	err      error
	t0, t1   int64
	spaceLen int
}

//go:nocheckptr
func callStub(addr uintptr) int {
	fv := &struct{ pc uintptr }{addr}
	f := *(*func() int)(unsafe.Pointer(&fv))
	return f()
}

func stubCode(v uint32) []byte {
	return []byte{0xB8, byte(v), byte(v >> 8), byte(v >> 16), byte(v >> 24), 0xC3} // mov eax,imm32; ret
}

// stubCodeN is stubCode filled up to n bytes: the whole region is written, wherever page boundaries fall inside it.
func stubCodeN(v uint32, n int) []byte {
	c := stubCode(v)
	for len(c) < n {
		c = append(c, 0x90)
	}
	return c
}

// safeWrite is the provided writer with a fault turned into an error (a region that cannot be written must not take
// the other observations down with it).
func safeWrite(s *Space, code []byte) (err error) {
	old := debug.SetPanicOnFault(true)
	defer func() {
		debug.SetPanicOnFault(old)
		if r := recover(); r != nil {
			err = fmt.Errorf("writing %d bytes to the region at %#x faulted: %v", len(code), s.Addr, r)
		}
	}()
	return Write(s, code)
}

// holderRound releases `gor` goroutines at once against the fallback allocator.
func holderRound(rep *vmon.Report, rng *vmon.Rng, gor int, maxSize int, reset bool, round int) {
	if reset {
		atomic.StoreUintptr(&placeHolderIns.off, placeHolderIns.min)
	}
	lo, hi := placeHolderIns.min, placeHolderIns.max
	bar := vmon.NewSpinBarrier(gor)
	ops := make([][]c20op, gor)
	seeds := make([]uint64, gor)
	for i := range seeds {
		seeds[i] = rng.Uint64()
	}
	base := time.Now()
	var wg sync.WaitGroup
	for g := 0; g < gor; g++ {
		wg.Add(1)
		go func(g int) {
			defer wg.Done()
			r := vmon.NewRng(seeds[g], uint64(g))
			fails := 0
			bar.Wait()
			for fails < 3 && len(ops[g]) < 20000 {
				sz := 1 + r.Intn(maxSize)
				t0 := int64(time.Since(base))
				addr, sp, err := acquireFromHolder(sz)
				t1 := int64(time.Since(base))
				o := c20op{g: g, size: sz, addr: addr, err: err, t0: t0, t1: t1}
				if sp != nil {
					o.spaceLen = len(*sp)
				}
				ops[g] = append(ops[g], o)
				if err != nil {
					fails++
				}
			}
		}(g)
	}
	wg.Wait()
	var all []c20op
	for _, o := range ops {
		all = append(all, o...)
	}
	rep.Eval(int64(len(all)))
	rep.Stat("holder_requests", int64(len(all)))
	var okOps []c20op
	for _, o := range all {
		if o.err != nil {
			rep.Stat("holder_exhaustion_errors", 1)
			if o.err != errSpaceOverflow {
				rep.Violate("C20/holder-unexpected-error", fmt.Sprintf("error %v", o.err), nil)
			}
			continue
		}
		if o.addr < lo || o.addr+uintptr(o.size) > hi {
			rep.Violate("C20/holder-outside-reserve", fmt.Sprintf("region [%#x,+%d) outside reserve [%#x,%#x)", o.addr, o.size, lo, hi),
				map[string]interface{}{"round": round, "goroutines": gor})
		}
		if o.spaceLen < o.size {
			rep.Violate("C20/holder-region-too-small", fmt.Sprintf("asked %d got %d", o.size, o.spaceLen), nil)
		}
		okOps = append(okOps, o)
	}
	sort.Slice(okOps, func(i, j int) bool { return okOps[i].addr < okOps[j].addr })
	dups := 0
	var end uintptr
	var prev c20op
	for i, o := range okOps {
		if i > 0 && o.addr < end {
			dups++
			if dups == 1 {
				key := "C20/holder-overlap"
				if gor > 1 && o.addr == prev.addr && o.g != prev.g {
					key = "C20/concurrent-same-offset"
				}
				rep.Violate(key, fmt.Sprintf("regions overlap: [%#x,+%d) by goroutine %d and [%#x,+%d) by goroutine %d", prev.addr, prev.size, prev.g, o.addr, o.size, o.g),
					map[string]interface{}{"round": round, "goroutines": gor, "maxSize": maxSize})
			}
		}
		if e := o.addr + uintptr(o.size); e > end {
			end = e
			prev = o
		}
	}
	rep.Stat("holder_overlapping_regions", int64(dups))
	// evidence of real concurrency: operations of different goroutines whose [t0,t1] intersect
	sort.Slice(all, func(i, j int) bool { return all[i].t0 < all[j].t0 })
	ov := 0
	var maxT1 int64 = -1
	maxG := -1
	for _, o := range all {
		if o.t0 < maxT1 && o.g != maxG {
			ov++
		}
		if o.t1 > maxT1 {
			maxT1, maxG = o.t1, o.g
		}
	}
	rep.Stat("holder_time_overlapping_requests", int64(ov))
	rep.Stat("holder_rounds", 1)
	rep.Class(fmt.Sprintf("holder/g%d/max%d/%s", gor, maxSize, map[bool]string{true: "exhausted", false: "partial"}[len(okOps) < len(all)]))
	if round < 2 {
		rep.Sample(map[string]interface{}{"path": "holder", "goroutines": gor, "maxSize": maxSize, "requests": len(all), "granted": len(okOps),
			"reserve": fmt.Sprintf("[%#x,%#x)", lo, hi), "first": fmt.Sprintf("[%#x,+%d)", okOps[0].addr, okOps[0].size)})
	}
}

// reserveExtent finds the body of the assembly function stub.Placeholder from the binary's own pclntab (the largest
// function of that name: the Go ABI wrapper of the same name is tiny), independently of goom's own min/max.
func reserveExtent() (lo, hi uintptr, err error) {
	exe, err := os.Executable()
	if err != nil {
		return 0, 0, err
	}
	f, err := elf.Open(exe)
	if err != nil {
		return 0, 0, err
	}
	defer f.Close()
	ts, ps := f.Section(".text"), f.Section(".gopclntab")
	if ts == nil || ps == nil {
		return 0, 0, fmt.Errorf("no .text/.gopclntab")
	}
	pd, err := ps.Data()
	if err != nil {
		return 0, 0, err
	}
	tab, err := gosym.NewTable(nil, gosym.NewLineTable(pd, ts.Addr))
	if err != nil {
		return 0, 0, err
	}
	for i := range tab.Funcs {
		fu := &tab.Funcs[i]
		if strings.HasSuffix(fu.Name, "internal/bytecode/stub.Placeholder") && uintptr(fu.End-fu.Entry) > hi-lo {
			lo, hi = uintptr(fu.Entry), uintptr(fu.End)
		}
	}
	if hi-lo < 1024 {
		return 0, 0, fmt.Errorf("Placeholder body not found")
	}
	return lo, hi, nil
}

func TestC20Holder(t *testing.T) {
	rep := vmon.NewReport("C20")
	defer rep.Write()
	if lo, hi, err := reserveExtent(); err != nil {
		rep.Note("reserve_extent", "independent extent unavailable: "+err.Error())
	} else {
		rep.Eval(1)
		rep.Class("reserve-extent-cross-check")
		if placeHolderIns.min < lo || placeHolderIns.max > hi || placeHolderIns.min >= placeHolderIns.max {
			rep.Violate("C20/reserve-bounds-outside-placeholder-body", fmt.Sprintf("goom's reserve [%#x,%#x) is not inside the body of stub.Placeholder [%#x,%#x): requests near exhaustion would be granted text of other functions",
				placeHolderIns.min, placeHolderIns.max, lo, hi), nil)
			// judge every region against the real extent from here on
			placeHolderIns.max = hi
		}
	}
	shard, _ := vmon.Shard()
	rng := vmon.NewRng(vmon.Seed(), uint64(2000+shard))
	rounds := vmon.EnvInt("VERIF_C20_ROUNDS", 150)
	gors := []int{1, 2, 3, 4, 8, 16, 32, 64}
	sizes := []int{1, 2, 8, 48, 128, 512}
	rep.Stat("reserve_bytes", int64(placeHolderIns.max-placeHolderIns.min))
	for r := 0; r < rounds; r++ {
		g := gors[rng.Intn(len(gors))]
		if r == 0 {
			g = 16
		}
		holderRound(rep, rng, g, sizes[rng.Intn(len(sizes))], r > 0, r)
	}
	// impossible requests (the kernel refuses the mapping by itself, so they reach the reserve through the public entry
	// point) between ordinary ones: each is an error, and the ordinary ones stay inside the reserve and disjoint
	atomic.StoreUintptr(&placeHolderIns.off, placeHolderIns.min)
	{
		type reg struct{ lo, hi uintptr }
		var got []reg
		ordinary := func(n int) {
			for i := 0; i < n; i++ {
				addr, _, err := acquireFromHolder(48)
				rep.Eval(1)
				if err != nil {
					rep.Violate("C20/holder-refuses-after-impossible-request", fmt.Sprintf("a 48-byte request with %d bytes of the reserve in use is refused after impossible requests were refused: %v",
						atomic.LoadUintptr(&placeHolderIns.off)-placeHolderIns.min, err), nil)
					return
				}
				if addr < placeHolderIns.min || addr+48 > placeHolderIns.max {
					rep.Violate("C20/holder-outside-reserve", fmt.Sprintf("region [%#x,+48) outside reserve [%#x,%#x) after impossible requests", addr, placeHolderIns.min, placeHolderIns.max), nil)
				}
				for _, r := range got {
					if addr < r.hi && r.lo < addr+48 {
						rep.Violate("C20/holder-overlap", fmt.Sprintf("region [%#x,+48) overlaps [%#x,%#x) handed out before the impossible requests", addr, r.lo, r.hi), nil)
						break
					}
				}
				got = append(got, reg{addr, addr + 48})
			}
		}
		ordinary(3)
		for _, huge := range []int{math.MaxInt64, 1 << 62, math.MaxInt64 - 4095, 1 << 63 >> 1, 3 << 61, math.MaxInt64 - 47} {
			for rep4 := 0; rep4 < 4; rep4++ {
				rep.Journal(map[string]interface{}{"part": "impossible-request", "len": huge, "n": rep4})
				sp, err := Acquire(huge)
				rep.Eval(1)
				if err == nil {
					rep.Violate("C20/impossible-request-granted", fmt.Sprintf("request #%d for %d bytes was granted a region at %#x (reserve [%#x,%#x))", rep4+1, huge, sp.Addr, placeHolderIns.min, placeHolderIns.max),
						map[string]interface{}{"len": huge, "nth": rep4 + 1})
				}
				ordinary(2)
			}
			rep.Class(fmt.Sprintf("impossible-request/%d-bit", bits.Len64(uint64(huge))))
		}
		rep.Stat("impossible_requests", 24)
		rep.Stat("ordinary_regions_between_impossible_requests", int64(len(got)))
	}
	// executing a stub written into the fallback reserve through the public writer
	atomic.StoreUintptr(&placeHolderIns.off, placeHolderIns.min)
	for i := 0; i < int((placeHolderIns.max-placeHolderIns.min)/48); i++ {
		addr, sp, err := acquireFromHolder(48)
		if err != nil {
			rep.Violate("C20/holder-unexpected-error", err.Error(), nil)
			break
		}
		s := &Space{Addr: addr, Space: sp, typ: TypeHolder}
		v := uint32(0xC20000 + i)
		if (addr&4095)+48 > 4096 {
			rep.Stat("holder_regions_straddling_a_page_written", 1)
		}
		if err := safeWrite(s, stubCodeN(v, 48)); err != nil {
			rep.Violate("C20/holder-write-failed", err.Error(), nil)
			continue
		}
		if got := callStub(addr); uint32(got) != v {
			rep.Violate("C20/holder-stub-not-executable", fmt.Sprintf("executing stub at %#x returned %#x want %#x", addr, got, v), nil)
		}
		rep.Eval(1)
		rep.Stat("holder_stubs_executed", 1)
	}
}

func TestC20Acquire(t *testing.T) {
	rep := vmon.NewReport("C20")
	defer rep.Write()
	shard, _ := vmon.Shard()
	rng := vmon.NewRng(vmon.Seed(), uint64(3000+shard))
	n := vmon.EnvInt("VERIF_C20_ACQ", 400)
	type reg struct {
		addr uintptr
		size int
		typ  int
	}
	var regs []reg
	var mu sync.Mutex
	gor := 8
	bar := vmon.NewSpinBarrier(gor)
	seeds := make([]uint64, gor)
	for i := range seeds {
		seeds[i] = rng.Uint64()
	}
	var wg sync.WaitGroup
	for g := 0; g < gor; g++ {
		wg.Add(1)
		go func(g int) {
			defer wg.Done()
			r := vmon.NewRng(seeds[g], 7)
			bar.Wait()
			for i := 0; i < n/gor; i++ {
				var sz int
				switch r.Intn(4) {
				case 0:
					sz = 1 + r.Intn(64)
				case 1:
					sz = 48
				case 2:
					sz = 4096*(1+r.Intn(4)) + r.Intn(3) - 1
				default:
					sz = 1 + r.Intn(65536)
				}
				s, err := Acquire(sz)
				rep.Eval(1)
				if err != nil {
					rep.Violate("C20/acquire-failed", fmt.Sprintf("Acquire(%d): %v", sz, err), nil)
					continue
				}
				if s.Space == nil || len(*s.Space) < sz {
					rep.Violate("C20/region-too-small", fmt.Sprintf("Acquire(%d) returned %d bytes", sz, len(*s.Space)), nil)
					continue
				}
				if s.Addr != uintptr(unsafe.Pointer(&(*s.Space)[0])) {
					rep.Violate("C20/addr-space-mismatch", fmt.Sprintf("Addr %#x but Space starts at %p", s.Addr, &(*s.Space)[0]), nil)
				}
				v := uint32(g<<20 | i)
				code := stubCode(v)
				if sz >= len(code) {
					code = stubCodeN(v, sz)
					if err := safeWrite(s, code); err != nil {
						rep.Violate("C20/write-failed", err.Error(), nil)
						continue
					}
					back := vmon.ReadMem(s.Addr, len(code))
					if string(back) != string(code) {
						rep.Violate("C20/write-readback", fmt.Sprintf("wrote %x read %x", code, back), nil)
					}
					if got := callStub(s.Addr); uint32(got) != v {
						rep.Violate("C20/stub-not-executable", fmt.Sprintf("stub at %#x returned %#x want %#x", s.Addr, got, v), nil)
					}
					rep.Stat("stubs_executed", 1)
				}
				mu.Lock()
				regs = append(regs, reg{s.Addr, sz, s.typ})
				mu.Unlock()
				rep.Class(fmt.Sprintf("acquire/typ%d/size-class%d", s.typ, sizeClass(sz)))
			}
		}(g)
	}
	wg.Wait()
	// permissions + disjointness
	maps := vmon.ReadMaps()
	for _, r := range regs {
		ok := false
		for _, m := range maps {
			if r.addr >= m.Start && r.addr+uintptr(r.size) <= m.End {
				ok = strings.HasPrefix(m.Perms, "rwx")
				if r.typ == TypeHolder {
					ok = strings.Contains(m.Perms, "x")
				}
			}
		}
		if !ok {
			rep.Violate("C20/region-not-executable", fmt.Sprintf("region [%#x,+%d) typ %d is not inside one rwx mapping", r.addr, r.size, r.typ), nil)
		}
	}
	sort.Slice(regs, func(i, j int) bool { return regs[i].addr < regs[j].addr })
	var end uintptr
	for i, r := range regs {
		if i > 0 && r.addr < end {
			rep.Violate("C20/acquire-overlap", fmt.Sprintf("region [%#x,+%d) overlaps an earlier one ending at %#x", r.addr, r.size, end), nil)
		}
		if e := r.addr + uintptr(r.size); e > end {
			end = e
		}
	}
	rep.Stat("acquire_regions", int64(len(regs)))
	if len(regs) > 0 {
		rep.Sample(map[string]interface{}{"path": "Acquire", "regions": len(regs), "example": fmt.Sprintf("[%#x,+%d) typ=%d", regs[0].addr, regs[0].size, regs[0].typ)})
	}

	// sizes for which the kernel refuses the mapping: the real failure dispatch into the fallback
	atomic.StoreUintptr(&placeHolderIns.off, placeHolderIns.min)
	s0, err := Acquire(0)
	rep.Eval(1)
	if err == nil {
		rep.Class("acquire/size0/typ" + fmt.Sprint(s0.typ))
		if s0.typ == TypeHolder && (s0.Addr < placeHolderIns.min || s0.Addr > placeHolderIns.max) {
			rep.Violate("C20/holder-outside-reserve", fmt.Sprintf("Acquire(0) -> %#x outside reserve", s0.Addr), nil)
		}
	} else {
		rep.Class("acquire/size0/error")
	}
	for _, huge := range []int{1 << 47, 1 << 50, int(^uint(0) >> 1)} {
		s, err := Acquire(huge)
		rep.Eval(1)
		if err == nil {
			rep.Violate("C20/huge-request-granted", fmt.Sprintf("Acquire(%#x) succeeded: addr %#x typ %d", huge, s.Addr, s.typ), nil)
		} else {
			rep.Class("acquire/huge/error")
		}
	}
}

func sizeClass(n int) int {
	c := 0
	for n > 1 {
		n >>= 1
		c++
	}
	return c
}

// TestC20MmapDenied makes anonymous mappings really fail (RLIMIT_AS lowered to
// the current address-space size) for the duration of Acquire calls of
// realistic sizes, so the public API's fallback dispatch is exercised.
func TestC20MmapDenied(t *testing.T) {
	rep := vmon.NewReport("C20")
	defer rep.Write()
	runtime.LockOSThread()
	debug.SetGCPercent(-1)
	// pre-grow the heap so the runtime needs no new mappings in the window
	keep := make([][]byte, 0, 64)
	for i := 0; i < 64; i++ {
		keep = append(keep, make([]byte, 1<<20))
	}
	keep = nil
	runtime.GC()
	debug.SetGCPercent(-1)
	var old syscall.Rlimit
	if err := syscall.Getrlimit(9 /*RLIMIT_AS*/, &old); err != nil {
		rep.Inconclusive = "getrlimit: " + err.Error()
		return
	}
	vm := vmSize()
	if vm == 0 {
		rep.Inconclusive = "cannot read VmSize"
		return
	}
	atomic.StoreUintptr(&placeHolderIns.off, placeHolderIns.min)
	type granted struct {
		s *Space
		n int
	}
	results := make([]granted, 0, 400)
	errs := 0
	// sizes that are and are not multiples of the usual alignments: neighbours in the reserve touch at odd addresses
	sizes := []int{48, 20, 33, 7, 61, 16, 48, 1}
	lim := syscall.Rlimit{Cur: vm, Max: old.Max}
	if err := syscall.Setrlimit(9, &lim); err != nil {
		rep.Inconclusive = "setrlimit: " + err.Error()
		return
	}
	for i := 0; i < 400; i++ {
		n := sizes[i%len(sizes)]
		s, err := Acquire(n)
		if err != nil {
			errs++
			if err != errSpaceOverflow {
				results = append(results, granted{nil, n})
			}
			continue
		}
		results = append(results, granted{s, n})
	}
	syscall.Setrlimit(9, &old)
	debug.SetGCPercent(100)
	holder, mm, total := 0, 0, 0
	var end uintptr
	sort.Slice(results, func(i, j int) bool {
		if results[i].s == nil || results[j].s == nil {
			return results[j].s == nil && results[i].s != nil
		}
		return results[i].s.Addr < results[j].s.Addr
	})
	beyond := vmon.ReadMem(placeHolderIns.max, 32)
	var inReserve []granted
	for _, g := range results {
		s := g.s
		rep.Eval(1)
		if s == nil {
			rep.Violate("C20/holder-unexpected-error", "Acquire under denied mmap failed with something other than exhaustion", nil)
			continue
		}
		if s.typ == TypeMMap {
			mm++
			continue
		}
		holder++
		total += g.n
		if s.Addr < placeHolderIns.min || s.Addr+uintptr(g.n) > placeHolderIns.max {
			rep.Violate("C20/holder-outside-reserve", fmt.Sprintf("region [%#x,+%d) outside reserve [%#x,%#x)", s.Addr, g.n, placeHolderIns.min, placeHolderIns.max), nil)
			continue
		}
		if s.Addr < end {
			rep.Violate("C20/holder-overlap", fmt.Sprintf("region at %#x overlaps previous ending %#x", s.Addr, end), nil)
		}
		end = s.Addr + uintptr(g.n)
		inReserve = append(inReserve, g)
	}
	code := func(k int, n int) []byte {
		if n >= 6 {
			return stubCodeN(uint32(0xDE0000+k), n)
		}
		c := make([]byte, n)
		for i := range c {
			c[i] = byte(0xA0 + k%64)
		}
		return c
	}
	// every region is filled to its full length through the provided writer, the highest one first (what a write spills
	// behind its region lands in a neighbour that has its content already), then all of them are read back and called
	for k := len(inReserve) - 1; k >= 0; k-- {
		g := inReserve[k]
		if (g.s.Addr&4095)+uintptr(g.n) > 4096 {
			rep.Stat("holder_regions_straddling_a_page_written", 1)
		}
		if err := safeWrite(g.s, code(k, g.n)); err != nil {
			rep.Violate("C20/holder-write-failed", err.Error(), nil)
		}
	}
	for pass := 0; pass < 2; pass++ {
		for k, g := range inReserve {
			rep.Eval(1)
			want := code(k, g.n)
			if back := vmon.ReadMem(g.s.Addr, g.n); string(back) != string(want) {
				rep.Violate("C20/region-content-destroyed-by-another-write", fmt.Sprintf("region %d [%#x,+%d) of the reserve, filled through the provided writer, reads back % x, want % x (regions were filled from the highest address down%s)", k, g.s.Addr, g.n, back, want,
					map[int]string{0: "", 1: "; second pass: after every region was filled once more from the lowest address up"}[pass]), nil)
				break
			} else if g.n >= 6 {
				if got := callStub(g.s.Addr); uint32(got) != uint32(0xDE0000+k) {
					rep.Violate("C20/holder-stub-not-executable", fmt.Sprintf("stub at %#x returned %#x", g.s.Addr, got), nil)
					break
				}
			}
		}
		if pass == 0 {
			for k, g := range inReserve {
				if err := safeWrite(g.s, code(k, g.n)); err != nil {
					rep.Violate("C20/holder-write-failed", err.Error(), nil)
				}
			}
		}
	}
	if now := vmon.ReadMem(placeHolderIns.max, 32); string(now) != string(beyond) {
		rep.Violate("C20/write-beyond-the-reserve", fmt.Sprintf("the 32 bytes behind the reserve changed while its regions were filled: % x -> % x", beyond, now), nil)
	}
	rep.Stat("mmap_denied_requests_served_by_holder", int64(holder))
	rep.Stat("mmap_denied_requests_served_by_mmap", int64(mm))
	rep.Stat("mmap_denied_exhaustion_errors", int64(errs))
	rep.Class(fmt.Sprintf("mmap-denied/holder%v/errors%v", holder > 0, errs > 0))
	if holder == 0 {
		rep.Inconclusive = "RLIMIT_AS did not make mmap fail; fallback dispatch not observed"
	}
	if total > int(placeHolderIns.max-placeHolderIns.min) {
		rep.Violate("C20/holder-overrun", fmt.Sprintf("%d regions of %d bytes in all granted from a reserve of %d bytes", holder, total, placeHolderIns.max-placeHolderIns.min), nil)
	}
	rep.Sample(map[string]interface{}{"path": "Acquire with mmap denied (RLIMIT_AS)", "served_by_holder": holder, "exhaustion_errors": errs})
}

func vmSize() uint64 {
	b, err := os.ReadFile("/proc/self/statm")
	if err != nil {
		return 0
	}
	var pages uint64
	fmt.Sscanf(string(b), "%d", &pages)
	return pages * uint64(os.Getpagesize())
}
