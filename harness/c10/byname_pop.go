// The by-name population of TestC10ByNameMany (48 functions mocked by name one after the other).
package c10

import "fmt"

var popSink int

//go:noinline
func q00(a int) int {
	if a < -10000 {
		popSink += a
		fmt.Println("never", a)
	}
	return a + 1000
}

//go:noinline
func q01(a int) int {
	if a < -10000 {
		popSink += a
		fmt.Println("never", a)
	}
	return a + 2000
}

//go:noinline
func q02(a int) int {
	if a < -10000 {
		popSink += a
		fmt.Println("never", a)
	}
	return a + 3000
}

//go:noinline
func q03(a int) int {
	if a < -10000 {
		popSink += a
		fmt.Println("never", a)
	}
	return a + 4000
}

//go:noinline
func q04(a int) int {
	if a < -10000 {
		popSink += a
		fmt.Println("never", a)
	}
	return a + 5000
}

//go:noinline
func q05(a int) int {
	if a < -10000 {
		popSink += a
		fmt.Println("never", a)
	}
	return a + 6000
}

//go:noinline
func q06(a int) int {
	if a < -10000 {
		popSink += a
		fmt.Println("never", a)
	}
	return a + 7000
}

//go:noinline
func q07(a int) int {
	if a < -10000 {
		popSink += a
		fmt.Println("never", a)
	}
	return a + 8000
}

//go:noinline
func q08(a int) int {
	if a < -10000 {
		popSink += a
		fmt.Println("never", a)
	}
	return a + 9000
}

//go:noinline
func q09(a int) int {
	if a < -10000 {
		popSink += a
		fmt.Println("never", a)
	}
	return a + 10000
}

//go:noinline
func q10(a int) int {
	if a < -10000 {
		popSink += a
		fmt.Println("never", a)
	}
	return a + 11000
}

//go:noinline
func q11(a int) int {
	if a < -10000 {
		popSink += a
		fmt.Println("never", a)
	}
	return a + 12000
}

//go:noinline
func q12(a int) int {
	if a < -10000 {
		popSink += a
		fmt.Println("never", a)
	}
	return a + 13000
}

//go:noinline
func q13(a int) int {
	if a < -10000 {
		popSink += a
		fmt.Println("never", a)
	}
	return a + 14000
}

//go:noinline
func q14(a int) int {
	if a < -10000 {
		popSink += a
		fmt.Println("never", a)
	}
	return a + 15000
}

//go:noinline
func q15(a int) int {
	if a < -10000 {
		popSink += a
		fmt.Println("never", a)
	}
	return a + 16000
}

//go:noinline
func q16(a int) int {
	if a < -10000 {
		popSink += a
		fmt.Println("never", a)
	}
	return a + 17000
}

//go:noinline
func q17(a int) int {
	if a < -10000 {
		popSink += a
		fmt.Println("never", a)
	}
	return a + 18000
}

//go:noinline
func q18(a int) int {
	if a < -10000 {
		popSink += a
		fmt.Println("never", a)
	}
	return a + 19000
}

//go:noinline
func q19(a int) int {
	if a < -10000 {
		popSink += a
		fmt.Println("never", a)
	}
	return a + 20000
}

//go:noinline
func q20(a int) int {
	if a < -10000 {
		popSink += a
		fmt.Println("never", a)
	}
	return a + 21000
}

//go:noinline
func q21(a int) int {
	if a < -10000 {
		popSink += a
		fmt.Println("never", a)
	}
	return a + 22000
}

//go:noinline
func q22(a int) int {
	if a < -10000 {
		popSink += a
		fmt.Println("never", a)
	}
	return a + 23000
}

//go:noinline
func q23(a int) int {
	if a < -10000 {
		popSink += a
		fmt.Println("never", a)
	}
	return a + 24000
}

//go:noinline
func q24(a int) int {
	if a < -10000 {
		popSink += a
		fmt.Println("never", a)
	}
	return a + 25000
}

//go:noinline
func q25(a int) int {
	if a < -10000 {
		popSink += a
		fmt.Println("never", a)
	}
	return a + 26000
}

//go:noinline
func q26(a int) int {
	if a < -10000 {
		popSink += a
		fmt.Println("never", a)
	}
	return a + 27000
}

//go:noinline
func q27(a int) int {
	if a < -10000 {
		popSink += a
		fmt.Println("never", a)
	}
	return a + 28000
}

//go:noinline
func q28(a int) int {
	if a < -10000 {
		popSink += a
		fmt.Println("never", a)
	}
	return a + 29000
}

//go:noinline
func q29(a int) int {
	if a < -10000 {
		popSink += a
		fmt.Println("never", a)
	}
	return a + 30000
}

//go:noinline
func q30(a int) int {
	if a < -10000 {
		popSink += a
		fmt.Println("never", a)
	}
	return a + 31000
}

//go:noinline
func q31(a int) int {
	if a < -10000 {
		popSink += a
		fmt.Println("never", a)
	}
	return a + 32000
}

//go:noinline
func q32(a int) int {
	if a < -10000 {
		popSink += a
		fmt.Println("never", a)
	}
	return a + 33000
}

//go:noinline
func q33(a int) int {
	if a < -10000 {
		popSink += a
		fmt.Println("never", a)
	}
	return a + 34000
}

//go:noinline
func q34(a int) int {
	if a < -10000 {
		popSink += a
		fmt.Println("never", a)
	}
	return a + 35000
}

//go:noinline
func q35(a int) int {
	if a < -10000 {
		popSink += a
		fmt.Println("never", a)
	}
	return a + 36000
}

//go:noinline
func q36(a int) int {
	if a < -10000 {
		popSink += a
		fmt.Println("never", a)
	}
	return a + 37000
}

//go:noinline
func q37(a int) int {
	if a < -10000 {
		popSink += a
		fmt.Println("never", a)
	}
	return a + 38000
}

//go:noinline
func q38(a int) int {
	if a < -10000 {
		popSink += a
		fmt.Println("never", a)
	}
	return a + 39000
}

//go:noinline
func q39(a int) int {
	if a < -10000 {
		popSink += a
		fmt.Println("never", a)
	}
	return a + 40000
}

//go:noinline
func q40(a int) int {
	if a < -10000 {
		popSink += a
		fmt.Println("never", a)
	}
	return a + 41000
}

//go:noinline
func q41(a int) int {
	if a < -10000 {
		popSink += a
		fmt.Println("never", a)
	}
	return a + 42000
}

//go:noinline
func q42(a int) int {
	if a < -10000 {
		popSink += a
		fmt.Println("never", a)
	}
	return a + 43000
}

//go:noinline
func q43(a int) int {
	if a < -10000 {
		popSink += a
		fmt.Println("never", a)
	}
	return a + 44000
}

//go:noinline
func q44(a int) int {
	if a < -10000 {
		popSink += a
		fmt.Println("never", a)
	}
	return a + 45000
}

//go:noinline
func q45(a int) int {
	if a < -10000 {
		popSink += a
		fmt.Println("never", a)
	}
	return a + 46000
}

//go:noinline
func q46(a int) int {
	if a < -10000 {
		popSink += a
		fmt.Println("never", a)
	}
	return a + 47000
}

//go:noinline
func q47(a int) int {
	if a < -10000 {
		popSink += a
		fmt.Println("never", a)
	}
	return a + 48000
}

var qPop = []func(int) int{q00, q01, q02, q03, q04, q05, q06, q07, q08, q09, q10, q11, q12, q13, q14, q15, q16, q17, q18, q19, q20, q21, q22, q23, q24, q25, q26, q27, q28, q29, q30, q31, q32, q33, q34, q35, q36, q37, q38, q39, q40, q41, q42, q43, q44, q45, q46, q47}
