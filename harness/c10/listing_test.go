//go:build go1.21

package c10

import (
	"fmt"
	"strings"
	"testing"

	"github.com/tencent/goom/internal/unexports2"
	"github.com/tencent/goom/zzverif/vmon"
)

// TestC10AfterListing: the library's own listing helpers (AllFunctions, GetSymbolTable) are read-only: after they ran,
// every name resolves to the address it resolved to before, and names that were absent are still absent - in
// particular the vendored standard-library packages ("vendor/golang.org/x/...") and those names without the prefix.
func TestC10AfterListing(t *testing.T) {
	rep := vmon.NewReport("C10")
	defer rep.Write()
	names, err := ownFuncNames()
	if err != nil {
		rep.Inconclusive = "own function names unreadable: " + err.Error()
		return
	}
	known := map[string]bool{}
	for _, n := range names {
		known[n] = true
	}
	var present, absent []string
	for i, n := range names {
		if strings.HasPrefix(n, "vendor/") {
			if len(present) < 1500 {
				present = append(present, n)
				if s := strings.TrimPrefix(n, "vendor/"); !known[s] {
					absent = append(absent, s)
				}
			}
		} else if i%40 == 0 {
			present = append(present, n)
			if !known["vendor/"+n] {
				absent = append(absent, "vendor/"+n)
			}
		}
	}
	rep.Stat("listing_present_names", int64(len(present)))
	rep.Stat("listing_absent_names", int64(len(absent)))
	before := map[string]uintptr{}
	sweep := func(stage string) {
		for _, n := range present {
			a, err := findFunc(n)
			rep.Eval(1)
			if err != nil {
				rep.Violate("C10/present-function-not-found", fmt.Sprintf("%s: FindFuncByName(%q): %v", stage, n, err), map[string]interface{}{"name": n, "stage": stage})
				return
			}
			if b, ok := before[n]; ok && b != a {
				rep.Violate("C10/function-address-wrong-in-later-lookup", fmt.Sprintf("%s: FindFuncByName(%q) = %#x, before the listing %#x", stage, n, a, b), map[string]interface{}{"name": n, "stage": stage})
				return
			}
			before[n] = a
		}
		for _, n := range absent {
			a, err := findFunc(n)
			rep.Eval(1)
			if err == nil {
				rep.Violate("C10/absent-function-resolved", fmt.Sprintf("%s: FindFuncByName(%q) (no such function in the binary) = %#x", stage, n, a), map[string]interface{}{"name": n, "stage": stage})
				return
			}
		}
		rep.Class("listing/" + stage)
	}
	sweep("before the listing")
	all, lerr := unexports2.AllFunctions()
	rep.Stat("listing_all_functions", int64(len(all)))
	if lerr != nil {
		rep.Note("listing", "AllFunctions: "+lerr.Error())
	}
	sweep("after AllFunctions")
	if _, terr := unexports2.GetSymbolTable(); terr != nil {
		rep.Note("listing", "GetSymbolTable: "+terr.Error())
	}
	if _, lerr = unexports2.AllFunctions(); lerr != nil {
		rep.Note("listing", "AllFunctions (second): "+lerr.Error())
	}
	sweep("after GetSymbolTable and a second AllFunctions")
	if len(present) < 100 || len(absent) < 100 {
		rep.Inconclusive = fmt.Sprintf("too few names (%d present, %d absent)", len(present), len(absent))
	}
}
