//go:build go1.21

package c10

import (
	"bufio"
	"debug/elf"
	"debug/gosym"
	"fmt"
	mocker "github.com/tencent/goom"
	"os"
	"path/filepath"
	"runtime"
	"sort"
	"strings"
	"sync"
	"syscall"
	"testing"
	"unicode"
	"unsafe"

	_ "net/http"

	"github.com/tencent/goom/internal/unexports2"
	acopy "github.com/tencent/goom/zzverif/c10/a/github.com/tencent/goom/zzverif/c10/vars"
	tpcopy "github.com/tencent/goom/zzverif/c10/third_party/github.com/tencent/goom/zzverif/c10/vars"
	"github.com/tencent/goom/zzverif/c10/vars"
	"github.com/tencent/goom/zzverif/vmon"
)

const varPkg = "github.com/tencent/goom/zzverif/c10/vars"

// the copies are linked in (their variables exist in the binary under the same names behind a longer path)
var CopiesLinked = len(acopy.Addrs) + len(tpcopy.Addrs)

var entriesOf = map[string][]uintptr{}

func ownFuncNames() ([]string, error) {
	exe, err := os.Executable()
	if err != nil {
		return nil, err
	}
	f, err := elf.Open(exe)
	if err != nil {
		return nil, err
	}
	defer f.Close()
	ts, ps := f.Section(".text"), f.Section(".gopclntab")
	if ts == nil || ps == nil {
		return nil, fmt.Errorf("no .text/.gopclntab section")
	}
	pd, err := ps.Data()
	if err != nil {
		return nil, err
	}
	tab, err := gosym.NewTable(nil, gosym.NewLineTable(pd, ts.Addr))
	if err != nil {
		return nil, err
	}
	var out []string
	// under external linking the Go text does not start at the .text section's address: measure the bias on ourselves
	bias := uintptr(0)
	if me := tab.LookupFunc("github.com/tencent/goom/zzverif/c10.ownFuncNames"); me != nil {
		bias = vmon.FuncCodePtr(ownFuncNames) - uintptr(me.Entry)
	}
	for i := range tab.Funcs {
		out = append(out, tab.Funcs[i].Name)
		entriesOf[tab.Funcs[i].Name] = append(entriesOf[tab.Funcs[i].Name], uintptr(tab.Funcs[i].Entry)+bias)
	}
	return out, nil
}

func findFunc(name string) (a uintptr, err error) {
	defer func() {
		if r := recover(); r != nil {
			err = fmt.Errorf("panic: %v", r)
		}
	}()
	return unexports2.FindFuncByName(name)
}

func findVar(name string) (a uintptr, err error) {
	defer func() {
		if r := recover(); r != nil {
			err = fmt.Errorf("panic: %v", r)
		}
	}()
	return unexports2.FindVarByName(name)
}

func TestC10(t *testing.T) {
	rep := vmon.NewReport("C10")
	defer rep.Write()
	mode := os.Getenv("VERIF_C10_MODE")
	rng := vmon.NewRng(vmon.Seed(), 10)
	listFile := os.Getenv("VERIF_C10_NAMES")
	names, err := ownFuncNames()
	if err != nil {
		// stripped of the section (PIE): take the names the default-mode binary of the same sources wrote
		rep.Note("enumeration:"+mode, "own pclntab section unreadable ("+err.Error()+"); using the name list of the default build")
		f, e2 := os.Open(listFile)
		if e2 != nil {
			rep.Inconclusive = "no function names available: " + err.Error()
			return
		}
		sc := bufio.NewScanner(f)
		sc.Buffer(make([]byte, 1<<20), 1<<20)
		for sc.Scan() {
			names = append(names, sc.Text())
		}
		f.Close()
	} else if mode == "default" && listFile != "" {
		os.WriteFile(listFile, []byte(strings.Join(names, "\n")), 0o644)
	}
	known := map[string]bool{}
	for _, n := range names {
		known[n] = true
	}
	// independent second source: the ELF symbol table (present unless stripped with -s). A name can occur twice in the
	// pclntab (a Go function and its compiler-generated ABI wrapper share the name); the symbol of exactly that name is
	// the function itself.
	elfFuncs := map[string]uintptr{}
	var elfOnly []string
	if exe, err := os.Executable(); err == nil {
		if ef, err := elf.Open(exe); err == nil {
			if syms, err := ef.Symbols(); err == nil {
				for _, sy := range syms {
					if elf.ST_TYPE(sy.Info) == elf.STT_FUNC && sy.Value != 0 {
						if _, dup := elfFuncs[sy.Name]; !dup {
							elfFuncs[sy.Name] = uintptr(sy.Value)
						}
					}
				}
			}
			ef.Close()
		}
	}
	for n := range elfFuncs {
		if !known[n] {
			elfOnly = append(elfOnly, n)
		}
	}
	sort.Strings(elfOnly)
	rep.Stat("elf_function_symbols:"+mode, int64(len(elfFuncs)))
	exact, errs := 0, 0
	for _, n := range names {
		a, err := findFunc(n)
		rep.Eval(1)
		if err != nil {
			errs++
			if mode != "pie" {
				rep.Violate("C10/present-function-not-found", fmt.Sprintf("[%s] FindFuncByName(%q): %v, but the function is in the binary's function table", mode, n, err), map[string]interface{}{"name": n, "mode": mode})
			}
			continue
		}
		f := runtime.FuncForPC(a)
		if f == nil || f.Entry() != a {
			rep.Violate("C10/function-address-not-an-entry", fmt.Sprintf("[%s] FindFuncByName(%q) = %#x which is not the entry of any function (FuncForPC -> %v)", mode, n, a, fname(f)), map[string]interface{}{"name": n, "mode": mode})
			continue
		}
		// the runtime prints names with everything between the first '[' and the last ']' as "...", and has no name for non-Go (cgo) code
		if rn := f.Name(); rn != n && rn != normalise(n) && rn != "" {
			rep.Violate("C10/function-address-of-other-symbol", fmt.Sprintf("[%s] FindFuncByName(%q) = %#x which is the entry of %q", mode, n, a, f.Name()), map[string]interface{}{"name": n, "mode": mode})
			continue
		}
		// a name can occur twice in the pclntab: the function and a compiler-generated ABI wrapper ("<autogenerated>").
		// The symbol a user means (and patches) is the function, never the wrapper.
		if file, _ := f.FileLine(a); file == "<autogenerated>" {
			realOne := uintptr(0)
			for _, e := range entriesOf[n] {
				if ff := runtime.FuncForPC(e); ff != nil {
					if fl, _ := ff.FileLine(e); fl != "<autogenerated>" {
						realOne = e
					}
				}
			}
			if realOne != 0 {
				rep.Violate("C10/function-address-of-other-symbol", fmt.Sprintf("[%s] FindFuncByName(%q) = %#x which is the compiler-generated wrapper; the function itself is at %#x (%s)", mode, n, a, realOne, describe(realOne)), map[string]interface{}{"name": n, "mode": mode})
				continue
			}
		}
		exact++
	}
	// function symbols that are in the ELF symbol table but not in the pclntab (C code, assembly labels): an error or the exact address
	for _, n := range elfOnly {
		a, err := findFunc(n)
		rep.Eval(1)
		if err == nil && a != elfFuncs[n] {
			rep.Violate("C10/function-address-wrong", fmt.Sprintf("[%s] FindFuncByName(%q) (ELF symbol only) = %#x, the symbol is at %#x", mode, n, a, elfFuncs[n]), map[string]interface{}{"name": n, "mode": mode})
		}
	}
	rep.Stat("elf_only_function_symbols:"+mode, int64(len(elfOnly)))
	rep.Stat("functions_exact:"+mode, int64(exact))
	rep.Stat("functions_error:"+mode, int64(errs))
	rep.Class(fmt.Sprintf("%s/functions/exact=%v/error=%v", mode, exact > 0, errs > 0))
	// a function we hold directly: address must equal the func value's code pointer
	if a, err := findFunc("github.com/tencent/goom/zzverif/c10.TestC10"); err == nil {
		if a != vmon.FuncCodePtr(TestC10) {
			rep.Violate("C10/function-address-wrong", fmt.Sprintf("[%s] TestC10 at %#x, lookup says %#x", mode, vmon.FuncCodePtr(TestC10), a), nil)
		}
	}
	// absent and near-miss function names
	miss := 0
	for i := 0; i < 3000 && len(names) > 0; i++ {
		n := mutate(names[rng.Intn(len(names))], rng)
		if known[n] {
			continue
		}
		a, err := findFunc(n)
		rep.Eval(1)
		miss++
		if err == nil {
			rep.Violate("C10/absent-function-resolved", fmt.Sprintf("[%s] FindFuncByName(%q) (not in the binary) = %#x (%s)", mode, n, a, fname(runtime.FuncForPC(a))), map[string]interface{}{"name": n, "mode": mode})
		}
	}
	rep.Stat("near_miss_function_names:"+mode, int64(miss))
	// variables
	vexact, verr := 0, 0
	for n, p := range vars.Addrs {
		a, err := findVar(varPkg + "." + n)
		rep.Eval(1)
		if err != nil {
			verr++
			if mode == "default" || mode == "strip-w" || mode == "external" {
				// the symbol table is there and the image is not position independent: a present variable resolves
				rep.Violate("C10/present-variable-not-found", fmt.Sprintf("[%s] FindVarByName(%s): %v, but the variable is in the binary at %#x", mode, n, err, uintptr(p)), map[string]interface{}{"name": n, "mode": mode})
			}
			continue
		}
		if a != uintptr(p) {
			rep.Violate("C10/variable-address-wrong", fmt.Sprintf("[%s] FindVarByName(%s) = %#x, &%s = %#x", mode, n, a, n, uintptr(p)), map[string]interface{}{"name": n, "mode": mode})
			continue
		}
		vexact++
	}
	// the same name asked for as the other kind of symbol first (a miss), then as what it is: a miss in one table says
	// nothing about the other
	if mode != "pie" {
		cross := 0
		for i, n := range names {
			if i%97 != 0 {
				continue
			}
			if _, err := findVar(n); err == nil {
				continue // a variable of that very name exists: nothing to learn here
			}
			a, err := findFunc(n)
			rep.Eval(1)
			cross++
			if err != nil {
				rep.Violate("C10/present-function-not-found", fmt.Sprintf("[%s] FindFuncByName(%q) fails after FindVarByName of the same name failed: %v", mode, n, err), map[string]interface{}{"name": n, "mode": mode})
				break
			}
			if f := runtime.FuncForPC(a); f == nil || f.Entry() != a {
				rep.Violate("C10/function-address-not-an-entry", fmt.Sprintf("[%s] FindFuncByName(%q) after a failed variable lookup = %#x", mode, n, a), nil)
			}
		}
		if mode == "default" || mode == "strip-w" || mode == "external" {
			for n, p := range vars.Addrs {
				if _, err := findFunc(varPkg + "." + n); err == nil {
					continue
				}
				a, err := findVar(varPkg + "." + n)
				rep.Eval(1)
				cross++
				if err != nil || a != uintptr(p) {
					rep.Violate("C10/present-variable-not-found", fmt.Sprintf("[%s] FindVarByName(%s) after FindFuncByName of the same name failed: %#x, %v (real address %#x)", mode, n, a, err, uintptr(p)), map[string]interface{}{"name": n, "mode": mode})
					break
				}
			}
		}
		rep.Stat("cross_kind_lookups:"+mode, int64(cross))
	}
	// the same variables in fixed orders (the sweep above follows map iteration, which differs from run to run): by
	// descending and ascending address, ties broken by name either way, and by descending name. A lookup that keeps
	// anything from the previous one (a resume position, a last hit) meets every neighbour pair in both directions
	if mode == "default" || mode == "strip-w" || mode == "external" {
		type nv struct {
			n string
			a uintptr
		}
		var all []nv
		for n, p := range vars.Addrs {
			all = append(all, nv{n, uintptr(p)})
		}
		orders := []func(x, y nv) bool{
			func(x, y nv) bool { return x.a > y.a || (x.a == y.a && x.n > y.n) },
			func(x, y nv) bool { return x.a > y.a || (x.a == y.a && x.n < y.n) },
			func(x, y nv) bool { return x.a < y.a || (x.a == y.a && x.n < y.n) },
			func(x, y nv) bool { return x.n > y.n },
		}
		ordered := 0
		for oi, less := range orders {
			sort.Slice(all, func(i, j int) bool { return less(all[i], all[j]) })
			for _, v := range all {
				a, err := findVar(varPkg + "." + v.n)
				rep.Eval(1)
				ordered++
				if err != nil {
					rep.Violate("C10/present-variable-not-found", fmt.Sprintf("[%s] FindVarByName(%s) in fixed order %d: %v, but the variable is in the binary at %#x", mode, v.n, oi, err, v.a), map[string]interface{}{"name": v.n, "mode": mode})
					break
				}
				if a != v.a {
					rep.Violate("C10/variable-address-wrong", fmt.Sprintf("[%s] FindVarByName(%s) in fixed order %d = %#x, &%s = %#x", mode, v.n, oi, a, v.n, v.a), map[string]interface{}{"name": v.n, "mode": mode})
					break
				}
			}
		}
		rep.Stat("ordered_variable_lookups:"+mode, int64(ordered))
	}
	rep.Stat("variables_exact:"+mode, int64(vexact))
	rep.Stat("variables_error:"+mode, int64(verr))
	rep.Class(fmt.Sprintf("%s/variables/exact=%v/error=%v", mode, vexact > 0, verr > 0))
	vmiss := 0
	for n := range vars.Addrs {
		for k := 0; k < 3; k++ {
			m := mutate(n, rng)
			if _, ok := vars.Addrs[m]; ok {
				continue
			}
			a, err := findVar(varPkg + "." + m)
			rep.Eval(1)
			vmiss++
			if err == nil {
				rep.Violate("C10/absent-variable-resolved", fmt.Sprintf("[%s] FindVarByName(%s) (no such variable) = %#x", mode, m, a), map[string]interface{}{"name": m, "mode": mode})
			}
		}
	}
	for _, n := range []string{"", ".", varPkg, varPkg + ".", "runtime.nosuchvar", "no/such/pkg.v"} {
		if a, err := findVar(n); err == nil {
			rep.Violate("C10/absent-variable-resolved", fmt.Sprintf("[%s] FindVarByName(%q) = %#x", mode, n, a), nil)
		}
		if a, err := findFunc(n); err == nil {
			rep.Violate("C10/absent-function-resolved", fmt.Sprintf("[%s] FindFuncByName(%q) = %#x", mode, n, a), nil)
		}
		rep.Eval(2)
	}
	// a few std variables whose address we can take
	if a, err := findVar("os.Args"); err == nil && a != uintptr(unsafe.Pointer(&os.Args)) {
		rep.Violate("C10/variable-address-wrong", fmt.Sprintf("[%s] os.Args at %p, lookup says %#x", mode, &os.Args, a), nil)
	}
	// a function handed out as a callable value (ExposeFunction) and looked up by name again, three times over: the value
	// calls the function, and the by-name answers stay what they were
	for _, ex := range []struct {
		name string
		real uintptr
		want string
	}{{"github.com/tencent/goom/zzverif/c10.tag", vmon.FuncCodePtr(tag), "func"}, {"github.com/tencent/goom/zzverif/c10.c10.tag", vmon.FuncCodePtr(c10.tag), ""}} {
		for round := 1; round <= 3; round++ {
			rep.Eval(2)
			before, errB := findFunc(ex.name)
			var got string
			var perr interface{}
			var ferr error
			func() {
				defer func() { perr = recover() }()
				if ex.want == "" {
					_, ferr = unexports2.ExposeFunction(ex.name, (func(c10) string)(nil))
					return
				}
				f, err := unexports2.ExposeFunction(ex.name, (func() string)(nil))
				ferr = err
				if err == nil {
					if p := vmon.FuncCodePtr(f); p != ex.real {
						rep.Violate("C10/function-address-wrong", fmt.Sprintf("[%s] ExposeFunction(%q) round %d yields a function at %#x, real entry %#x", mode, ex.name, round, p, ex.real), nil)
						return
					}
					got = f.(func() string)()
				}
			}()
			if perr != nil {
				rep.Violate("C10/expose-function-panics", fmt.Sprintf("[%s] ExposeFunction(%q) round %d: %v", mode, ex.name, round, perr), nil)
			} else if ferr == nil && ex.want != "" && got != ex.want {
				rep.Violate("C10/function-address-wrong", fmt.Sprintf("[%s] the function ExposeFunction(%q) returned answers %q, want %q", mode, ex.name, got, ex.want), nil)
			}
			after, errA := findFunc(ex.name)
			if (errB == nil) != (errA == nil) || after != before {
				rep.Violate("C10/answer-changed-by-earlier-lookup", fmt.Sprintf("[%s] FindFuncByName(%q) = %#x (err %v) before ExposeFunction round %d and %#x (err %v) after it", mode, ex.name, before, errB, round, after, errA), map[string]interface{}{"name": ex.name, "round": round})
			}
			if errA == nil && after != ex.real {
				rep.Violate("C10/function-address-wrong", fmt.Sprintf("[%s] FindFuncByName(%q) after ExposeFunction round %d = %#x, real entry %#x", mode, ex.name, round, after, ex.real), nil)
			}
		}
	}
	rep.Class(mode + "/expose-function-then-lookup")
	rep.Stat("near_miss_variable_names:"+mode, int64(vmiss))
	rep.Sample(map[string]interface{}{"mode": mode, "functions_exact": exact, "functions_error": errs, "variables_exact": vexact, "variables_error": verr})
}

func describe(a uintptr) string {
	f := runtime.FuncForPC(a)
	if f == nil {
		return "no function"
	}
	file, line := f.FileLine(a)
	return fmt.Sprintf("%s at %s:%d", f.Name(), file, line)
}

func normalise(n string) string {
	i, j := strings.IndexByte(n, '['), strings.LastIndexByte(n, ']')
	if i < 0 || j < i {
		return n
	}
	return n[:i] + "[...]" + n[j+1:]
}

func fname(f *runtime.Func) string {
	if f == nil {
		return "<none>"
	}
	return f.Name()
}

func mutate(s string, r *vmon.Rng) string {
	rs := []rune(s)
	if len(rs) == 0 {
		return "x"
	}
	i := r.Intn(len(rs))
	switch r.Intn(5) {
	case 0:
		return string(rs[:i]) + string(rs[i+1:])
	case 1:
		rs[i] = rs[i] + 1
		return string(rs)
	case 2:
		if unicode.IsUpper(rs[i]) {
			rs[i] = unicode.ToLower(rs[i])
		} else {
			rs[i] = unicode.ToUpper(rs[i])
		}
		return string(rs)
	case 3:
		return s + "x"
	default:
		return s[:len(s)-1]
	}
}

// TestC10Concurrent: goroutines look up different names at the same time (parallel tests each applying an
// unexported mock do this); every answer is checked like in the sequential pass.
func TestC10Concurrent(t *testing.T) {
	rep := vmon.NewReport("C10")
	defer rep.Write()
	names, err := ownFuncNames()
	if err != nil || len(names) < 100 {
		rep.Inconclusive = "cannot enumerate functions"
		return
	}
	// only names whose sequential lookup is exact
	var good []string
	want := map[string]uintptr{}
	for _, n := range names {
		if a, err := findFunc(n); err == nil {
			if f := runtime.FuncForPC(a); f != nil && f.Entry() == a {
				good = append(good, n)
				want[n] = a
			}
		}
		if len(good) >= 400 {
			break
		}
	}
	G := 8
	per := vmon.EnvInt("VERIF_C10_CONC", 20000)
	bar := vmon.NewSpinBarrier(G)
	var wg sync.WaitGroup
	for g := 0; g < G; g++ {
		wg.Add(1)
		go func(g int) {
			defer wg.Done()
			r := vmon.NewRng(vmon.Seed(), uint64(10000+g))
			bar.Wait()
			bad := 0
			for i := 0; i < per && bad < 3; i++ {
				// few hot names so that different goroutines alternate between them
				n := good[r.Intn(8)+8*(i%2)]
				if r.Chance(1, 8) {
					n = good[r.Intn(len(good))]
				}
				a, err := findFunc(n)
				if err != nil || a != want[n] {
					bad++
					rep.Violate("C10/concurrent-lookup-wrong", fmt.Sprintf("concurrent FindFuncByName(%q) = %#x (%v), sequential lookup gave %#x (%s)", n, a, err, want[n], fname(runtime.FuncForPC(a))), map[string]interface{}{"name": n})
				}
			}
			rep.Eval(int64(per))
		}(g)
	}
	wg.Wait()
	rep.Class("concurrent/functions")
	// variables concurrently as well
	var vn []string
	for n := range vars.Addrs {
		vn = append(vn, n)
	}
	for g := 0; g < G; g++ {
		wg.Add(1)
		go func(g int) {
			defer wg.Done()
			r := vmon.NewRng(vmon.Seed(), uint64(20000+g))
			for i := 0; i < per/10; i++ {
				n := vn[r.Intn(len(vn))]
				a, err := findVar(varPkg + "." + n)
				if err == nil && a != uintptr(vars.Addrs[n]) {
					rep.Violate("C10/concurrent-lookup-wrong", fmt.Sprintf("concurrent FindVarByName(%s) = %#x, &%s = %#x", n, a, n, uintptr(vars.Addrs[n])), nil)
					return
				}
			}
			rep.Eval(int64(per / 10))
		}(g)
	}
	wg.Wait()
	rep.Class("concurrent/variables")
}

// TestC10Fault: the very first lookup of the process happens while the executable cannot be opened (no file
// descriptors left); afterwards descriptors are available again. Whatever goom remembers from the failed attempt, every
// later lookup yields an error or the exact address - in every link mode (the externally linked binary is the one whose
// table addresses differ from the run-time addresses).
func TestC10Fault(t *testing.T) {
	rep := vmon.NewReport("C10")
	defer rep.Write()
	mode := os.Getenv("VERIF_C10_MODE")
	var old syscall.Rlimit
	if err := syscall.Getrlimit(syscall.RLIMIT_NOFILE, &old); err != nil {
		rep.Inconclusive = "getrlimit: " + err.Error()
		return
	}
	lim := syscall.Rlimit{Cur: 0, Max: old.Max}
	if err := syscall.Setrlimit(syscall.RLIMIT_NOFILE, &lim); err != nil {
		rep.Inconclusive = "setrlimit: " + err.Error()
		return
	}
	self := "github.com/tencent/goom/zzverif/c10.TestC10Fault"
	_, ferr := findFunc(self)
	_, verr := findVar(varPkg + ".Vnp_init_000")
	syscall.Setrlimit(syscall.RLIMIT_NOFILE, &old)
	rep.Eval(2)
	rep.Note("fault:"+mode, fmt.Sprintf("first lookups with RLIMIT_NOFILE=0: function -> %v, variable -> %v", ferr, verr))
	if ferr == nil && verr == nil {
		rep.Stat("fault_not_effective:"+mode, 1)
	}
	exact, errs, vexact, verrs := sweepLater(rep, mode, "after a first lookup that could not open the executable", self, vmon.FuncCodePtr(TestC10Fault))
	rep.Stat("after_fault_functions_exact:"+mode, int64(exact))
	rep.Stat("after_fault_functions_error:"+mode, int64(errs))
	rep.Stat("after_fault_variables_exact:"+mode, int64(vexact))
	rep.Stat("after_fault_variables_error:"+mode, int64(verrs))
	rep.Class(fmt.Sprintf("%s/after-fault/exact=%v/error=%v", mode, exact+vexact > 0, errs+verrs > 0))
}

// sweepLater: every seventh function and every variable, looked up now; each answer an error or exact.
func sweepLater(rep *vmon.Report, mode, what, self string, selfPtr uintptr) (exact, errs, vexact, verrs int) {
	names, _ := ownFuncNames()
	for i, n := range names {
		if i%7 != 0 {
			continue
		}
		a, err := findFunc(n)
		rep.Eval(1)
		if err != nil {
			errs++
			continue
		}
		f := runtime.FuncForPC(a)
		if f == nil || f.Entry() != a || (f.Name() != n && f.Name() != normalise(n) && f.Name() != "") {
			rep.Violate("C10/function-address-wrong-in-later-lookup", fmt.Sprintf("[%s] "+what+", FindFuncByName(%q) = %#x which is %s", mode, n, a, describe(a)), map[string]interface{}{"name": n, "mode": mode})
			if exact+errs > 50 {
				break
			}
			continue
		}
		exact++
	}
	if a, err := findFunc(self); err == nil && a != selfPtr {
		rep.Violate("C10/function-address-wrong-in-later-lookup", fmt.Sprintf("[%s] the test function is at %#x, a later lookup says %#x", mode, selfPtr, a), nil)
	}
	for n, p := range vars.Addrs {
		a, err := findVar(varPkg + "." + n)
		rep.Eval(1)
		if err != nil {
			verrs++
			continue
		}
		if a != uintptr(p) {
			rep.Violate("C10/variable-address-wrong-in-later-lookup", fmt.Sprintf("[%s] later FindVarByName(%s) = %#x, &%s = %#x", mode, n, a, n, uintptr(p)), map[string]interface{}{"name": n, "mode": mode})
			continue
		}
		vexact++
	}
	return
}

// TestC10VarFirst: a fresh process whose very first lookup is a VARIABLE lookup (whatever goom measures once per
// process must not depend on which kind of symbol is asked for first); every later function and variable lookup is
// exact wherever the symbol table is intact.
func TestC10VarFirst(t *testing.T) {
	rep := vmon.NewReport("C10")
	defer rep.Write()
	mode := os.Getenv("VERIF_C10_MODE")
	first := "Vnp_init_000"
	a, err := findVar(varPkg + "." + first)
	rep.Eval(1)
	if err == nil && a != uintptr(vars.Addrs[first]) {
		rep.Violate("C10/variable-address-wrong", fmt.Sprintf("[%s] first lookup of the process FindVarByName(%s) = %#x, real address %#x", mode, first, a, uintptr(vars.Addrs[first])), nil)
	}
	self := "github.com/tencent/goom/zzverif/c10.TestC10VarFirst"
	exact, errs, vexact, verrs := sweepLater(rep, mode, "in a process whose first lookup was a variable", self, vmon.FuncCodePtr(TestC10VarFirst))
	if mode != "pie" && mode != "strip-s" && (errs > 0 || verrs > 0) {
		rep.Violate("C10/present-function-not-found", fmt.Sprintf("[%s] in a process whose first lookup was a variable, %d function and %d variable lookups of present symbols failed", mode, errs, verrs), nil)
	}
	rep.Stat("var_first_functions_exact:"+mode, int64(exact))
	rep.Stat("var_first_variables_exact:"+mode, int64(vexact))
	rep.Class(fmt.Sprintf("%s/variable-first/exact=%v/error=%v", mode, exact+vexact > 0, errs+verrs > 0))
}

// TestC10Argv0: the program has rewritten os.Args before the first lookup (command-line tools under test do: os.Args =
// []string{"go", "version"}); the name there is another Go program on PATH, a program that does not exist, or a relative
// path that no longer resolves after a chdir. The symbol table that answers is still the running executable's.
func TestC10Argv0(t *testing.T) {
	rep := vmon.NewReport("C10")
	defer rep.Write()
	mode := os.Getenv("VERIF_C10_MODE")
	kind := os.Getenv("VERIF_C10_ARGV0")
	switch kind {
	case "other-go-program":
		os.Args = []string{"go", "version"}
	case "missing-program":
		os.Args = []string{"no-such-program-c10", "-v"}
	case "relative-after-chdir":
		if exe, err := os.Executable(); err == nil {
			os.Chdir(filepath.Dir(exe))
			os.Args = []string{"./" + filepath.Base(exe)}
			os.Chdir("/")
		}
	}
	self := "github.com/tencent/goom/zzverif/c10.TestC10Argv0"
	what := "in a process whose os.Args[0] names " + kind
	exact, errs, vexact, verrs := sweepLater(rep, mode, what, self, vmon.FuncCodePtr(TestC10Argv0))
	if errs > 0 || verrs > 0 {
		rep.Violate("C10/present-function-not-found", fmt.Sprintf("[%s] %s, %d function and %d variable lookups of present symbols failed", mode, what, errs, verrs), map[string]interface{}{"argv0": kind})
	}
	rep.Stat("argv0_functions_exact:"+kind, int64(exact))
	rep.Stat("argv0_variables_exact:"+kind, int64(vexact))
	rep.Class(fmt.Sprintf("%s/argv0=%s/exact=%v/error=%v", mode, kind, exact+vexact > 0, errs+verrs > 0))
}

// a type named exactly like the package, with a method named like a package-level function
type c10 struct{ v int }

//go:noinline
func (c c10) tag() string { return "method" }

//go:noinline
func tag() string { return "func" }

//go:noinline
func size() int { return 1 }

// TestC10Names: names given to the builder's by-name lookups are taken literally - "T.m" is the method m of T even when
// T is called like the package, a name that only exists without its receiver is absent.
func TestC10Names(t *testing.T) {
	rep := vmon.NewReport("C10")
	defer rep.Write()
	type res struct {
		perr interface{}
		m, f string
	}
	run := func(do func(b *mocker.Builder)) (r res) {
		b := mocker.Create()
		func() {
			defer func() { r.perr = recover() }()
			do(b)
		}()
		r.m, r.f = c10{}.tag(), tag()
		func() { defer func() { recover() }(); b.Reset() }()
		return
	}
	r := run(func(b *mocker.Builder) {
		b.ExportFunc("c10.tag").As(func(c c10) string { return "" }).Return("mocked")
	})
	rep.Eval(1)
	rep.Class("names/type-called-like-the-package")
	if r.perr != nil || r.m != "mocked" || r.f != "func" {
		rep.Violate("C10/function-address-of-other-symbol", fmt.Sprintf(`ExportFunc("c10.tag") (method tag of type c10 in package c10): panic %v, c10{}.tag() = %q (want mocked), tag() = %q (want func)`, r.perr, r.m, r.f), nil)
	}
	r = run(func(b *mocker.Builder) {
		b.ExportFunc("tag").As(func() string { return "" }).Return("mocked")
	})
	rep.Eval(1)
	if r.perr != nil || r.m != "method" || r.f != "mocked" {
		rep.Violate("C10/function-address-of-other-symbol", fmt.Sprintf(`ExportFunc("tag"): panic %v, c10{}.tag() = %q (want method), tag() = %q (want mocked)`, r.perr, r.m, r.f), nil)
	}
	r = run(func(b *mocker.Builder) {
		b.ExportFunc("c10.size").As(func(c c10) int { return 0 }).Return(5)
	})
	rep.Eval(1)
	rep.Class("names/absent-method-of-present-function-name")
	if r.perr == nil || size() != 1 {
		rep.Violate("C10/absent-function-resolved", fmt.Sprintf(`ExportFunc("c10.size") (no such method; a function size exists): accepted, size() = %d`, size()), nil)
	}
	if (c10{}).tag() != "method" || tag() != "func" {
		rep.Violate("C10/function-address-of-other-symbol", "not original after Reset", nil)
	}
	// a symbol whose name ends in "-fm" (the wrapper the compiler makes for a method value) is a symbol of its own: asked
	// for by that name it is the wrapper that is found and patched, not the method; a name that only exists without the
	// suffix is absent with it
	{
		st := &stepper{n: 1}
		viaValue := st.step // makes (*stepper).step-fm exist
		b := mocker.Create()
		var perr interface{}
		func() {
			defer func() { perr = recover() }()
			b.ExportFunc("(*stepper).step-fm").Apply(func() int { return -1 })
		}()
		rep.Eval(2)
		rep.Class("names/method-value-wrapper")
		if perr == nil {
			if direct := st.step(); direct != 2 {
				rep.Violate("C10/function-address-of-other-symbol", fmt.Sprintf(`ExportFunc("(*stepper).step-fm") (the method-value wrapper): the method itself is diverted, st.step() = %d, want 2`, direct), nil)
			}
		}
		if perr != nil {
			rep.Note("method-value-wrapper", fmt.Sprintf("the wrapper symbol is not in the table: %v", perr))
		} else if got := viaValue(); got != -1 {
			rep.Violate("C10/function-address-wrong", fmt.Sprintf(`ExportFunc("(*stepper).step-fm").Apply: the call through the method value gives %d, want the callback's -1`, got), nil)
		}
		func() { defer func() { recover() }(); b.Reset() }()
		b2 := mocker.Create()
		perr = nil
		func() {
			defer func() { perr = recover() }()
			b2.ExportFunc("tag-fm").Apply(func() string { return "mocked" })
		}()
		if perr == nil || tag() != "func" {
			rep.Violate("C10/absent-function-resolved", fmt.Sprintf(`ExportFunc("tag-fm") (no such symbol; tag exists): accepted (panic %v), tag() = %q`, perr, tag()), nil)
		}
		func() { defer func() { recover() }(); b2.Reset() }()
		if st.step() != 2 || viaValue() != 2 {
			rep.Violate("C10/function-address-of-other-symbol", "stepper.step not original after Reset", nil)
		}
	}
}

type stepper struct{ n int }

//go:noinline
func (s *stepper) step() int { return s.n + 1 }

// TestC10ByNameMany: many distinct functions mocked by name one after the other in one process, then again in another
// order: every by-name mock lands on the function of that name and on no other, however many names were asked before.
func TestC10ByNameMany(t *testing.T) {
	rep := vmon.NewReport("C10")
	defer rep.Write()
	rng := vmon.NewRng(uint64(vmon.EnvInt("VERIF_SEED", 1)), 77)
	n := len(qPop)
	orders := [][]int{}
	asc, desc, shuf := make([]int, n), make([]int, n), make([]int, n)
	for i := 0; i < n; i++ {
		asc[i], desc[i], shuf[i] = i, n-1-i, i
	}
	for i := n - 1; i > 0; i-- {
		j := rng.Intn(i + 1)
		shuf[i], shuf[j] = shuf[j], shuf[i]
	}
	orders = append(orders, asc, asc, desc, shuf)
	mocks := 0
	for oi, order := range orders {
		for _, i := range order {
			name := fmt.Sprintf("q%02d", i)
			b := mocker.Create()
			var perr interface{}
			func() {
				defer func() { perr = recover() }()
				if oi%2 == 0 {
					b.ExportFunc(name).As(func(int) int { return 0 }).Return(900000 + i)
				} else {
					v := 900000 + i
					b.ExportFunc(name).Apply(func(int) int { return v })
				}
			}()
			rep.Eval(int64(n))
			mocks++
			if perr != nil {
				rep.Violate("C10/present-function-not-found", fmt.Sprintf("pass %d: ExportFunc(%q) panicked: %v", oi, name, perr), map[string]interface{}{"name": name})
				func() { defer func() { recover() }(); b.Reset() }()
				break
			}
			bad := ""
			for j, f := range qPop {
				want := 1 + 1000*(j+1)
				if j == i {
					want = 900000 + i
				}
				if got := f(1); got != want {
					bad += fmt.Sprintf(" q%02d(1)=%d(want %d)", j, got, want)
				}
			}
			b.Reset()
			if bad != "" {
				rep.Violate("C10/function-address-of-other-symbol", fmt.Sprintf("pass %d (%d by-name mocks so far in this process): ExportFunc(%q) mocked, calls give:%s", oi, mocks, name, bad), map[string]interface{}{"name": name, "pass": oi})
				return
			}
		}
		rep.Class(fmt.Sprintf("by-name-many/pass-%d", oi))
	}
	rep.Stat("by_name_mocks_in_one_process", int64(mocks))
}
