//go:build go1.21

package c10

import (
	"bufio"
	"debug/elf"
	"debug/gosym"
	"fmt"
	"os"
	"runtime"
	"strings"
	"sync"
	"testing"
	"unicode"
	"unsafe"

	_ "net/http"

	"github.com/tencent/goom/internal/unexports2"
	"github.com/tencent/goom/zzverif/c10/vars"
	"github.com/tencent/goom/zzverif/vmon"
)

const varPkg = "github.com/tencent/goom/zzverif/c10/vars"

func ownFuncNames() ([]string, error) {
	exe, err := os.Executable()
	if err != nil {
		return nil, err
	}
	f, err := elf.Open(exe)
	if err != nil {
		return nil, err
	}
	defer f.Close()
	ts, ps := f.Section(".text"), f.Section(".gopclntab")
	if ts == nil || ps == nil {
		return nil, fmt.Errorf("no .text/.gopclntab section")
	}
	pd, err := ps.Data()
	if err != nil {
		return nil, err
	}
	tab, err := gosym.NewTable(nil, gosym.NewLineTable(pd, ts.Addr))
	if err != nil {
		return nil, err
	}
	var out []string
	for i := range tab.Funcs {
		out = append(out, tab.Funcs[i].Name)
	}
	return out, nil
}

func findFunc(name string) (a uintptr, err error) {
	defer func() {
		if r := recover(); r != nil {
			err = fmt.Errorf("panic: %v", r)
		}
	}()
	return unexports2.FindFuncByName(name)
}

func findVar(name string) (a uintptr, err error) {
	defer func() {
		if r := recover(); r != nil {
			err = fmt.Errorf("panic: %v", r)
		}
	}()
	return unexports2.FindVarByName(name)
}

func TestC10(t *testing.T) {
	rep := vmon.NewReport("C10")
	defer rep.Write()
	mode := os.Getenv("VERIF_C10_MODE")
	rng := vmon.NewRng(vmon.Seed(), 10)
	listFile := os.Getenv("VERIF_C10_NAMES")
	names, err := ownFuncNames()
	if err != nil {
		// stripped of the section (PIE): take the names the default-mode binary of the same sources wrote
		rep.Note("enumeration:"+mode, "own pclntab section unreadable ("+err.Error()+"); using the name list of the default build")
		f, e2 := os.Open(listFile)
		if e2 != nil {
			rep.Inconclusive = "no function names available: " + err.Error()
			return
		}
		sc := bufio.NewScanner(f)
		sc.Buffer(make([]byte, 1<<20), 1<<20)
		for sc.Scan() {
			names = append(names, sc.Text())
		}
		f.Close()
	} else if mode == "default" && listFile != "" {
		os.WriteFile(listFile, []byte(strings.Join(names, "\n")), 0o644)
	}
	known := map[string]bool{}
	for _, n := range names {
		known[n] = true
	}
	exact, errs := 0, 0
	for _, n := range names {
		a, err := findFunc(n)
		rep.Eval(1)
		if err != nil {
			errs++
			continue
		}
		f := runtime.FuncForPC(a)
		if f == nil || f.Entry() != a {
			rep.Violate("C10/function-address-not-an-entry", fmt.Sprintf("[%s] FindFuncByName(%q) = %#x which is not the entry of any function (FuncForPC -> %v)", mode, n, a, fname(f)), map[string]interface{}{"name": n, "mode": mode})
			continue
		}
		// the runtime prints names with everything between the first '[' and the last ']' as "...", and has no name for non-Go (cgo) code
		if rn := f.Name(); rn != n && rn != normalise(n) && rn != "" {
			rep.Violate("C10/function-address-of-other-symbol", fmt.Sprintf("[%s] FindFuncByName(%q) = %#x which is the entry of %q", mode, n, a, f.Name()), map[string]interface{}{"name": n, "mode": mode})
			continue
		}
		exact++
	}
	rep.Stat("functions_exact:"+mode, int64(exact))
	rep.Stat("functions_error:"+mode, int64(errs))
	rep.Class(fmt.Sprintf("%s/functions/exact=%v/error=%v", mode, exact > 0, errs > 0))
	// a function we hold directly: address must equal the func value's code pointer
	if a, err := findFunc("github.com/tencent/goom/zzverif/c10.TestC10"); err == nil {
		if a != vmon.FuncCodePtr(TestC10) {
			rep.Violate("C10/function-address-wrong", fmt.Sprintf("[%s] TestC10 at %#x, lookup says %#x", mode, vmon.FuncCodePtr(TestC10), a), nil)
		}
	}
	// absent and near-miss function names
	miss := 0
	for i := 0; i < 3000 && len(names) > 0; i++ {
		n := mutate(names[rng.Intn(len(names))], rng)
		if known[n] {
			continue
		}
		a, err := findFunc(n)
		rep.Eval(1)
		miss++
		if err == nil {
			rep.Violate("C10/absent-function-resolved", fmt.Sprintf("[%s] FindFuncByName(%q) (not in the binary) = %#x (%s)", mode, n, a, fname(runtime.FuncForPC(a))), map[string]interface{}{"name": n, "mode": mode})
		}
	}
	rep.Stat("near_miss_function_names:"+mode, int64(miss))
	// variables
	vexact, verr := 0, 0
	for n, p := range vars.Addrs {
		a, err := findVar(varPkg + "." + n)
		rep.Eval(1)
		if err != nil {
			verr++
			continue
		}
		if a != uintptr(p) {
			rep.Violate("C10/variable-address-wrong", fmt.Sprintf("[%s] FindVarByName(%s) = %#x, &%s = %#x", mode, n, a, n, uintptr(p)), map[string]interface{}{"name": n, "mode": mode})
			continue
		}
		vexact++
	}
	rep.Stat("variables_exact:"+mode, int64(vexact))
	rep.Stat("variables_error:"+mode, int64(verr))
	rep.Class(fmt.Sprintf("%s/variables/exact=%v/error=%v", mode, vexact > 0, verr > 0))
	vmiss := 0
	for n := range vars.Addrs {
		for k := 0; k < 3; k++ {
			m := mutate(n, rng)
			if _, ok := vars.Addrs[m]; ok {
				continue
			}
			a, err := findVar(varPkg + "." + m)
			rep.Eval(1)
			vmiss++
			if err == nil {
				rep.Violate("C10/absent-variable-resolved", fmt.Sprintf("[%s] FindVarByName(%s) (no such variable) = %#x", mode, m, a), map[string]interface{}{"name": m, "mode": mode})
			}
		}
	}
	for _, n := range []string{"", ".", varPkg, varPkg + ".", "runtime.nosuchvar", "no/such/pkg.v"} {
		if a, err := findVar(n); err == nil {
			rep.Violate("C10/absent-variable-resolved", fmt.Sprintf("[%s] FindVarByName(%q) = %#x", mode, n, a), nil)
		}
		if a, err := findFunc(n); err == nil {
			rep.Violate("C10/absent-function-resolved", fmt.Sprintf("[%s] FindFuncByName(%q) = %#x", mode, n, a), nil)
		}
		rep.Eval(2)
	}
	// a few std variables whose address we can take
	if a, err := findVar("os.Args"); err == nil && a != uintptr(unsafe.Pointer(&os.Args)) {
		rep.Violate("C10/variable-address-wrong", fmt.Sprintf("[%s] os.Args at %p, lookup says %#x", mode, &os.Args, a), nil)
	}
	rep.Stat("near_miss_variable_names:"+mode, int64(vmiss))
	rep.Sample(map[string]interface{}{"mode": mode, "functions_exact": exact, "functions_error": errs, "variables_exact": vexact, "variables_error": verr})
}

func normalise(n string) string {
	i, j := strings.IndexByte(n, '['), strings.LastIndexByte(n, ']')
	if i < 0 || j < i {
		return n
	}
	return n[:i] + "[...]" + n[j+1:]
}

func fname(f *runtime.Func) string {
	if f == nil {
		return "<none>"
	}
	return f.Name()
}

func mutate(s string, r *vmon.Rng) string {
	rs := []rune(s)
	if len(rs) == 0 {
		return "x"
	}
	i := r.Intn(len(rs))
	switch r.Intn(5) {
	case 0:
		return string(rs[:i]) + string(rs[i+1:])
	case 1:
		rs[i] = rs[i] + 1
		return string(rs)
	case 2:
		if unicode.IsUpper(rs[i]) {
			rs[i] = unicode.ToLower(rs[i])
		} else {
			rs[i] = unicode.ToUpper(rs[i])
		}
		return string(rs)
	case 3:
		return s + "x"
	default:
		return s[:len(s)-1]
	}
}

// TestC10Concurrent: goroutines look up different names at the same time (parallel tests each applying an
// unexported mock do this); every answer is checked like in the sequential pass.
func TestC10Concurrent(t *testing.T) {
	rep := vmon.NewReport("C10")
	defer rep.Write()
	names, err := ownFuncNames()
	if err != nil || len(names) < 100 {
		rep.Inconclusive = "cannot enumerate functions"
		return
	}
	// only names whose sequential lookup is exact
	var good []string
	want := map[string]uintptr{}
	for _, n := range names {
		if a, err := findFunc(n); err == nil {
			if f := runtime.FuncForPC(a); f != nil && f.Entry() == a {
				good = append(good, n)
				want[n] = a
			}
		}
		if len(good) >= 400 {
			break
		}
	}
	G := 8
	per := vmon.EnvInt("VERIF_C10_CONC", 20000)
	bar := vmon.NewSpinBarrier(G)
	var wg sync.WaitGroup
	for g := 0; g < G; g++ {
		wg.Add(1)
		go func(g int) {
			defer wg.Done()
			r := vmon.NewRng(vmon.Seed(), uint64(10000+g))
			bar.Wait()
			bad := 0
			for i := 0; i < per && bad < 3; i++ {
				// few hot names so that different goroutines alternate between them
				n := good[r.Intn(8)+8*(i%2)]
				if r.Chance(1, 8) {
					n = good[r.Intn(len(good))]
				}
				a, err := findFunc(n)
				if err != nil || a != want[n] {
					bad++
					rep.Violate("C10/concurrent-lookup-wrong", fmt.Sprintf("concurrent FindFuncByName(%q) = %#x (%v), sequential lookup gave %#x (%s)", n, a, err, want[n], fname(runtime.FuncForPC(a))), map[string]interface{}{"name": n})
				}
			}
			rep.Eval(int64(per))
		}(g)
	}
	wg.Wait()
	rep.Class("concurrent/functions")
	// variables concurrently as well
	var vn []string
	for n := range vars.Addrs {
		vn = append(vn, n)
	}
	for g := 0; g < G; g++ {
		wg.Add(1)
		go func(g int) {
			defer wg.Done()
			r := vmon.NewRng(vmon.Seed(), uint64(20000+g))
			for i := 0; i < per/10; i++ {
				n := vn[r.Intn(len(vn))]
				a, err := findVar(varPkg + "." + n)
				if err == nil && a != uintptr(vars.Addrs[n]) {
					rep.Violate("C10/concurrent-lookup-wrong", fmt.Sprintf("concurrent FindVarByName(%s) = %#x, &%s = %#x", n, a, n, uintptr(vars.Addrs[n])), nil)
					return
				}
			}
			rep.Eval(int64(per / 10))
		}(g)
	}
	wg.Wait()
	rep.Class("concurrent/variables")
}
