//go:build go1.21 && verifcgo

package c10

// goom's own test package contains cgo code: importing it puts C functions (present in the ELF symbol table but not
// in the pclntab) into the binary and allows external linking.
import _ "github.com/tencent/goom/test"
