import core, os

LEVEL = 'exploration'
RULE = ('the real emitters (amd64 entry jump, trampoline return jump, interface stub; arm64 entry jump and interface stub compiled from the '
        'current /repo files) are called on generated (from,to) addresses and the emitted bytes are decoded by the reference decoders and '
        'interpreted symbolically; every value of every 16-bit lane over several bases (exhaustive per lane), every offset in a band around '
        'the +-2GiB rel32 decision boundary, plus random pairs; the sequence actually installed at a function entry, decoded from memory while the function is diverted again and again (values sharing one code address) with and without restoring in between; the trampoline return jump built by the real builder for every layout of instruction boundaries in the first bytes of a function (all sequences of 1-9 byte instructions); distinct = (emitter, lane / band side, form chosen) classes')


def run(ctx):
    base = {}
    base.update(core.vmon_files())
    base.update(core.ref_files(['x86asm', 'arm64asm']))
    base.update(core.dir_files('harness/c15/lib', 'zzverif/c15lib'))
    jobs = []
    f = dict(base); f.update(core.dir_files('harness/c15/amd64patch', 'internal/patch'))
    jobs.append((ctx.build('c15-amd64patch', core.MODPATH + '/internal/patch', f), 'TestC15Amd64Patch'))
    f = dict(base); f.update(core.dir_files('harness/c15/amd64iface', 'internal/iface'))
    jobs.append((ctx.build('c15-amd64iface', core.MODPATH + '/internal/iface', f), 'TestC15Amd64Iface'))
    f = dict(base); f.update(core.dir_files('harness/c15/armpatch', 'zzverif/c15armpatch'))
    f['zzverif/c15armpatch/monkey_a64_copy.go'] = os.path.join(core.REPO, 'internal/patch/monkey_arm64.go')
    jobs.append((ctx.build('c15-armpatch', core.MODPATH + '/zzverif/c15armpatch', f), 'TestC15Arm64Patch'))
    f = dict(base); f.update(core.dir_files('harness/c15/armiface', 'zzverif/c15armiface'))
    f['zzverif/c15armiface/jmp_a64_copy.go'] = os.path.join(core.REPO, 'internal/iface/jmp_arm64.go')
    jobs.append((ctx.build('c15-armiface', core.MODPATH + '/zzverif/c15armiface', f), 'TestC15Arm64Iface'))
    jobs.append((jobs[0][0], 'TestC15Amd64Installed'))
    jobs.append((jobs[0][0], 'TestC15Amd64Return'))
    jobs[0] = (jobs[0][0], 'TestC15Amd64Patch$')
    ctx.parallel([dict(binary=b, run=t, env={'GOGC': '2000'}, timeout=2400 if ctx.thorough else 400, what=t) for b, t in jobs])
    ctx.extra_cov['exhaustive_per_lane'] = True
    ctx.assumptions += ['reference decoders = golang.org/x/arch x86asm/arm64asm vendored in GOROOT',
                        'absolute form judged as the property words it: RDX/X26 = destination, then an indirect jump through it',
                        'arm64 emitters are pure Go; the current /repo files are compiled under a neutral file name and run on amd64']
