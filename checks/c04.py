import core

LEVEL = 'exploration'
RULE = ('generated well-formed stub configurations (optional default first, then 0-6 When / In clauses whose arguments are plain values, arg.Any, arg.In; clauses overlap on purpose) '
        'on 14 targets (fixed 1-5 params of int/uint8/float/string/bool/struct/pointer/interface, variadics with 0-3 leading fixed params, pointer/value-receiver methods); '
        'every configuration is exercised by real calls aimed at each clause, at overlaps and at nothing; the outcome is compared with a reference interpreter of the documented rule '
        '(first registered matching clause, else default, else a "no suitable condition" panic); plus a sweep of calls whose pointer argument points into the caller frame (compared by pointee) at every stack depth; plus 7 clause layouts on 4 targets without results (function, variadic, method, interface method) x 5 calls: no call panics or runs the original; distinct = (signature class, clause-kind multiset, outcome kind) triples')


def run(ctx):
    files = {}
    files.update(core.vmon_files())
    files.update(core.dir_files('harness/c04', 'zzverif/c04'))
    b = ctx.build('c04', core.MODPATH + '/zzverif/c04', files)
    nconf, ncalls, shards = ('250', '12', 16) if not ctx.thorough else ('4000', '20', 32)
    ctx.children(b, shards, run='TestC04$', env={'VERIF_C04_CONFIGS': nconf, 'VERIF_C04_CALLS': ncalls}, timeout=1800)
    # pointers into the caller's frame compared by pointee, at every stack depth, 32 goroutines at a time, while other
    # goroutines are born and grown all the time (released stack memory is reused at once)
    ch = ctx.child(b, run='TestC04StackArgs$', timeout=600, env={'VERIF_C04_STACKROUNDS': '400' if not ctx.thorough else '6000'})
    ctx.absorb(ch, what='TestC04StackArgs')
    # targets without results: clauses, default and "nothing matches" on functions, variadics, methods, interface methods
    chv = ctx.child(b, run='TestC04Void$', timeout=300, label='void')
    ctx.absorb(chv, what='TestC04Void')
    cha = ctx.child(b, run='TestC04InAlike$', timeout=300, label='alike')
    ctx.absorb(cha, what='TestC04InAlike')
