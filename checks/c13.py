import core

LEVEL = 'exploration'
RULE = ('generated ill-formed configurations: every single-slot corruption of the callback signature (parameter/result dropped, added, size changed at each position; synthesised with reflect.FuncOf), '
        'When with 1..n-1 arguments, Return with 1..m-1 values, a size-mismatching return value at each position, on 7 targets (functions, method, unexported function, interface method) each unmocked and already mocked; '
        'plus non-function targets, unknown methods/symbols, non-pointer / non-interface handed to Interface; oracle: the call panics, its cause chain walks consistently, behaviour fingerprint, whole text image and '
        'interface words equal their values before the rejected call, and a correct configuration works right afterwards; distinct = (target, mistake class, already-mocked?) classes')


def run(ctx):
    files = {}
    files.update(core.vmon_files())
    files.update(core.dir_files('harness/c13', 'zzverif/c13'))
    b = ctx.build('c13', core.MODPATH + '/zzverif/c13', files)
    ctx.children(b, 1, run='TestC13', timeout=900)
