import core

LEVEL = 'exploration'
RULE = ('every instruction word in the enumerated set is decoded by goom\'s arm64 decoder (and printed) and by the '
        'upstream golang.org/x/arch decoder; quick = stride-1021 walk over 2^32 (offset from seed) plus stride-257 over '
        'branch/address/system top bytes, thorough = all 2^32 words; distinct = distinct opcodes both decoders produced')


def run(ctx):
    files = {}
    files.update(core.vmon_files())
    files.update(core.ref_files(['arm64asm']))
    files.update(core.dir_files('harness/c17', 'zzverif/c17'))
    b = ctx.build('c17', core.MODPATH + '/zzverif/c17', files, gcflags='')
    if ctx.thorough:
        ctx.children(b, 4, run='TestC17', timeout=3600, parallel=1, env={'VERIF_WORKERS': '16'})
        ctx.extra_cov['exhaustive'] = (ctx.evaluations == 1 << 32)
    else:
        ctx.children(b, 1, run='TestC17', timeout=600)
    ctx.assumptions += ['reference = golang.org/x/arch/arm64/arm64asm as vendored in GOROOT/src/cmd (go1.23.5)',
                        'excluded class defined by encoding: word & 0xFFC00000 == 0xD5000000 (checked for totality only)']
