import core

LEVEL = 'exploration'
RULE = ('every instruction word in the enumerated set is decoded by goom\'s arm64 decoder (and printed) and by the '
        'upstream golang.org/x/arch decoder; quick = stride-1021 walk over 2^32 (offset from seed) plus stride-257 over '
        'branch/address/system top bytes plus, for each of the ~1200 rows of the format table, its fixed bits with the variable bits zero, all ones and 24 random fillings; thorough = all 2^32 words; a watchdog reports a word whose decoding has not returned after 30 s; distinct = distinct opcodes both decoders produced')


def run(ctx):
    files = {}
    files.update(core.vmon_files())
    files.update(core.ref_files(['arm64asm']))
    files.update(core.dir_files('harness/c17', 'zzverif/c17'))
    files.update(core.dir_files('harness/c17/refexport', 'zzverif/ref/arm64asm'))
    b = ctx.build('c17', core.MODPATH + '/zzverif/c17', files, gcflags='')
    if ctx.thorough:
        ctx.children(b, 4, run='TestC17', timeout=3600, parallel=1, env={'VERIF_WORKERS': '16', 'GODEBUG': 'asyncpreemptoff=0'})
        ctx.extra_cov['exhaustive'] = (ctx.evaluations == 1 << 32)
    else:
        # the decoders are pure Go: asynchronous preemption stays on, so that a decode that never returns cannot keep the
        # collector (and with it the in-process watchdog) from running
        ctx.children(b, 1, run='TestC17', timeout=600, env={'GODEBUG': 'asyncpreemptoff=0'})
    ctx.assumptions += ['reference = golang.org/x/arch/arm64/arm64asm as vendored in GOROOT/src/cmd (go1.23.5)',
                        'excluded class defined by encoding: word & 0xFFF80000 == 0xD5080000 (SYS with operands; checked for totality only) - measured to be the only part of the system space 0xD5000000..0xD53FFFFF where goom and the reference differ']
