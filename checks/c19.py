import core, os, hashlib, re

LEVEL = 'exploration'
RULE = ('a deterministic scenario suite (callbacks on 1-13 parameter and variadic functions, conditional and sequenced stubs incl. the no-match panic, pointer/value method mocks, interface mocks with Apply and As().Return, '
        'out-parameters in the caller frame at every stack depth of fresh goroutines, values with nil pointers, nil and typed-nil interfaces, pointer cycles through structs, unexported fields, String/Error methods that panic) is run with one seed in separate processes under logging off, '
        'OpenDebug(), OpenTrace(), both, GOOM_DEBUG=1 in the environment, Close* before anything was opened, opened-and-closed again, closed-and-reopened; every call, argument, result and panic is written to a transcript and the transcripts must be byte-identical; '
        'distinct = logging configurations compared + transcript line kinds')


def run(ctx):
    files = {}
    files.update(core.vmon_files())
    files.update(core.dir_files('harness/c19', 'zzverif/c19'))
    b = ctx.build('c19', core.MODPATH + '/zzverif/c19', files)
    nscen = '40' if not ctx.thorough else '1500'
    modes = [('off', {}), ('debug', {}), ('trace', {}), ('debug+trace', {}), ('env', {'GOOM_DEBUG': '1'}),
             ('close-first', {}), ('toggled-off', {}), ('reopened', {})]
    trans = {}
    for mode, extra in modes:
        tp = os.path.join(ctx.scratch, 'transcript-%s.txt' % mode)
        env = {'VERIF_C19_LOG': mode, 'VERIF_C19_TRANSCRIPT': tp, 'VERIF_C19_SCEN': nscen}
        env.update(extra)
        ch = ctx.child(b, run='TestC19$', timeout=300 if not ctx.thorough else 1800, env=env, label=mode)
        if ch.rc != 0 or ch.report is None:
            ctx.absorb(ch, crash_key='C19/crash-with-logging-' + mode, what='TestC19[%s]' % mode)
            continue
        ctx.absorb(ch, what='TestC19[%s]' % mode)
        trans[mode] = open(tp).read().split('\n') if os.path.exists(tp) else None
    # a fresh process per mode whose first mock is an interface stub, then os.Open is made to fail, then a by-name mock
    lazy = {}
    for mode in ('off', 'debug', 'trace'):
        tp = os.path.join(ctx.scratch, 'lazy-%s.txt' % mode)
        ch = ctx.child(b, run='TestC19LazyTable$', timeout=300, env={'VERIF_C19_LOG': mode, 'VERIF_C19_TRANSCRIPT': tp}, label='lazy-' + mode)
        ctx.absorb(ch, crash_key='C19/crash-with-logging-' + mode, what='TestC19LazyTable[%s]' % mode)
        lazy[mode] = open(tp).read().split('\n') if os.path.exists(tp) else None
    for mode in ('debug', 'trace'):
        if lazy.get('off') and lazy.get(mode) and lazy[mode] != lazy['off']:
            i = next((k for k in range(min(len(lazy[mode]), len(lazy['off']))) if lazy[mode][k] != lazy['off'][k]), 0)
            ctx.violations.append({'key': 'C19/lazy-loading-depends-on-logging', 'what': 'fresh process (interface stub first, os.Open made to fail, then a by-name mock): logging=%s gives %r where logging off gives %r' % (mode, lazy[mode][i], lazy['off'][i]),
                                   'case': {'mode': mode, 'off': lazy['off'], 'mode_lines': lazy[mode]}})
    # out-parameter sweep: writes through pointers into the caller's frame
    for mode, _ in modes:
        lost = int(ctx.stats.get('outparam_writes_lost_on_stack_growth:' + mode, 0))
        if lost and mode == 'off':
            ctx.inconclusive.append('out-parameter writes lost with logging off at %s: the baseline run itself is wrong (C01 decides that)' % ctx.notes.get('outparam_lost_at:off'))
        elif lost:
            ctx.violations.append({'key': 'C19/caller-frame-out-parameter-lost-with-logging',
                                   'what': 'logging=%s: a callback\'s writes through pointer arguments that point into the caller\'s frame were lost at %d of %d stack depths (first: %s); with logging off none are lost' % (
                                       mode, lost, int(ctx.stats.get('outparam_depths:' + mode, 0)), ctx.notes.get('outparam_lost_at:' + mode)),
                                   'case': {'mode': mode, 'depths_lost': ctx.notes.get('outparam_lost_at:' + mode)}})
    # library functions mocked while logging is on: how often did each callback run, per mode?  More runs than with
    # logging off means the log path itself calls the mocked function
    libs = {}
    for k, v in ctx.stats.items():
        if k.startswith('library_callback_runs:'):
            _, fn, mode = k.split(':')
            libs.setdefault(fn, {})[mode] = int(v)
    for fn, per in sorted(libs.items()):
        off = per.get('off')
        if off is None:
            continue
        diff = {m: n for m, n in per.items() if n != off}
        if diff:
            ctx.violations.append({'key': 'C19/logger-calls-mocked-function:' + fn,
                                   'what': 'the callback mocking %s ran %d times with logging off and %s with logging on: the log path calls the mocked function itself' % (fn, off, diff),
                                   'case': {'function': fn, 'runs_off': off, 'runs_by_mode': diff}})
        ctx.distinct.add('library-mock/' + fn)
    base = trans.get('off')
    if not base or len(base) < 10:
        ctx.inconclusive.append('no baseline transcript')
        return
    kinds = set()
    for l in base:
        kinds.add(re.sub(r'[0-9]+', 'N', l.split(' ->')[0].split(':')[0])[:24])
    ctx.distinct.update('line/' + k for k in kinds)
    ctx.stats['transcript_lines'] = len(base)
    for mode, t in trans.items():
        if mode == 'off':
            continue
        if t is None:
            ctx.inconclusive.append('transcript of mode %s missing' % mode)
            continue
        ctx.evaluations += len(t)
        if t != base:
            i = next((k for k in range(min(len(t), len(base))) if t[k] != base[k]), min(len(t), len(base)))
            key = 'C19/transcript-differs-with-logging'
            offl = base[i] if i < len(base) else ''
            if offl.startswith('refused '):
                # the panic of a refused configuration: keyed by the configuration
                key = 'C19/refusal-differs-with-logging:' + offl[len('refused '):].split(':')[0].replace(' ', '-').replace(',', '')
            ctx.violations.append({'key': key, 'what': 'logging=%s changes behaviour at transcript line %d: off=%r %s=%r' % (
                mode, i, base[i] if i < len(base) else '<end>', mode, t[i] if i < len(t) else '<end>'),
                'case': {'mode': mode, 'line': i, 'context_off': base[max(0, i - 3):i + 2], 'context_mode': t[max(0, i - 3):i + 2]}})
    ctx.samples.append({'transcript_sha256': hashlib.sha256('\n'.join(base).encode()).hexdigest(), 'lines': len(base), 'example': base[:4]})
