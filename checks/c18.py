import core

LEVEL = 'exploration'
RULE = ('generated (pattern, argument) pairs of the same dynamic type for every kind the statement names (all integer widths, float32/64 without NaN/+-0 pairs, strings incl. numeric-looking, '
        'bools, structs, arrays, nil/empty slices and maps, pointers, pointer-to-pointer, nested structs, funcs by identity, each also boxed in interface{}) with boundary values and nils; '
        'Equals/In/Any are driven through Expr.Resolve/Eval and through real When(...) stubs and compared with Go ==/DeepEqual/identity, symmetry, In = union of Equals, Any, '
        're-evaluation stability, no panic; the nil interface and typed nils of nine types against one another on interface{} and error parameters; distinct = (kind[, boxed], outcome) classes')


def run(ctx):
    files = {}
    files.update(core.vmon_files())
    files.update(core.dir_files('harness/c18', 'zzverif/c18'))
    b = ctx.build('c18', core.MODPATH + '/zzverif/c18', files)
    pairs, stubs, shards = ('15000', '300', 16) if not ctx.thorough else ('600000', '6000', 32)
    ctx.children(b, shards, run='TestC18$', env={'VERIF_C18_PAIRS': pairs}, timeout=1800)
    ctx.children(b, min(shards, 8), run='TestC18Stubs', env={'VERIF_C18_STUBS': stubs}, timeout=1800)
    ctx.children(b, 1, run='TestC18Nils', timeout=300, what='TestC18Nils')
