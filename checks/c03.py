import core, os, subprocess, sys

LEVEL = 'translation_validation'
RULE = ('validator: PtrTrampoline (the real fixOrigin path) is run, without diverting the target, on every function of the linked population (independent pclntab parse); '
        'each built trampoline is decoded in lock-step with the original prologue by the reference decoder and must be the same instructions with every PC-relative operand '
        'resolving to the same absolute address, ending in a jump back to entry+copied; refusals must leave target and placeholder untouched; '
        'execution monitor: a generated zoo of Go functions (leaf, wrapper, two early branches, 256B-8KiB frames, methods, variadic, float/string/many args, recursive, '
        'two results, deferred) is mocked through the public API with Origin(&placeholder).Apply(cb -> 3*origin+1) and called warm, on fresh goroutines and at every depth of a '
        '64-byte-step recursion sweep across stack-growth boundaries; result and callback count must be those of the unmocked function; '
        'synthetic zoo: byte-exact shapes (RIP-relative compare with imm8/imm32, two short branches, short branch then CALL/LEA, branch outside the widening table, E9/E8 first, '
        'MOV/LEA rip-relative, recursive call to the entry, loop at the entry, function shorter than the jump) written into a harness mapping and executed before/while/after mocking, placeholder ~1 KiB before and after plus 72-byte placeholders at 96..328 bytes either side (re-based rel8 displacements on both sides of the signed-byte limits) and far placeholders of 14..47 bytes (the relocated prefix plus its jump back fits exactly, barely or not at all: nothing outside the placeholder may change); '
        'distinct = distinct copied-prefix opcode shapes + refusal reasons + zoo (shape, placeholder side, stack-check) classes')


def run(ctx):
    files = {}
    files.update(core.vmon_files())
    files.update(core.ref_files(['x86asm']))
    files.update(core.dir_files('harness/patchpop', 'internal/patch'))
    files.update(core.dir_files('harness/c03', 'internal/patch'))
    files.update(core.dir_files('harness/c03/pha', 'zzverif/c03pha'))
    b = ctx.build('c03', core.MODPATH + '/internal/patch', files)
    ch = ctx.child(b, run='TestC03Validator$', timeout=1200, env={'VERIF_C03_BOTH': '1' if ctx.thorough else '0'})
    ctx.absorb(ch, what='TestC03Validator')
    # synthetic zoo: byte-exact shapes executed, one child process per (shape, placeholder side)
    cnt = ctx.child(b, run='TestC03Synth', timeout=120, env={'VERIF_C03_SHAPE': 'count'}, label='synth-count')
    nshapes = int(((cnt.report or {}).get('stats') or {}).get('max:synthetic_shapes', 0))
    if nshapes == 0:
        ctx.inconclusive.append('synthetic zoo: could not count shapes')
    jobs = []
    for i in range(nshapes):
        near = ['before:112', 'before:136', 'before:200', 'before:248', 'after:128', 'after:168']
        if ctx.thorough:
            near = ['before:%d' % n for n in range(96, 329, 8)] + ['after:%d' % n for n in range(96, 329, 8)]
        small = ['small:%d' % n for n in ((18, 22, 26, 30, 32, 34, 38) if not ctx.thorough else range(14, 48))]
        for side in ['before', 'after'] + near + small:
            jobs.append(dict(binary=b, run='TestC03Synth', timeout=120, what='synthetic shape %d placeholder %s' % (i, side),
                             crash_key='C03/synthetic-zoo-crash', env={'VERIF_C03_SHAPE': str(i), 'VERIF_C03_PHSIDE': side}))
    ctx.parallel(jobs, parallel=8)
    if ctx.thorough:
        # second population: race-instrumented bodies have different prologues (racefuncenter calls)
        br = ctx.build('c03race', core.MODPATH + '/internal/patch', files, race=True)
        ch = ctx.child(br, run='TestC03Validator$', timeout=2400, label='race-population')
        ctx.absorb(ch, what='TestC03Validator[race-instrumented population]')
    # execution monitor: generated zoo through the public API
    gdir = os.path.join(core.BUILD, 'gen', 'c03', str(ctx.seed))
    ntargets = 48 if not ctx.thorough else 240
    subprocess.check_call([sys.executable, os.path.join(core.VERIF, 'gen', 'c03zoo.py'), str(ctx.seed), str(ntargets), gdir])
    zfiles = {}
    zfiles.update(core.vmon_files())
    zfiles.update(core.dir_files('harness/c03zoo', 'zzverif/c03zoo'))
    zfiles['zzverif/c03zoo/zoo_gen.go'] = os.path.join(gdir, 'zoo_gen.go')
    zb = ctx.build('c03zoo', core.MODPATH + '/zzverif/c03zoo', zfiles)
    ch = ctx.child(zb, run='TestC03Zoo', timeout=1800, env={'VERIF_C03_SWEEP': '160' if not ctx.thorough else '400'})
    ctx.absorb(ch, crash_key='C03/zoo-crash', what='TestC03Zoo')
    ctx.extra_cov['programs'] = int(ctx.stats.get('trampolines_valid', 0))
    ctx.extra_cov['disagreements_checked'] = int(sum(v for k, v in ctx.stats.items() if k.startswith('pcrel:')))
