import core

LEVEL = 'translation_validation'
RULE = ('validator: PtrTrampoline (the real fixOrigin path) is run, without diverting the target, on every function of the linked population (independent pclntab parse); '
        'each built trampoline is decoded in lock-step with the original prologue by the reference decoder and must be the same instructions with every PC-relative operand '
        'resolving to the same absolute address, ending in a jump back to entry+copied; refusals must leave target and placeholder untouched; '
        'distinct = distinct copied-prefix opcode shapes + refusal reasons')


def run(ctx):
    files = {}
    files.update(core.vmon_files())
    files.update(core.ref_files(['x86asm']))
    files.update(core.dir_files('harness/patchpop', 'internal/patch'))
    files.update(core.dir_files('harness/c03', 'internal/patch'))
    files.update(core.dir_files('harness/c03/pha', 'zzverif/c03pha'))
    b = ctx.build('c03', core.MODPATH + '/internal/patch', files)
    ch = ctx.child(b, run='TestC03Validator', timeout=1200)
    ctx.absorb(ch, what='TestC03Validator')
    ctx.extra_cov['programs'] = int(ctx.stats.get('trampolines_valid', 0))
    ctx.extra_cov['disagreements_checked'] = int(sum(v for k, v in ctx.stats.items() if k.startswith('pcrel:')))
