import core

LEVEL = 'exploration'
RULE = ('fallback allocator: rounds of 1-64 goroutines released by a spin barrier request random sizes until exhaustion (bump pointer reset between '
        'rounds, first round of every process untouched); recorded regions are checked offline for pairwise disjointness, containment in the reserve and '
        'size; public Acquire: concurrent requests of 1B-64KiB checked for rwx mapping, write/read-back, execution of a written stub, disjointness; '
        'mmap failure provoked for real by size (0, >=2^47), by RLIMIT_AS and by a process-wide W^X policy (seccomp filter denying write+execute mappings and re-protections: the writer must find another way); consumers: 420 interface variables mocked through the public API on five routes (Apply, As.Return, As.When.Return, As.Returns, two methods) with executable mappings refused by a seccomp filter, past the exhaustion of the reserve - every configuration is either refused with an error or installs a non-null, distinct stub that dispatches; distinct = (path, goroutines, size class, exhausted?) classes')


def run(ctx):
    files = {}
    files.update(core.vmon_files())
    files.update(core.dir_files('harness/c20', 'internal/bytecode/stub'))
    b = ctx.build('c20', core.MODPATH + '/internal/bytecode/stub', files)
    nproc, rounds = (16, 30) if not ctx.thorough else (96, 1000)
    ctx.children(b, nproc, run='TestC20Holder', env={'VERIF_C20_ROUNDS': str(rounds)}, timeout=1200, parallel=2 if not ctx.thorough else 4)
    ctx.children(b, 8 if not ctx.thorough else 32, run='TestC20Acquire', timeout=600,
                 env={'VERIF_C20_ACQ': '800' if not ctx.thorough else '4000'})
    ch = ctx.child(b, run='TestC20MmapDenied', timeout=120)
    if ch.rc != 0 and ch.report is None:
        # the runtime itself may die of the address-space limit: that is the fault injector hitting the runtime, not goom
        ctx.notes['mmap_denied'] = 'child died under RLIMIT_AS (rc=%s); fallback dispatch by rlimit not observed in this run' % ch.rc
    else:
        if ch.report and ch.report.get('inconclusive'):
            ctx.notes['mmap_denied'] = ch.report.pop('inconclusive')
        ctx.absorb(ch, what='TestC20MmapDenied')
    # a process-wide W^X policy (seccomp filter): neither rwx mappings nor rwx re-protection are possible
    chw = ctx.child(b, run='TestC20WXDenied', timeout=300, label='wx-denied')
    ctx.absorb(chw, crash_key='C20/holder-write-failed', what='TestC20WXDenied')
    # the consumers of stub space (interface-method mocks through the public API) while the kernel refuses executable
    # mappings, up to and beyond the exhaustion of the reserve; and once with mappings available
    fx = {}
    fx.update(core.vmon_files())
    fx.update(core.dir_files('harness/c20x', 'zzverif/c20x'))
    bx = ctx.build('c20x', core.MODPATH + '/zzverif/c20x', fx)
    chx = ctx.child(bx, run='TestC20Consumers', timeout=300, label='consumers-denied', env={'VERIF_C20X_DENY': '1'})
    ctx.absorb(chx, what='TestC20Consumers (executable mappings denied)')
    chy = ctx.child(bx, run='TestC20Consumers', timeout=300, label='consumers', env={'VERIF_C20X_DENY': '0', 'VERIF_C20X_VARS': '420' if not ctx.thorough else '6000'})
    ctx.absorb(chy, what='TestC20Consumers')
    ctx.assumptions += ['each reset of the bump pointer starts an independent allocation history',
                        'wall-clock stamps are used only to report how many requests overlapped in time, never for the verdict']
