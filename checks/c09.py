import core

LEVEL = 'exploration'
RULE = ('table-driven generator over 16 result types (pointer, interface{}, error, custom interface, slice, map, chan, func, struct, array, int, int8, uint64, float64, string, named int64) '
        'x supplied values (untyped nil, typed nil, zero, concrete values for interface results, same-size different type, different-size type, layout-identical stand-ins) x Return/Returns/When().Return, '
        'through real stubbed functions; plus multi-result nil error, unexported-type stand-ins as results and When arguments, nil When arguments; two functions of two same-named packages whose types print identically, stubbed in both orders; oracle = Go semantics of the delivered value '
        '(identity/memory image, dynamic type, typed zero, configuration-time rejection of size mismatches); distinct = (result type, expectation, API form) classes')


def run(ctx):
    files = {}
    files.update(core.vmon_files())
    files.update(core.dir_files('harness/c09', 'zzverif/c09'))
    files.update(core.dir_files('harness/c09/hid', 'zzverif/c09/hid'))
    files.update(core.dir_files('harness/c09/p1/pb', 'zzverif/c09/p1/pb'))
    files.update(core.dir_files('harness/c09/p2/pb', 'zzverif/c09/p2/pb'))
    b = ctx.build('c09', core.MODPATH + '/zzverif/c09', files)
    ctx.children(b, 1, run='TestC09$', timeout=600)
    ctx.children(b, 1, run='TestC09SameName$', timeout=600, what='TestC09SameName')
    ctx.children(b, 1, run='TestC09Eval$', timeout=300, what='TestC09Eval')
