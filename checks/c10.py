import core, os

LEVEL = 'exploration'
RULE = ('every function symbol of the test binary (independent pclntab parse, ~13k incl. net/http) is looked up by name and the result compared with runtime.FuncForPC (entry and name); '
        '200 generated package variables in all four data sections are looked up and compared with their real addresses; thousands of near-miss names (one rune deleted/altered/case-flipped/suffixed) must yield an error; '
        'the same sources are rebuilt and re-run under link modes default, -ldflags=-s, -ldflags=-w, -buildmode=pie and (cgo) external linking; every answer is also cross-checked against the ELF symbol of exactly that name, and symbols that exist only in the ELF table must yield an error or their exact address; a fresh process per link mode whose first lookup cannot open the executable (RLIMIT_NOFILE=0) and whose later lookups must each be an error or exact, one whose first lookup is a variable, and three that rewrote os.Args[0] before the first lookup (another Go program on PATH, a missing program, a relative path that no longer resolves); distinct = (link mode, symbol kind, exact/error outcome) classes')


def run(ctx):
    files = {}
    files.update(core.vmon_files())
    files.update(core.dir_files('harness/c10', 'zzverif/c10'))
    files.update(core.dir_files('harness/c10/vars', 'zzverif/c10/vars'))
    # checked-in copies of the same package under longer import paths (third_party/<import path>, a/<import path>): their
    # variables and functions have the same names behind a longer prefix
    files.update(core.dir_files('harness/c10/vars', 'zzverif/c10/third_party/github.com/tencent/goom/zzverif/c10/vars'))
    files.update(core.dir_files('harness/c10/vars', 'zzverif/c10/a/github.com/tencent/goom/zzverif/c10/vars'))
    modes = [('default', None, None), ('strip-s', '-s', None)]
    if ctx.thorough or True:
        modes += [('strip-w', '-w', None), ('pie', None, 'pie')]
    import shutil
    if shutil.which('gcc'):
        modes.append(('external', '-linkmode=external', None))
    names = os.path.join(ctx.scratch, 'names.txt')
    for mode, ld, bm in modes:
        b = ctx.build('c10-' + mode, core.MODPATH + '/zzverif/c10', files, ldflags=ld, buildmode=bm, tags='verifcgo' if mode == 'external' else None)
        ch = ctx.child(b, run='TestC10$', timeout=600, env={'VERIF_C10_MODE': mode, 'VERIF_C10_NAMES': names}, label=mode)
        ctx.absorb(ch, what='TestC10[' + mode + ']')
        if mode in ('default', 'external', 'strip-w'):
            # a fresh process whose very first lookup cannot open the executable (RLIMIT_NOFILE = 0), then lookups again
            chf = ctx.child(b, run='TestC10Fault$', timeout=600, env={'VERIF_C10_MODE': mode}, label='fault-' + mode)
            ctx.absorb(chf, what='TestC10Fault[' + mode + ']')
            # a fresh process whose very first lookup is a variable lookup
            chv = ctx.child(b, run='TestC10VarFirst$', timeout=600, env={'VERIF_C10_MODE': mode}, label='varfirst-' + mode)
            ctx.absorb(chv, what='TestC10VarFirst[' + mode + ']')
    bd = os.path.join(core.BIN, 'c10-default.test')
    # the program rewrote os.Args before its first lookup
    for kind in ('other-go-program', 'missing-program', 'relative-after-chdir'):
        ctx.absorb(ctx.child(bd, run='TestC10Argv0', timeout=300, env={'VERIF_C10_MODE': 'default', 'VERIF_C10_ARGV0': kind}, label='argv0-' + kind), what='TestC10Argv0[' + kind + ']')
    ctx.absorb(ctx.child(bd, run='TestC10Names', timeout=300, env={'VERIF_C10_MODE': 'default'}, label='names'), what='TestC10Names')
    ctx.absorb(ctx.child(bd, run='TestC10AfterListing', timeout=600, env={'VERIF_C10_MODE': 'default'}, label='listing'), what='TestC10AfterListing')
    ctx.absorb(ctx.child(bd, run='TestC10ByNameMany', timeout=300, env={'VERIF_C10_MODE': 'default'}, label='bynamemany'), what='TestC10ByNameMany')
    ctx.absorb(ctx.child(bd, run='TestC10Concurrent', timeout=600, env={'VERIF_C10_MODE': 'default'}, label='concurrent'), what='TestC10Concurrent')
    if ctx.stats.get('functions_exact:default', 0) < 1000 or ctx.stats.get('variables_exact:default', 0) < 100:
        ctx.inconclusive.append('default link mode resolved too few symbols exactly')
