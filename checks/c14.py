import core, re, os

LEVEL = 'exploration'
RULE = ('(1) every idle function of a ~10k-function population (quick: 2000 from a seed-chosen start) is patched with the real PtrTrampoline/Apply/Unpatch '
        'and the whole text image is diffed against the pristine copy after each step, page permissions read from /proc/self/maps; (2) synthetic functions '
        'of 6-40 bytes followed by padding or directly by another function at every entry offset in the last 40 bytes of a page; (2a) pairs of tiny functions 14-32 bytes apart, both mocked and un-mocked in five orders, image compared with a byte model after every install and removal; (2c) padded placeholders filled to their last padding byte by a first trampoline and then handed to a target that needs more room; (3) memory.WriteTo sweeps '
        'over offsets -64..+8 around three page boundaries x lengths 1..80 and ~1-2 pages; (3b) six goroutines writing disjoint ranges of two pages (one straddling) through the text writer at once; (3c) the page-boundary write sweep and installs/removals of the entry jump at every entry offset of the last 16 bytes of a page again in a child whose seccomp filter refuses PROT_WRITE|PROT_EXEC (the text writer then takes its other route); (4) the same binary re-run under strace: every mprotect event on '
        'image/synthetic pages must carry PROT_EXEC and the last one per page must be R|X; distinct = (part, size class, page-offset / straddle / pages-touched) classes')


def run(ctx):
    files = {}
    files.update(core.vmon_files())
    files.update(core.dir_files('harness/patchpop', 'internal/patch'))
    files.update(core.dir_files('harness/c14', 'internal/patch'))
    b = ctx.build('c14', core.MODPATH + '/internal/patch', files)
    ch = ctx.child(b, run='TestC14$', timeout=1200)
    ctx.absorb(ch, what='TestC14')
    # the same boundary sweeps under a process-wide W^X policy (seccomp filter; irrevocable, hence its own child)
    chw = ctx.child(b, run='TestC14WXDenied$', timeout=600, label='wx-denied')
    ctx.absorb(chw, what='TestC14WXDenied')
    # strace pass
    slog = os.path.join(ctx.scratch, 'strace.log')
    ch2 = ctx.child(b, run='TestC14$', timeout=1200, env={'VERIF_C14_LIGHT': '1'},
                    wrap=['strace', '-f', '-e', 'trace=mprotect', '-o', slog], label='strace')
    rep2 = ch2.report
    if rep2 is None or ch2.rc != 0:
        ctx.absorb(ch2, what='TestC14 under strace')
        return
    for v in rep2.get('violations') or []:
        ctx.violations.append(v)
    ranges = []
    for k in ('image', 'synthetic', 'synthetic-pairs'):
        m = re.match(r'0x([0-9a-f]+)-0x([0-9a-f]+)', rep2.get('notes', {}).get(k, ''))
        if m:
            ranges.append((int(m.group(1), 16), int(m.group(2), 16)))
    if not os.path.exists(slog) or not ranges:
        ctx.inconclusive.append('strace log or image bounds missing')
        return
    last = {}
    n = 0
    noexec = 0
    pending = {}  # pid -> the arguments of an mprotect strace printed as "<unfinished ...>" (another thread's line came in between)
    split = 0
    for line in open(slog, errors='replace'):
        m = re.search(r'mprotect\(0x([0-9a-f]+), (\d+), ([A-Z_|]+)\)\s+= 0', line)
        if not m:
            u = re.match(r'(\d+)\s+mprotect\(0x([0-9a-f]+), (\d+), ([A-Z_|]+) <unfinished', line)
            if u:
                pending[u.group(1)] = u
                continue
            r = re.match(r'(\d+)\s+<\.\.\. mprotect resumed>\s*\)\s+= 0', line)
            if r and r.group(1) in pending:
                u = pending.pop(r.group(1))
                m = re.match(r'\d+\s+mprotect\(0x([0-9a-f]+), (\d+), ([A-Z_|]+)', u.group(0))
                split += 1
            elif re.match(r'(\d+)\s+<\.\.\. mprotect resumed>', line):
                pending.pop(line.split()[0], None)  # resumed with an error: the call changed nothing
        if not m:
            continue
        a, l, prot = int(m.group(1), 16), int(m.group(2)), m.group(3)
        if not any(a < hi and a + l > lo for lo, hi in ranges):
            continue
        n += 1
        if 'PROT_EXEC' not in prot:
            noexec += 1
            if noexec <= 3:
                ctx.violations.append({'key': 'C14/mprotect-drops-exec', 'what': 'mprotect(%#x,%d,%s) on an image page removes execute permission' % (a, l, prot),
                                       'case': {'line': line.strip()}})
        for pg in range(a & ~4095, a + l, 4096):
            last[pg] = prot
    bad = [(pg, p) for pg, p in last.items() if set(p.split('|')) != {'PROT_READ', 'PROT_EXEC'}]
    for pg, p in bad[:3]:
        ctx.violations.append({'key': 'C14/page-left-writable', 'what': 'last mprotect on page %#x is %s' % (pg, p), 'case': None})
    ctx.stats['strace_mprotect_events_on_watched_pages'] = n
    ctx.stats['strace_pages_touched'] = len(last)
    ctx.stats['strace_mprotect_calls_printed_in_two_parts'] = split
    ctx.evaluations += n
    if n == 0:
        ctx.inconclusive.append('strace saw no mprotect event on watched pages')
    ctx.distinct.add('strace/mprotect-events-parsed')
    ctx.assumptions += ['idle functions = packages neither the harness nor goom nor the runtime executes (prefix list in harness/patchpop)',
                        'execute permission during a write is observed through the mprotect event log (strace), page state after a write through /proc/self/maps']
