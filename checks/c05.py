import core, os

LEVEL = 'exploration'
RULE = ('sequential: random sequence lengths 1-12 on the default and 0-4 conditions of one stub (Func, Struct.Method, Interface.Method, two-result func; Return+AndReturn and Returns forms), '
        'random interleaving of calls selecting different stubs, each checked against an exact per-stub cursor; one sequence given in two statements with calls in between; sequences of distinct interface-typed result objects; concurrent (race build): 2-32 goroutines released by a spin barrier call '
        'one stub whose elements are unique per position, every operation recorded {client, call stamp, value, return stamp} from one atomic clock and checked offline by porcupine '
        'against the monotone-cursor specification (partitioned by stub) and by a direct real-time-order check; the same histories again with debug logging on; sequences of thousands of distinct elements hammered by up to 16 goroutines until all have seen the last one, checked by the direct real-time-order rule; race reports counted from GORACE log; '
        'distinct = (mode, API form, goroutine bucket, number of stubs, max length) classes')


def run(ctx):
    files = {}
    files.update(core.vmon_files())
    files.update(core.dir_files('harness/c05', 'zzverif/c05'))
    b = ctx.build('c05', core.MODPATH + '/zzverif/c05', files)
    br = ctx.build('c05race', core.MODPATH + '/zzverif/c05', files, race=True)
    nseq, nh, shards = ('300', '40', 4) if not ctx.thorough else ('2500', '320', 16)
    ctx.children(b, shards, run='TestC05Sequential', env={'VERIF_C05_SEQ': nseq}, timeout=1200)
    pt = '4' if not ctx.thorough else '20'  # porcupine budget per history; a timeout is inconclusive for that history only
    ctx.children(b, 1, run='TestC05Overlap', env={'VERIF_C05_OVERLAP': '300' if not ctx.thorough else '20000'}, timeout=1200, what='TestC05Overlap')
    ctx.children(b, 1, run='TestC05Split', env={'VERIF_C05_SPLIT': '120' if not ctx.thorough else '3000'}, timeout=1200, what='TestC05Split')
    racelog = os.path.join(ctx.scratch, 'race')
    ctx.children(br, shards, run='TestC05Concurrent', timeout=2400, parallel=4,
                 env={'VERIF_C05_HIST': nh, 'VERIF_C05_PTIMEOUT': pt, 'GORACE': 'halt_on_error=0 log_path=%s' % racelog})
    # non-race build too: different timing, more overlap
    ctx.children(b, shards, run='TestC05Concurrent', timeout=1200, parallel=4, env={'VERIF_C05_HIST': nh, 'VERIF_C05_PTIMEOUT': pt, 'VERIF_C05_MAXG': '64' if ctx.thorough else '32'})
    # the same histories with debug logging on (calls go through goom's logging wrapper), race build
    ctx.children(br, 2 if not ctx.thorough else 8, run='TestC05Concurrent', timeout=2400, parallel=4, what='TestC05Concurrent[debug logging]',
                 env={'VERIF_C05_HIST': str(int(nh) // 2), 'VERIF_C05_PTIMEOUT': pt, 'VERIF_C05_DEBUG': '1', 'GORACE': 'halt_on_error=0 log_path=%s' % racelog})
    # long sequences hammered until everybody has seen the last element (direct real-time-order check only)
    ctx.children(b, 2 if not ctx.thorough else 8, run='TestC05Long', timeout=1200, parallel=2, what='TestC05Long',
                 env={'VERIF_C05_LONG': '6000' if not ctx.thorough else '20000', 'VERIF_C05_LONGROUNDS': '4' if not ctx.thorough else '12'})
    ctx.children(br, 1 if not ctx.thorough else 4, run='TestC05Long', timeout=2400, parallel=2, what='TestC05Long[race build]',
                 env={'VERIF_C05_LONG': '3000', 'VERIF_C05_LONGROUNDS': '2' if not ctx.thorough else '8', 'GORACE': 'halt_on_error=0 log_path=%s' % racelog})
    n, sigs = core.count_races(racelog + '.*')
    ctx.stats['race_reports'] = n
    for s in sigs[:5]:
        ctx.violations.append({'key': 'C05/data-race', 'what': 'race detector report: ' + s, 'case': {'log': racelog}})
    if ctx.stats.get('porcupine_unknown_timeout', 0) > 0 and not ctx.violations:
        ctx.notes['porcupine'] = '%d histories timed out in porcupine (inconclusive for those; direct real-time-order check still applied)' % ctx.stats['porcupine_unknown_timeout']
    if ctx.stats.get('overlapping_operation_starts', 0) < 50:
        ctx.inconclusive.append('too few overlapping operations observed (%d)' % ctx.stats.get('overlapping_operation_starts', 0))
