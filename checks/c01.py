import core, os, subprocess, sys

LEVEL = 'exploration'
RULE = ('per seed a generator emits packages corpus (targets), callers (a different package calling them) and a case table: signatures with 0-20 parameters and 0-6 results drawn from 35 types '
        '(all integer widths, bool, float32/64 incl. NaN payloads and -0, complex, string incl. 4KiB, slices nil/empty/sub-slice, arrays of 0/1/2/5 elements, register-assignable and stack-passed structs, pointers, '
        'interface{}/error/custom interface incl. typed nil, func values, maps, chans) plus optional variadic tail; every type also appears as sole parameter and sole result; each target is mocked with Apply (typed closure '
        'capturing heap state, logs bit-exact encodings of what it sees) and with Return (reflect.MakeFunc path) and called through 7 forms (direct, func value taken before/after mocking, other package, defer, go, '
        'reflect.Value.Call) x 4 value tuples x rounds (plain, after forced GCs + churn, on a fresh goroutine under deep recursion); oracle: original body never runs, replacement runs exactly once, caller-side and '
        'replacement-side encodings are equal, results equal, finalizer monitor on the replacement closure decoded from the entry jump never fires, original restored after Reset; '
        'corpora: one from seed 0 and one from VERIF_SEED; distinct = ABI classes (#int regs, #float regs, stack args/results, variadic, #results)')


def run(ctx):
    gdir = os.path.join(core.BUILD, 'gen', 'c01', str(ctx.seed))
    n = 70 if not ctx.thorough else 400
    gen = os.path.join(core.VERIF, 'gen', 'c01sig.py')
    corp = [(0, 'A'), (ctx.seed if ctx.seed != 0 else 1000003, 'B')]
    if ctx.thorough:
        corp += [(ctx.seed * 7 + 11, 'C'), (ctx.seed * 13 + 5, 'D')]
    for s, tag in corp:
        subprocess.check_call([sys.executable, gen, str(s), str(n), tag, gdir])
    files = {}
    files.update(core.vmon_files())
    files.update(core.dir_files('harness/c01', 'zzverif/c01'))
    files.update(core.dir_files('harness/c01/corpus', 'zzverif/c01/corpus'))
    files.update(core.dir_files('harness/c01/callers', 'zzverif/c01/callers'))
    for s, tag in corp:
        files['zzverif/c01/corpus/corpus_%s_gen.go' % tag] = os.path.join(gdir, 'corpus', 'corpus_%s_gen.go' % tag)
        files['zzverif/c01/callers/callers_%s_gen.go' % tag] = os.path.join(gdir, 'callers', 'callers_%s_gen.go' % tag)
        files['zzverif/c01/cases_%s_gen.go' % tag] = os.path.join(gdir, 'cases_%s_gen.go' % tag)
    b = ctx.build('c01', core.MODPATH + '/zzverif/c01', files, timeout=3000)
    ctx.children(b, 16, run='TestC01$', timeout=3000, crash_key='C01/crash', env={'VERIF_C01_ROUNDS': '3' if not ctx.thorough else '6'})
    ctx.children(b, 8, run='TestC01DroppedBuilder', timeout=3000, crash_key='C01/crash')
    ctx.children(b, 1, run='TestC01Library', timeout=300, crash_key='C01/crash')
    ctx.children(b, 2 if not ctx.thorough else 8, run='TestC01Goroutines', timeout=600, crash_key='C01/crash', what='TestC01Goroutines', env={'VERIF_C01_PER': '4000' if not ctx.thorough else '60000'})
    ctx.children(b, 1, run='TestC01Generics', timeout=300, crash_key='C01/crash')
