import core, os, subprocess, sys

LEVEL = 'exploration'
RULE = ('generated interface types (1-6 methods in random declaration order, unexported and embedded methods, six signature kinds incl. floats, strings, two results, variadic, pointer/error), two variables per type '
        '(one nil, one holding a real implementation); for every subset of up to 3 methods (and the full set) each method is mocked with Apply or As().Return, then every slot is called through the variable: mocked slots must '
        'reach their own replacement with the exact arguments, unmocked slots must panic with "method not implements", the other variable must be untouched; half of the cases Reset and compare the variable words with the pre-mock words, '
        'the other half drop the builder, arm finalizer-based GC-reachability monitors on the object address decoded from every stub, force collections and call again; plus two variables of one type and same-named types in one builder; the whole suite once more with debug logging on; a 130-method interface mocked at positions 5, 98..100, 110 and 129; mocker objects kept across four Reset rounds and configured again through them (Apply, As.Return, As.When.Return, mixed): each round reaches the replacement of that round; '
        'distinct = (#methods, #mocked, variable) classes')


def run(ctx):
    gdir = os.path.join(core.BUILD, 'gen', 'c07', str(ctx.seed))
    n = 8 if not ctx.thorough else 60
    subprocess.check_call([sys.executable, os.path.join(core.VERIF, 'gen', 'c07ifaces.py'), str(ctx.seed), str(n), gdir])
    files = {}
    files.update(core.vmon_files())
    files.update(core.dir_files('harness/c07', 'zzverif/c07'))
    files.update(core.dir_files('harness/c07/a/svc', 'zzverif/c07/a/svc'))
    files.update(core.dir_files('harness/c07/b/svc', 'zzverif/c07/b/svc'))
    files['zzverif/c07/ia/ifaces_gen.go'] = os.path.join(gdir, 'ifaces_gen.go')
    b = ctx.build('c07', core.MODPATH + '/zzverif/c07', files)
    ctx.children(b, 4 if not ctx.thorough else 16, run='TestC07$', timeout=2400)
    # once more with debug logging on: every replacement is reached through the logging wrapper
    ctx.children(b, 2 if not ctx.thorough else 4, run='TestC07$', timeout=2400, env={'VERIF_C07_DEBUG': '1'}, what='TestC07[debug logging]')
    ctx.children(b, 1, run='TestC07Big', timeout=300, what='TestC07Big')
    ctx.children(b, 1, run='TestC07Kept', timeout=300, what='TestC07Kept')
    ctx.children(b, 1, run='TestC07ContainerHandle', timeout=300, what='TestC07ContainerHandle')
    ctx.children(b, 1, run='TestC07PreMockValues', timeout=300, what='TestC07PreMockValues')
    ctx.children(b, 1, run='TestC07TableLifetime', timeout=300, what='TestC07TableLifetime', crash_key='C07/method-table-freed-while-mocked')
    if ctx.stats.get('gc_monitors_armed', 0) == 0:
        ctx.inconclusive.append('no GC-reachability monitor could be armed')
