import core

LEVEL = 'exploration'
RULE = ('random histories (4-40 steps, 1-3 builders; 3/4 builder-disjoint, 1/4 with builders sharing targets) over 12 adjacent functions + 6 methods with ops Apply(cbA|cbB), Origin(&ph).Apply, Return, '
        'When(x).Return, mocker Cancel, Builder.Reset, re-mock; after EVERY step the whole text image is diffed against the pristine copy (differences must lie inside entry jumps of currently mocked '
        'targets, be well-formed entry jumps, or lie in used placeholders), every target and 7 neighbours are called and compared with the reference model; plus all histories up to length 3 (quick) / 4 (thorough) '
        'over a 2-target x 2-builder alphabet; distinct = (op, prior configuration, shared?) classes')


def run(ctx):
    files = {}
    files.update(core.vmon_files())
    files.update(core.dir_files('harness/c02', 'zzverif/c02'))
    files.update(core.dir_files('harness/c02/pz', 'zzverif/c02/pz'))
    b = ctx.build('c02', core.MODPATH + '/zzverif/c02', files)
    nh, shards, exlen = ('40', 4, '3') if not ctx.thorough else ('200', 16, '4')
    ctx.children(b, shards, run='TestC02$', env={'VERIF_C02_HIST': nh}, timeout=1800)
    ctx.children(b, 1, run='TestC02NilOrigin', timeout=300, what='TestC02NilOrigin')
    ctx.children(b, 1, run='TestC02TinyNeighbours', timeout=600, what='TestC02TinyNeighbours', env={'VERIF_C02_TINY': '300' if not ctx.thorough else '6000'})
    ctx.children(b, 16, run='TestC02Exhaustive', env={'VERIF_C02_EXLEN': exlen}, timeout=3000)
    if exlen:
        ctx.extra_cov['exhaustive_small_alphabet_len'] = int(exlen)
