import core, os

LEVEL = 'exploration'
RULE = ('race build: per round 2-12 mocker goroutines (own builder, own disjoint slice of 32 churned functions; loop Return/Apply/When/Reset with a call check after each) run against 2-24 caller goroutines '
        'hammering 32 steadily mocked functions (half stubbed, half callbacks that call their origin placeholder) that are address-interleaved with the churned ones (page sharing measured, inconclusive if none); '
        'oracle: zero race-detector reports (log scanned), no crash, every steady call returns the mocked value, every mocker sees exactly its own instruction, whole text image pristine and all targets original at quiescence; '
        'plus the same workload on a plain build at higher speed; distinct = (mocker bucket, caller bucket) classes')


def run(ctx):
    files = {}
    files.update(core.vmon_files())
    files.update(core.dir_files('harness/c11', 'zzverif/c11'))
    br = ctx.build('c11race', core.MODPATH + '/zzverif/c11', files, race=True)
    b = ctx.build('c11', core.MODPATH + '/zzverif/c11', files)
    racelog = os.path.join(ctx.scratch, 'race')
    procs, rounds = (8, '3') if not ctx.thorough else (32, '12')
    ctx.children(br, procs, run='TestC11', timeout=2400, parallel=2, crash_key='C11/crash',
                 env={'VERIF_C11_ROUNDS': rounds, 'VERIF_C11_STALL_S': '60' if not ctx.thorough else '240', 'GODEBUG': 'asyncpreemptoff=0', 'GORACE': 'halt_on_error=0 log_path=%s' % racelog})
    ctx.children(b, procs, run='TestC11', timeout=2400, parallel=2, crash_key='C11/crash', env={'VERIF_C11_ROUNDS': rounds, 'VERIF_C11_STALL_S': '60' if not ctx.thorough else '240', 'VERIF_C11_ITERS': '60', 'GODEBUG': 'asyncpreemptoff=0'})
    n, sigs = core.count_races(racelog + '.*')
    ctx.stats['race_reports'] = n
    for s in sigs[:6]:
        ctx.violations.append({'key': 'C11/data-race', 'what': 'race detector report (outermost frames): ' + s, 'case': {'log': racelog}})
    if ctx.stats.get('steady_calls_begun_while_a_writer_was_inside_goom', 0) < 1000:
        ctx.inconclusive.append('too few steady calls overlapped a writer')
