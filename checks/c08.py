import core

LEVEL = 'exploration'
RULE = ('30 package variables of all kinds (scalars initialised and zero-valued, string, nil/non-nil slice map pointer func interface error, struct, array, chan), each exported (addressed by pointer) and '
        'unexported in another package (addressed by "pkg.name" through the ELF symbol table); generated histories Set/Apply x 0..4 with repeated lookups, then Cancel/Reset once or twice; '
        'after every step the variable\'s memory image and a reader in the defining package are compared with the model (mocked value / snapshot before the first mock); '
        'distinct = (type, exported?, #sets, #cancels, outcome) classes')


def run(ctx):
    files = {}
    files.update(core.vmon_files())
    files.update(core.dir_files('harness/c08', 'zzverif/c08'))
    files.update(core.dir_files('harness/c08/vars', 'zzverif/c08/vars'))
    # a checked-in copy of the same package under a longer import path: same variable names behind a longer prefix
    files.update(core.dir_files('harness/c08/vars', 'zzverif/c08/a/github.com/tencent/goom/zzverif/c08/vars'))
    b = ctx.build('c08', core.MODPATH + '/zzverif/c08', files)
    nh, shards = ('30', 2) if not ctx.thorough else ('300', 16)
    ctx.children(b, shards, run='TestC08$', env={'VERIF_C08_HIST': nh}, timeout=1200)
    # pre-mock values that only the variable refers to, across collections while the mock is in place
    ctx.children(b, 1, run='TestC08GC$', timeout=300, env={'VERIF_C08_GCROUNDS': '12' if not ctx.thorough else '200'}, what='TestC08GC')
    ctx.children(b, 1, run='TestC08ShortPaths$', timeout=300, what='TestC08ShortPaths')
