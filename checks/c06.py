import core, os, subprocess, sys

LEVEL = 'exploration'
RULE = ('generated struct types in two packages (exported and unexported types, 1-4 fields, 3-6 methods each drawn from prefix-related names Get/GetX/GetXY/get/getX/g/..., pointer and value receivers); '
        'every method is mocked in turn through the lookup path its kind needs (Struct.Method, Struct.ExportMethod, Pkg.ExportStruct.Method) with Apply (callback records the receiver) and with Return, '
        'then EVERY method of EVERY type is called on 3 instances through 5 call forms (value, pointer, interface, method value, method expression) and must be mocked / original as the model says; '
        'generic G[T] over 6 instantiations of equal and different GC shape; two same-named packages in one builder; value-receiver methods mocked through pointer instances and called through the forwarder (interface of *T, method expression): receiver pointer and arguments as passed; a mock whose builder was dropped, called after each of 40 collections with freed memory reused; distinct = (receiver kind, exportedness, lookup path, mock form) cells')


def run(ctx):
    gdir = os.path.join(core.BUILD, 'gen', 'c06', str(ctx.seed))
    ntypes = 6 if not ctx.thorough else 30
    subprocess.check_call([sys.executable, os.path.join(core.VERIF, 'gen', 'c06types.py'), str(ctx.seed), str(ntypes), gdir])
    files = {}
    files.update(core.vmon_files())
    files.update(core.dir_files('harness/c06', 'zzverif/c06'))
    files.update(core.dir_files('harness/c06/reg', 'zzverif/c06/reg'))
    files.update(core.dir_files('harness/c06/a/shapes', 'zzverif/c06/a/shapes'))
    files.update(core.dir_files('harness/c06/n/c06', 'zzverif/c06/n/c06'))
    files.update(core.dir_files('harness/c06/b/shapes', 'zzverif/c06/b/shapes'))
    files['zzverif/c06/install_gen.go'] = os.path.join(gdir, 'install_gen.go')
    files['zzverif/c06/pa/types_gen.go'] = os.path.join(gdir, 'pa', 'types_gen.go')
    files['zzverif/c06/pb/types_gen.go'] = os.path.join(gdir, 'pb', 'types_gen.go')
    b = ctx.build('c06', core.MODPATH + '/zzverif/c06', files)
    ctx.children(b, 8 if not ctx.thorough else 16, run='TestC06$', timeout=2400)
    ctx.children(b, 1, run='TestC06Groups', timeout=1200)
    ctx.children(b, 1, run='TestC06Generics', timeout=300)
    ctx.children(b, 1, run='TestC06SameName', timeout=300)
    ctx.children(b, 1, run='TestC06Retarget', timeout=300)
    ctx.children(b, 1, run='TestC06CallSites', timeout=300)
    # value-receiver methods mocked through a pointer instance (the forwarder is the named method), both receiver kinds in
    # one builder; and a mock whose builder was dropped, under collections (stays installed: own child)
    ctx.children(b, 1, run='TestC06SameBase', timeout=300)
    ctx.children(b, 1, run='TestC06Wrappers', timeout=300)
    chl = ctx.child(b, run='TestC06Lifetime', timeout=300, label='lifetime', env={'VERIF_C06_GCROUNDS': '40' if not ctx.thorough else '400'})
    ctx.absorb(chl, what='TestC06Lifetime')
