import core

LEVEL = 'exploration'
RULE = ('exactness: every instruction of every pclntab function of the listed Go binaries is decoded by goom\'s x86 decoder and by '
        'upstream golang.org/x/arch/x86asm in lock-step and compared (Len, mnemonic, PCRel, PCRelOff); totality: random byte strings of '
        'length 1-16 and bit-mutated real instruction starts are decoded under recover and checked structurally; the entry point goom itself uses, bytecode.ParseIns, on the first n bytes of real functions given as slices with capacity far beyond their length (never beyond the supplied bytes, same answer as for a private copy); every opcode of the one-byte, 0F, 0F38 and 0F3A maps under 12 prefix combinations and the VEX forms x 80 ModRM forms (1.8 million byte strings the assembler can emit, whether or not a compiler-built binary contains them) against the reference; the extent scan bytecode.GetFuncSize over 4000 functions of the running binary against the same scan made with the reference decoder; '
        'distinct = distinct mnemonics on which both decoders agreed')


def run(ctx):
    files = {}
    files.update(core.vmon_files())
    files.update(core.ref_files(['x86asm']))
    files.update(core.dir_files('harness/c16', 'zzverif/c16'))
    b = ctx.build('c16', core.MODPATH + '/zzverif/c16', files, gcflags='')
    ctx.children(b, 1, run='TestC16$', timeout=3000 if ctx.thorough else 600)
    ctx.children(b, 1, run='TestC16OpcodeMap', timeout=900, what='TestC16OpcodeMap')
    ctx.children(b, 1, run='TestC16FuncSize', timeout=600, env={'VERIF_C16_SIZEFUNCS': '4000' if not ctx.thorough else '200000'}, what='TestC16FuncSize')
    ctx.children(b, 1, run='TestC16ParseIns', timeout=600, env={'VERIF_C16_PARSEFUNCS': '3000' if not ctx.thorough else '60000'}, what='TestC16ParseIns')
    ctx.assumptions += ['reference = golang.org/x/arch/x86/x86asm as vendored in GOROOT/src/cmd (go1.23.5)',
                        'instructions the reference cannot decode (VEX/EVEX in hand-written assembly) have no oracle: the walk of that function stops there (counted in functions_cut_short_no_oracle)']
