import core

LEVEL = 'exploration'
RULE = ('generated histories (3-25 steps, one builder) over 5 handles (Func x2, Struct.Method, ExportFunc.As, Interface.Method.As) and ops Apply(cb_k), Return, Returns, When(fresh x).Return, '
        'lookup-again, Cancel, Reset; after every step the affected target (and a second one) is called and compared with a last-writer-wins reference model that asserts only what the statement fixes; '
        'plus package-override scenarios with two packages that each define an unexported foo and an unexported keeper type, for every kind of lookup, first and repeated; variables of eight kinds (incl. nil interfaces) driven by Set/Apply through kept handles and fresh lookups, Cancel and Reset; refused instructions (13 kinds on function, method, by-name and interface targets, recovered by the caller) followed by two well-formed ones that must each take effect; distinct = (handle, op, prior mode) classes')


def run(ctx):
    files = {}
    files.update(core.vmon_files())
    files.update(core.dir_files('harness/c12', 'zzverif/c12'))
    files.update(core.dir_files('harness/c12/pa', 'zzverif/c12/pa'))
    files.update(core.dir_files('harness/c12/pb', 'zzverif/c12/pb'))
    b = ctx.build('c12', core.MODPATH + '/zzverif/c12', files)
    nh, shards = ('120', 4) if not ctx.thorough else ('1500', 16)
    ctx.children(b, shards, run='TestC12$', env={'VERIF_C12_HIST': nh}, timeout=1200)
    ctx.children(b, 1, run='TestC12Pkg', timeout=300)
    ctx.children(b, 1, run='TestC12Var', env={'VERIF_C12_VARHIST': '60' if not ctx.thorough else '1500'}, timeout=600, what='TestC12Var')
    ctx.children(b, 1, run='TestC12ReceiverKinds', timeout=300, what='TestC12ReceiverKinds')
    ctx.children(b, 1, run='TestC12AfterRefusal', timeout=300, what='TestC12AfterRefusal')
