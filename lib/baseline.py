#!/usr/bin/env python3
# Runs the repository's own suite (hooks off: there are none) and compares with BASELINE.json's stable passes.
import json, subprocess, os, sys
env = dict(os.environ, GOFLAGS='-mod=mod', GOPROXY='off', GOSUMDB='off', GOTOOLCHAIN='local')
base = json.load(open('/root/.vp/BASELINE.json'))
p = subprocess.run(['go', 'test', '-json', '-vet=off', '-count=1', '-timeout', '25m', './...'], cwd='/repo', env=env,
                   stdout=subprocess.PIPE, stderr=subprocess.DEVNULL, text=True)
passed = set()
for l in p.stdout.splitlines():
    try:
        e = json.loads(l)
    except Exception:
        continue
    if e.get('Action') == 'pass' and e.get('Test'):
        passed.add('%s::%s' % (e['Package'], e['Test']))
missing = [t for t in base['stable_pass'] if t not in passed]
print('baseline: %d/%d stable tests pass' % (len(base['stable_pass']) - len(missing), len(base['stable_pass'])))
for m in missing:
    print('  MISSING', m)
sys.exit(1 if missing else 0)
