# Driver core for /verif checks (python3 standard library only).
# See DESIGN.md 1.1-1.3, 1.7.
import json, os, re, shutil, subprocess, sys, time, glob, signal
from concurrent.futures import ThreadPoolExecutor

VERIF = os.path.dirname(os.path.dirname(os.path.abspath(__file__)))
REPO = os.environ.get('VERIF_REPO', '/repo')
BUILD = os.path.join(VERIF, '.build')
# binaries built against another checkout (seeded-change triage) get a directory of their own, so that several such runs
# and a run against /repo can go on at the same time
BIN = os.path.join(BUILD, 'bin' if REPO == '/repo' else 'bin-' + os.path.basename(REPO.rstrip('/')))
HARNESS = os.path.join(VERIF, 'harness')
MODPATH = 'github.com/tencent/goom'

GOENV = dict(GOFLAGS='-mod=mod', GOPROXY='off', GOSUMDB='off', GOTOOLCHAIN='local')


class Inconclusive(Exception):
    pass


def goenv(extra=None):
    e = dict(os.environ)
    e.update(GOENV)
    if extra:
        e.update(extra)
    return e


def goroot():
    return subprocess.check_output(['go', 'env', 'GOROOT'], env=goenv(), text=True).strip()


def ensure_ref():
    """Copy the reference decoders (upstream golang.org/x/arch as vendored in
    GOROOT/src/cmd) into .build/ref; rewrite nothing but the package path."""
    dst = os.path.join(BUILD, 'ref')
    marker = os.path.join(dst, '.ok')
    if os.path.exists(marker):
        return
    src = os.path.join(goroot(), 'src', 'cmd', 'vendor', 'golang.org', 'x', 'arch')
    for sub in ('x86/x86asm', 'arm64/arm64asm'):
        d = os.path.join(dst, os.path.basename(sub))
        shutil.rmtree(d, ignore_errors=True)
        os.makedirs(d)
        for f in os.listdir(os.path.join(src, sub)):
            if f.endswith('.go') and not f.endswith('_test.go'):
                txt = open(os.path.join(src, sub, f), encoding='utf-8').read()
                open(os.path.join(d, f), 'w', encoding='utf-8').write(txt)
    open(marker, 'w').write('ok')


def ensure_mod():
    os.makedirs(BUILD, exist_ok=True)
    mod = open(os.path.join(REPO, 'go.mod')).read()
    if 'porcupine' not in mod:
        mod += '\nrequire github.com/anishathalye/porcupine v1.3.0\n'
    p = os.path.join(BUILD, 'go.mod')
    if not os.path.exists(p) or open(p).read() != mod:
        open(p, 'w').write(mod)
    sump = os.path.join(BUILD, 'go.sum')
    want = open(os.path.join(REPO, 'go.sum')).read()
    extra = os.path.join(VERIF, 'lib', 'go.sum.extra')
    if os.path.exists(extra):
        want += open(extra).read()
    if not os.path.exists(sump) or not open(sump).read().startswith(want):
        open(sump, 'w').write(want)


def dir_files(srcdir, virtdir, suffix='.go', rename=None):
    """Map every file of /verif/<srcdir> to <virtdir>/<name> (virtual path relative to /repo)."""
    out = {}
    base = srcdir if os.path.isabs(srcdir) else os.path.join(VERIF, srcdir)
    for f in sorted(os.listdir(base)):
        if f.endswith(suffix):
            out[os.path.join(virtdir, rename(f) if rename else f)] = os.path.join(base, f)
    return out


def vmon_files():
    return dir_files('harness/vmon', 'zzverif/vmon')


def ref_files(which):
    ensure_ref()
    out = {}
    for w in which:
        out.update(dir_files(os.path.join(BUILD, 'ref', w), 'zzverif/ref/' + w))
    return out


class Child:
    def __init__(self, rc, report, journal_last, log, timed_out, wall):
        self.rc, self.report, self.journal_last, self.log = rc, report, journal_last, log
        self.timed_out, self.wall = timed_out, wall


class Ctx:
    def __init__(self, pid, tier, seed, level, rule):
        self.id, self.tier, self.seed, self.level, self.rule = pid, tier, seed, level, rule
        self.t0 = time.time()
        self.evaluations = 0
        self.distinct = set()
        self.samples = []
        self.stats = {}
        self.notes = {}
        self.violations = []   # dicts: key, what, case
        self.inconclusive = []
        self.assumptions = []
        self.extra_cov = {}
        self.scratch = os.path.join(BUILD, 'run', '%s-%d' % (pid, os.getpid()))
        # scratch of runs that ended with a violation is kept for inspection: drop what is older than three hours
        try:
            for d in os.listdir(os.path.join(BUILD, 'run')):
                dp = os.path.join(BUILD, 'run', d)
                if time.time() - os.path.getmtime(dp) > 3 * 3600:
                    shutil.rmtree(dp, ignore_errors=True)
        except OSError:
            pass
        shutil.rmtree(self.scratch, ignore_errors=True)
        os.makedirs(self.scratch)
        os.makedirs(BIN, exist_ok=True)
        self.home = os.path.join(self.scratch, 'home')
        os.makedirs(self.home)
        self.nchild = 0
        self.thorough = tier == 'thorough'

    # ------------------------------------------------------------------ build
    def build(self, name, pkg, files, race=False, extra=None, tags=None, ldflags=None, buildmode=None,
              gcflags=None, timeout=1500):
        """go test -c from /repo's working tree with harness files overlaid.
        files: {virtual path relative to /repo: real path}."""
        ensure_mod()
        ov = {'Replace': {os.path.join(REPO, v): s for v, s in files.items()}}
        ovp = os.path.join(self.scratch, 'overlay-%s.json' % name)
        json.dump(ov, open(ovp, 'w'))
        out = os.path.join(BIN, '%s.test' % name)
        gc = 'all=-l' if gcflags is None else gcflags
        if race:
            gc += ' -d=checkptr=0'
        cmd = ['go', 'test', '-c', '-vet=off', '-modfile=' + os.path.join(BUILD, 'go.mod'), '-overlay=' + ovp,
               '-gcflags=' + gc, '-o', out]
        if race:
            cmd.append('-race')
        if tags:
            cmd.append('-tags=' + tags)
        if ldflags:
            cmd.append('-ldflags=' + ldflags)
        if buildmode:
            cmd.append('-buildmode=' + buildmode)
        if extra:
            cmd += extra
        cmd.append(pkg)
        t = time.time()
        try:
            p = subprocess.run(cmd, cwd=REPO, env=goenv(), stdout=subprocess.PIPE, stderr=subprocess.STDOUT,
                               text=True, timeout=timeout)
        except subprocess.TimeoutExpired:
            raise Inconclusive('build of %s timed out' % name)
        self.stats['build_s:' + name] = round(time.time() - t, 1)
        if p.returncode != 0 or not os.path.exists(out):
            logp = os.path.join(self.scratch, 'build-%s.log' % name)
            open(logp, 'w').write(p.stdout)
            sys.stderr.write(p.stdout[-4000:])
            raise Inconclusive('build of %s failed (log %s)' % (name, logp))
        return out

    # ------------------------------------------------------------------- run
    def child(self, binary, run='.', env=None, timeout=600, shard=(0, 1), wrap=None, args=None, label=None):
        self.nchild += 1
        n = self.nchild
        tag = label or ('c%d' % n)
        outp = os.path.join(self.scratch, 'report-%s.json' % tag)
        jrn = os.path.join(self.scratch, 'journal-%s.jsonl' % tag)
        logp = os.path.join(self.scratch, 'log-%s.txt' % tag)
        home = os.path.join(self.home, tag)
        os.makedirs(home, exist_ok=True)
        e = goenv({'VERIF_SEED': str(self.seed), 'VERIF_TIER': self.tier, 'VERIF_OUT': outp, 'VERIF_JOURNAL': jrn,
                   'VERIF_SHARD': str(shard[0]), 'VERIF_NSHARDS': str(shard[1]), 'HOME': home,
                   'VERIF_SCRATCH': self.scratch})
        e.pop('GOOM_DEBUG', None)
        # The recorded finding C11/preempted-on-overhanging-entry-jump (a goroutine interrupted inside an entry jump kills the
        # runtime's unwinder) is C11's to observe; every other check runs without asynchronous preemption signals so that
        # this one-in-10^8-calls hazard cannot surface as an alarm for an unrelated property.
        e['GODEBUG'] = 'asyncpreemptoff=1'
        if env:
            e.update(env)
        cmd = [binary, '-test.run', run, '-test.timeout', '0']
        if args:
            cmd += args
        if wrap:
            cmd = wrap + cmd
        cmd = ['timeout', '-s', 'QUIT', '-k', '20', str(timeout)] + cmd
        t = time.time()
        with open(logp, 'w') as lf:
            p = subprocess.run(cmd, cwd=self.scratch, env=e, stdout=lf, stderr=subprocess.STDOUT)
        wall = time.time() - t
        rep = None
        if os.path.exists(outp):
            try:
                rep = json.load(open(outp))
            except Exception:
                rep = None
        last = None
        if os.path.exists(jrn):
            try:
                with open(jrn, 'rb') as f:
                    lines = f.read().decode('utf-8', 'replace').strip().split('\n')
                if lines and lines[-1]:
                    last = lines[-1]
            except Exception:
                pass
        timed_out = p.returncode in (124, 137) or (p.returncode == 2 and wall >= timeout - 1)
        shutil.rmtree(home, ignore_errors=True)
        return Child(p.returncode, rep, last, logp, timed_out, wall)

    def absorb(self, ch, crash_key=None, what='child'):
        """Merge a child's report; classify crashes."""
        if ch.report is not None:
            r = ch.report
            self.evaluations += int(r.get('evaluations', 0))
            self.distinct.update(r.get('distinct') or [])
            for s in (r.get('samples') or []):
                if len(self.samples) < 8:
                    self.samples.append(s)
            for k, v in (r.get('stats') or {}).items():
                if k.startswith('max:'):
                    self.stats[k] = max(self.stats.get(k, 0), v)
                else:
                    self.stats[k] = self.stats.get(k, 0) + v
            for k, v in (r.get('notes') or {}).items():
                self.notes.setdefault(k, v)
            for v in (r.get('violations') or []):
                self.violations.append(v)
            if r.get('inconclusive'):
                self.inconclusive.append(r['inconclusive'])
            for a in (r.get('assumptions') or []):
                if a not in self.assumptions:
                    self.assumptions.append(a)
        if ch.timed_out:
            self.inconclusive.append('%s: watchdog fired after %.0fs (log %s)' % (what, ch.wall, ch.log))
            return
        if ch.rc != 0 or ch.report is None:
            tail = ''
            try:
                txt = open(ch.log, errors='replace').read()
                m = re.search(r'(fatal error: .*|panic: .*|SIG[A-Z]+: .*|unexpected signal.*)', txt)
                tail = m.group(1)[:200] if m else txt[-300:]
            except Exception:
                pass
            case = None
            if ch.journal_last:
                try:
                    case = json.loads(ch.journal_last)
                except Exception:
                    case = ch.journal_last
            key = crash_key or (self.id + '/crash')
            if isinstance(case, dict) and case.get('crashkey'):
                key = case['crashkey']
            # recogniser for one recorded finding: a goroutine is interrupted INSIDE goom's 13-byte entry jump (pc = entry+1 or
            # entry+11) of a mocked function; the runtime's pc-indexed tables describe the ORIGINAL bytes there, so the
            # unwinder dies: either 'invalid pc-encoded table' (function shorter than the jump) or a mis-walked frame
            # ('unknown caller pc' / fault in runtime.(*unwinder).next) when the original prologue had already moved SP.
            try:
                ents = case.get('entries') if isinstance(case, dict) else None
                if ents:
                    m = re.search(r'invalid pc-encoded table f=(\S+) pc=0x([0-9a-f]+) targetpc=0x([0-9a-f]+)', txt)
                    if m and m.group(1) in ents:
                        entry, end, tpc = int(ents[m.group(1)]), int(m.group(2), 16), int(m.group(3), 16)
                        if tpc == entry + 11 and end - entry < 13:
                            key = self.id + '/preempted-on-overhanging-entry-jump'
                            tail = 'runtime unwinder: pc %#x = entry+11 of mocked %s whose code is only %d bytes' % (tpc, m.group(1), end - entry)
                    unw = ('unknown caller pc' in txt or 'unexpected return pc' in txt or
                           re.search(r'SIGSEGV[^\n]*\n[^\n]*\n\n?goroutine 0[^\n]*\nruntime\.\(\*unwinder\)\.next', txt))
                    if unw and not m:
                        for fm in re.finditer(r'^(\S+)\([^\n]*\)\n\t[^\n]* \+0x(1|b) fp=', txt, re.M):
                            if fm.group(1) in ents:
                                key = self.id + '/preempted-on-overhanging-entry-jump'
                                tail = 'runtime unwinder mis-walked a goroutine interrupted at %s+0x%s, inside the entry jump' % (fm.group(1), fm.group(2))
                                break
                if isinstance(case, dict):
                    case.pop('entries', None)
            except Exception:
                pass
            self.violations.append({'key': key, 'what': '%s died rc=%s: %s' % (what, ch.rc, tail),
                                    'case': {'journal_last': case, 'log': ch.log}})

    def children(self, binary, nshards, run='.', env=None, timeout=600, parallel=16, wrap=None, args=None,
                 crash_key=None, what='child'):
        res = []
        with ThreadPoolExecutor(max_workers=parallel) as ex:
            futs = [ex.submit(self.child, binary, run, env, timeout, (i, nshards), wrap, args, None)
                    for i in range(nshards)]
            for f in futs:
                res.append(f.result())
        for ch in res:
            self.absorb(ch, crash_key, what)
        return res

    def parallel(self, jobs, parallel=16, crash_key=None):
        """jobs: list of dicts(binary, run, env, timeout, what, args, wrap); run concurrently, absorb in order."""
        with ThreadPoolExecutor(max_workers=parallel) as ex:
            futs = [(j, ex.submit(self.child, j['binary'], j.get('run', '.'), j.get('env'), j.get('timeout', 600),
                                  j.get('shard', (0, 1)), j.get('wrap'), j.get('args'), None)) for j in jobs]
            out = []
            for j, f in futs:
                ch = f.result()
                self.absorb(ch, j.get('crash_key', crash_key), j.get('what', j.get('run', 'child')))
                out.append(ch)
        return out

    # ------------------------------------------------------------------ finish
    def finish(self):
        wall = round(time.time() - self.t0, 2)
        known = load_known()
        open_by_key = {k['key']: k for k in known if k['property'] == self.id and k.get('status') == 'open'}
        seen_known = {}
        unlisted = []
        for v in self.violations:
            k = v.get('key', self.id + '/unknown')
            if k in open_by_key:
                seen_known[k] = seen_known.get(k, 0) + 1
            else:
                unlisted.append(v)
        if not self.samples:
            self.samples.append({'note': 'no case ran to completion in this run',
                                 'first_violation': (self.violations[0].get('what') if self.violations else None),
                                 'inconclusive': self.inconclusive[:2]})
        cov = {
            'evaluations': int(self.evaluations),
            'distinct_nontrivial': len(self.distinct),
            'rule': self.rule,
            'samples': self.samples[:8],
            'stats': self.stats,
            'notes': self.notes,
            'distinct_examples': sorted(self.distinct)[:25],
            'known_findings_observed': seen_known,
            'inconclusive': self.inconclusive,
        }
        cov.update(self.extra_cov)
        ev = {
            'property_id': self.id, 'tier': self.tier, 'seed': int(self.seed), 'level': self.level,
            'coverage': cov, 'assumptions': self.assumptions, 'wall_s': wall,
            'violations': len(unlisted),
        }
        os.makedirs(os.path.join(VERIF, 'evidence'), exist_ok=True)
        evp = os.path.join(VERIF, 'evidence', self.id + '.json')
        json.dump(ev, open(evp + '.tmp', 'w'), indent=1, sort_keys=True, default=str)
        os.replace(evp + '.tmp', evp)
        for k, kf in sorted(open_by_key.items()):
            print('KNOWN-FINDING: property=%s %s [key=%s observed=%d]' % (self.id, kf['what'], k, seen_known.get(k, 0)))
        rc = 0
        # replay files of an earlier run of this check (same seed and tier) say nothing about this run
        import glob as _glob
        for old_rp in _glob.glob(os.path.join(VERIF, 'replays', '%s-seed%d-%s-*.json' % (self.id, self.seed, self.tier))):
            try:
                os.remove(old_rp)
            except OSError:
                pass
        if unlisted:
            os.makedirs(os.path.join(VERIF, 'replays'), exist_ok=True)
            seenk = {}
            for i, v in enumerate(unlisted):
                seenk[v.get('key')] = seenk.get(v.get('key'), 0) + 1
                if seenk[v.get('key')] > 3:
                    continue
                rp = os.path.join(VERIF, 'replays', '%s-seed%d-%s-%d.json' % (self.id, self.seed, self.tier, i))
                json.dump({'property': self.id, 'seed': self.seed, 'tier': self.tier, 'violation': v},
                          open(rp, 'w'), indent=1, default=str)
                print('VIOLATION property=%s replay=%s' % (self.id, rp))
                print('  key=%s what=%s' % (v.get('key'), str(v.get('what'))[:300]))
                if len(seenk) > 12:
                    break
            rc = 1
        elif self.inconclusive:
            for r in self.inconclusive[:5]:
                print('INCONCLUSIVE property=%s reason=%s' % (self.id, r))
            rc = 2
        elif self.evaluations <= 0 or len(self.distinct) < 2:
            print('INCONCLUSIVE property=%s reason=monitors observed too little (evaluations=%d distinct=%d)' %
                  (self.id, self.evaluations, len(self.distinct)))
            rc = 2
        print('%s %s seed=%d: evaluations=%d distinct=%d violations=%d known=%d wall=%.1fs -> exit %d' % (
            self.id, self.tier, self.seed, self.evaluations, len(self.distinct), len(unlisted),
            sum(seen_known.values()), wall, rc))
        if rc == 0 or os.environ.get('VERIF_KEEP') is None:
            if rc == 0:
                shutil.rmtree(self.scratch, ignore_errors=True)
        return rc


def load_known():
    p = os.path.join(VERIF, 'known_findings.json')
    if not os.path.exists(p):
        return []
    return json.load(open(p)).get('findings', [])


def count_races(logglob):
    """Count and de-duplicate race reports written with GORACE=log_path."""
    n = 0
    sigs = set()
    for f in glob.glob(logglob):
        txt = open(f, errors='replace').read()
        for blk in txt.split('WARNING: DATA RACE')[1:]:
            n += 1
            fr = re.findall(r'^\s{2}([\w./()*\[\]\-]+)\(\)', blk, re.M)
            sigs.add(' | '.join(fr[:1] + fr[-1:]) if fr else 'unknown')
    return n, sorted(sigs)
