#!/bin/bash
cd /verif
store() { id=$1; src=$2; place=$3; checks=$4; run=${5:-.}
  mkdir -p seeded/$id; cp $src/patch.diff $src/demo_test.go seeded/$id/; cp $src/README.md seeded/$id/README.md 2>/dev/null
  DEMO_RUN=$run python3 lib/triage.py $src $place $checks > seeded/$id/triage.json 2>&1; echo "$id stored"; }
w() { store $1-$2 /tmp/wt/$1/MUTANT_$2 zzdemo_$2/demo_test.go $3; }
w C06 A C06; w C06 B C06; w C07 A C07; w C07 B C07; w C09 A C09; w C09 B C09; w C10 A C10; w C10 B C10
w C16 A C16,C03; w C16 B C16; w C17 A C17; w C17 B C17; w C18 A C18; w C18 B C18; w C19 A C19; w C19 B C19
w C11 A C11,C14; w C11 B C11,C05
