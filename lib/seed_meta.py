#!/usr/bin/env python3
# Writes seeded/<id>/meta.json from the triage result and the hand-written summary below.
import json, os
HERE = os.path.dirname(os.path.dirname(os.path.abspath(__file__)))
SUMMARY = {
 'C02-A': ('C02', '(*patch).unpatch() also clears the superseded guard\'s applied flag', 'two mocker objects on one function (two builders, or Func and Struct.Method routes); the older one is Reset/Cancelled first and silently does nothing'),
 'C02-B': ('C02', 'CachedMethodMocker.ExportMethod reuses the container\'s base mocker, so all unexported-method mockers of a struct share one guard slot', 'two different unexported methods of one struct mocked through Struct(x).ExportMethod on one builder, then Reset: the first keeps its jump'),
 'C03-A': ('C03', 'EncodeAddress drops the opcode-growth term when widening Jcc rel8 -> 0F 8x rel32', 'the widened branch must be TAKEN through the placeholder (leaf starting with test+jcc, or the morestack branch under low stack headroom): lands one byte late'),
 'C03-B': ('C03', 'checkJumpBetween scans only the first 1024 bytes of the function', 'a frameless function whose loop head lies inside the first 13 bytes and whose only back edge is more than 1 KiB in: apply is accepted, the back edge lands inside the mock jump'),
 'C04-A': ('C04', 'DefaultMatcher.Match arity check `!=` became `<`', 'variadic target, a When clause, and a call with MORE variadic elements than the clause lists: the shorter clause matches'),
 'C04-B': ('C04', 'numeric equality through float64 conversion', 'signed integers above 2^53 that differ but round to the same float64 (2^53 vs 2^53+1)'),
 'C05-A': ('C05', 'cursor advance atomic.Add replaced by Load+Store', 'several goroutines on one long sequence: a delayed storer rewinds the cursor, positions go backwards'),
 'C05-B': ('C05', 'When.invoke evaluates the default sequence before looking at conditions', 'default is a sequence of >= 2, a condition exists, and a condition call happens before the default is exhausted'),
 'C08-A': ('C08', 'doSet uses `originValue == nil` as the not-yet-saved sentinel', 'interface-typed variable that is nil before the mock, two Set/Apply before Cancel/Reset'),
 'C08-B': ('C08', 'Builder.Var cache key formatted with %v of the pointer', 'struct/slice/map/array variables: key depends on contents; second lookup after Set misses the cache, or two equal-valued variables collide'),
 'C12-A': ('C12', 'reset2CurPkg() removed from the cache-hit exits of the builder lookups (hand-ported onto the fixed tree)', 'Pkg(P) + lookup of an already cached target, then ExportFunc by name without Pkg: resolves in P'),
 'C12-B': ('C12', 'CachedInterfaceMocker.Canceled() derived from the children instead of the shared context', 'interface variable with two configured methods, Cancel() of one method mocker, then new instructions: ignored / other method wiped'),
 'C13-A': ('C13', 'SignatureEquals skips the last parameter when the target is variadic', 'variadic target, callback whose LAST parameter is a non-slice of another size, parameter count equal'),
 'C13-B': ('C13', 'Returns() patches the target before validating the value sequence', 'Returns(...) as first configuration with an ill-sized element or bare values for a multi-result function: rejected but target left patched'),
 'C14-A': ('C14', 'restore-protection step page-aligns the address but keeps the length', 'a write that straddles a page boundary: the second page stays rwx'),
 'C14-B': ('C14', 'unlock mprotect asks for READ|WRITE without EXEC', 'another OS thread executing code in the same page during a patch; bytes and final permissions are correct'),
 'C15-A': ('C15', 'relative() becomes a plain int32 range check on to-from', 'backward jumps with from-to in [0x7ffffffc, 0x80000000]: rel32 chosen, lands 4 GiB off'),
 'C15-B': ('C15', 'iface.jmpWithRdx writes into a shared package-level buffer', 'two sequences alive at once / concurrent stub builders: the earlier sequence is overwritten'),
 'C20-A': ('C20', 'second overflow check after the atomic add removed', 'fallback reserve nearly exhausted and >= 2 concurrent requesters: regions past the end of the reserve, no error'),
 'C20-B': ('C20', 'returned stub address rounded down to 16 bytes', 'one request whose size is not a multiple of 16 followed by any other: regions overlap'),
}

SUMMARY.update({
 'C01-A': ('C01', 'patch object drops its references to origin/replacement after replaceFunc ("leak fix")', 'the replacement is a heap closure or Return stub, the user dropped the builder, and a GC runs: the closure the entry jump points at is collected'),
 'C01-B': ('C01', 'debug interceptor hoists its results slice out of the per-call closure', 'debug logging on, two goroutines inside the same mock at once, results that differ per call: a caller receives another call\'s results'),
 'C06-A': ('C06', 'Builder.Struct cache key uses Type().Elem() for pointers, so Struct(T{}) and Struct(&T{}) share a mocker', 'one builder: Struct(&T{}) first, then Struct(T{}).Method(V) with a value receiver: only the pointer wrapper is patched'),
 'C06-B': ('C06', 'GetInnerFunc reads one 64-byte block and gives up after offset 48', 'method of an instantiated generic type whose dictionary wrapper has its CALL beyond offset 48 (wide value receiver, >= 7 integer arguments): wrapper patched instead of the shape function'),
 'C07-A': ('C07', 'MakeInterface fills the not-implemented table once and writes the mocked slot through the shared template', 'a second fake itab in the process leaving un-mocked a slot an earlier one mocked: the un-mocked method dispatches to the earlier callback'),
 'C07-B': ('C07', 'GC holder for the MakeFunc object removed on the As()/Return path', '>= 2 methods of one variable stubbed via As().Return, a GC cycle, then a call to a method stubbed before the last'),
 'C09-A': ('C09', 'toValue treats typed nil like untyped nil', 'typed nil ((*E)(nil), []int(nil)) supplied for an interface-typed result: dynamic type lost'),
 'C09-B': ('C09', 'size check before cast() removed', 'different-typed struct of a different size supplied for a struct result/argument: accepted and reinterpreted'),
 'C10-A': ('C10', 'FindVarByName aligns the address down to 8 bytes', 'variables not on an 8-byte boundary (bool, int8, int16 runs)'),
 'C10-B': ('C10', 'unsynchronised last-hit memo in FindFuncByName', 'two goroutines looking up different names at once: name and address published mixed'),
 'C11-A': ('C11', 'WriteTo opens the page READ|WRITE without EXEC', 'another thread executing code on the page being patched'),
 'C11-B': ('C11', 'sequence cursor range check separated from its atomic increment', '>= 2 callers reach the last step of a multi-result sequence together: index out of range panic in the caller'),
 'C16-A': ('C16', 'PCRelOff taken from the read cursor after immediates were read', 'RIP-relative instruction followed by an immediate (CMPB $0, x(SB))'),
 'C16-B': ('C16', '15-byte clamp at the top of Decode removed', '16-byte window holding a real instruction padded with redundant legacy prefixes: Len = 16'),
 'C17-A': ('C17', 'ADRP displacement sign-extended from 32 instead of 33 bits', 'ADRP words with a page distance of 2 GiB or more'),
 'C17-B': ('C17', 'Cond.String() table lookup one entry short', 'condition field 0b1111 (NV) and the instruction being printed: panic'),
 'C18-A': ('C18', 'numeric equality through float64 conversion', '64-bit integers above 2^53 that round to the same float'),
 'C18-B': ('C18', 'InExpr.Resolve de-duplicates alternatives by their %v text', 'alternatives that print alike but are unequal (empty vs nil slice, []string{"a b"} vs {"a","b"})'),
 'C19-A': ('C19', 'SprintV calls Error()/String() directly', 'logging on and a typed-nil or panicking Stringer/error among arguments or results'),
 'C19-B': ('C19', 'debug interceptor flattens the variadic slice and uses Call', 'logging on, variadic Apply callback that depends on the slice being nil or shared with the caller'),
})

SUMMARY.update({
 'C01-C': ('C01', 'the "-fm" branch of DefMocker.doApply removed: a method given to Func as a method value only gets its wrapper patched', 'target passed as obj.Method; calls in any other form (direct, interface, method expression, goroutine) run the original'),
 'C01-D': ('C01', 'entry jump becomes `mov r11,[rdx]; jmp r11`', 'mocked function whose parameters fill nine integer registers, Apply callback reading the ninth (R11 is an argument register)'),
 'C02-C': ('C02', 'ExportFunc stores the new mocker under a key computed after reset2CurPkg()', 'one builder mocks same-named unexported functions of two packages (one through Pkg()), then Reset: the first is orphaned and stays patched'),
 'C02-D': ('C02', 'baseMocker.Cancel returns early when the canceled flag is already set', 'm.Apply; m.Cancel; m.Apply through the same kept mocker object; then Reset/Cancel does nothing'),
 'C03-C': ('C03', 'opExpand gains entries, JLE widened to the JL opcode by copy-paste', 'frameless leaf starting with CMP;JLE beyond byte 13, origin called with the compared operands equal'),
 'C03-D': ('C03', 'fixIns treats a target at the function\'s own entry as external', 'loop whose head is the entry and fits in 13 bytes: the back edge in the trampoline goes to the mock'),
 'C06-C': ('C06', 'IsGenericsFunc no longer recognises value-receiver methods of generic types', 'Struct(Box[int]{}).Method(Val) with a value receiver and a direct call'),
 'C06-D': ('C06', 'MethodMocker.Apply skips the re-patch when the callback has the same code pointer', 'second Apply on the cached method mocker with another closure of the same literal'),
 'C07-C': ('C07', 'IContext.Cancel returns early once canceled', 'apply, Reset, apply again through the CachedInterfaceMocker kept from before, Reset: variable keeps the mock'),
 'C07-D': ('C07', 'DefaultInterfaceMocker.Apply skips when the callback has the same code pointer', 'same method applied twice with closures of one literal, debug off'),
 'C11-C': ('C11', 'jmpToFunctionValue fills a package-level template and returns a slice of it', 'interleaving M1.build < M2.build < M1.apply of independent builders: M1 writes M2\'s jump into its own target'),
 'C11-D': ('C11', 'roll-back of a rejected patch calls unpatchValue after the patches lock was released', 'one goroutine\'s configuration is refused inside replaceFunc while another goroutine is patching'),
 'C12-C': ('C12', 'DefMocker.Apply skips when the callback has the same code pointer', 'two consecutive Apply calls with closures of one literal'),
 'C12-D': ('C12', 'DefaultInterfaceMocker.As clears the When', 'interface method configured in two statements of one builder, the later repeating As(): earlier clauses dropped'),
 'C14-C': ('C14', 'final size check before writing the trampoline uses the relocated-prefix size instead of the data written', 'placeholder whose size lies in the 5/12-byte window between prefix and full write: next function overwritten'),
 'C14-D': ('C14', 'mProtectCrossPage loop bound `p < last`', 'write whose last byte is exactly the first byte of a page: that page is never unlocked'),
})

SUMMARY.update({
 'C04-C': ('C04', 'InExpr.Eval variadic branch builds its expanded vector by appending to input[:last] (aliases the caller\'s argument slice)', 'variadic target, an In clause registered before another clause, a call the In clause rejects: later clauses see a damaged argument vector'),
 'C04-D': ('C04', 'When.invoke tries all When clauses before all In clauses', 'In clause registered before an overlapping When clause, call in the overlap'),
 'C05-C': ('C05', 'AddResult drops a result equal to the previous one', 'sequence with two equal consecutive results followed by a different one (retry stubs)'),
 'C05-D': ('C05', 'sequence-exhausted test `==` instead of `>=`', 'simultaneous callers push the cursor past length: index out of range afterwards'),
 'C08-C': ('C08', 'Cancel skips the restore when the current value is DeepEqual to the backup', 'pointer/map/slice variable mocked with a distinct object deep-equal to the original'),
 'C08-D': ('C08', 'unexported-variable Set rebuilds the embedded mocker each time', 'by-name path, two or more Set/Apply before Cancel/Reset'),
 'C09-C': ('C09', 'cast() rebuilt on reflect.NewAt assuming the data word is an address', 'stand-in struct consisting of a single pointer-like word (struct{p *T}, map, chan, func)'),
 'C09-D': ('C09', 'numeric equality through float64 conversion', 'When values above 2^53 that round alike'),
 'C10-C': ('C10', 'function-name index (map) where the last duplicate wins', 'names that occur twice in the pclntab (function + ABI wrapper): the wrapper\'s address is returned'),
 'C10-D': ('C10', 'fallback to the ELF symbol table for names absent from the pclntab, reusing the pclntab bias', 'externally linked (cgo) unstripped binary and a symbol only in the ELF table'),
 'C13-C': ('C13', 'signature check skipped for a target already in the patch table', 'target mocked correctly once before (even if reset since), then an ill-formed callback'),
 'C13-D': ('C13', 'stand-in struct size check only rejects larger values', 'struct result or When argument given a smaller struct of another type'),
 'C15-C': ('C15', 'divert jump uses sign-extending `mov rdx, imm32` when the address fits 32 bits', 'replacement func value between 2 and 4 GiB'),
 'C15-D': ('C15', 'rel8 short form of the trampoline return jump reuses the rel32 displacement', 'trampoline within about +-128 bytes of the origin'),
 'C16-C': ('C16', 'three-byte VEX prefix advanced by one byte', 'C4-encoded VEX instructions (hand-written AVX assembly)'),
 'C16-D': ('C16', 'IsREX range check off by one (0x4F not a REX prefix)', 'instructions with REX.WRXB (extended reg, index and base)'),
 'C17-C': ('C17', 'B.cond table row mask loses bit 4', 'words 0x54...... with bit 4 set decode although unallocated'),
 'C17-D': ('C17', 'BFXPreferred predicate merged, 64-bit unsigned guard lost', 'UBFM Xd,Xn,#0,#7|15|31 decodes as UBFM instead of UBFX'),
 'C18-C': ('C18', 'InExpr.Eval moves a matching alternative to the front with an off-by-one copy', 'In with >= 3 alternatives evaluated repeatedly: a later query for the dropped alternative is rejected'),
 'C18-D': ('C18', '`==` shortcut for comparable composite types before DeepEqual', 'struct/array with an inner pointer to an equal but distinct pointee, or interface field holding a slice'),
 'C19-C': ('C19', 'logger caller prefix trims the path without guarding a missing slash', 'logging on and a frame whose file name has no directory (//line directives of generated code)'),
 'C19-D': ('C19', 'isZero follows pointers', 'logging on and a pointer argument/result into a cycle whose emptiness needs a deep walk (rings, container/list)'),
 'C20-C': ('C20', 'mmap length rounded down to whole pages', 'request larger than a page and not a multiple of it'),
 'C20-D': ('C20', 'end of the fallback reserve computed from the ABI wrapper\'s address', 'mmap refused and the reserve used up: regions handed out past the real end'),
})

SUMMARY.update({
 'C01-E': ('C01', 'DefMocker.Apply returns early when the new callback has the type and CODE pointer of the installed one', 'Apply(cb1) then Apply(cb2) on one mock, cb1 and cb2 two values of one function literal (different captures)'),
 'C01-F': ('C01', 'memory.WriteTo opens the page READ|WRITE without EXEC while it writes', 'a goroutine calling a mocked function on the page while another mock on that page is installed or removed'),
 'C02-E': ('C02', 'baseMocker.applyBy* drop the held guard before asking the patch layer', 'a successful mock, then a rejected Apply (wrong signature) on the same target, then Reset/Cancel: the live jump is never removed'),
 'C02-F': ('C02', 'CachedMethodMocker.Cancel returns at the first already-cancelled method mocker (return for continue)', 'two methods of one struct mocked through one builder, one cancelled individually, then Reset'),
 'C03-E': ('C03', 'isByteOverflow tests against the unsigned byte range', 'placeholder 100..250 bytes in front of the function and a rel8 branch in the first 13 bytes that leaves the block: kept short, goes backwards'),
 'C03-F': ('C03', 'replaceFunc reuses the trampoline of an earlier patch of the same origin into the same placeholder', 'one placeholder serving f, then g, then f again (one mock at a time)'),
 'C04-E': ('C04', 'InExpr.Resolve shares the expansion buffer between alternatives', 'variadic target, In with two or more typed-slice alternatives, call matching a non-first alternative'),
 'C04-F': ('C04', 'EqualsExpr memoises its last answer by reflect.Value identity', 'two calls passing the same pointer/map with changed contents'),
 'C05-E': ('C05', 'debug interceptor shares one results variable between invocations', 'debug logging on and overlapping callers of an unexhausted sequence'),
 'C05-F': ('C05', 'baseMocker.callback copies the results into a per-mocker buffer', 'two goroutines inside one multi-result stub at once: tuples mixed from two steps'),
 'C06-E': ('C06', 'CachedMethodMocker.ExportMethod hands every method name the container\'s own base mocker', 'two unexported methods of one struct stubbed through one Struct(x)'),
 'C06-F': ('C06', 'symbol names compared after strings.TrimRight(x, ".abi0") (cutset, not suffix)', 'by-name mock of a method/function with a sibling whose name differs only by trailing characters out of ".abi0" (get/get0/geta)'),
 'C07-E': ('C07', 'debug wrapper forwards variadic replacements with Call instead of CallSlice', 'debug logging on, variadic interface method, Apply'),
 'C07-F': ('C07', 'finalizer on the per-variable interface mocker cancels the mock', 'builder dropped while the variable is still used, then a garbage collection'),
 'C08-E': ('C08', 'unExportedVarMocker loses its own String(); the embedded one dereferences the not-yet-created target', 'by-name variable mock never Set/Applied, then Builder.Reset'),
 'C08-F': ('C08', 'ELF symbol loader keeps only .data/.noptrdata/.bss symbols', 'by-name mock of a pointer-free variable that starts as the zero value (.noptrbss)'),
 'C09-E': ('C09', 'outTypes() cached by the printed function type', 'two functions whose types print identically (same-named types of same-named packages), stubbed one after the other'),
 'C09-F': ('C09', 'EqualsExpr fast path treats every empty slice/map as equal to every other', 'When(nil) on a slice/map parameter called with an empty non-nil value, or When([]T{}) called with nil'),
 'C10-E': ('C10', 'UnexportedMethodMocker memoises its symbol name; Method(name) does not clear it', 'one mocker object from the exported constructor pointed at a second method'),
 'C10-F': ('C10', 'UnexportedMethodMocker.Apply falls back from pkg.T.m to pkg.(*T).m', 'value-receiver spelling of a method that only exists with a pointer receiver: another symbol is patched'),
 'C11-E': ('C11', 'CreateFuncForCodePtr caches its MakeFunc value by function type', 'two live mocks with origin placeholders of the same function type: the earlier placeholder now runs the later original'),
 'C11-F': ('C11', 'InExpr.Eval reuses one argument window per expression object', 'steady mock with In(...) and two callers inside at once with arguments of different verdicts'),
 'C12-E': ('C12', 'interface When/Return dispatcher reused when the As function type is the same', 'two methods of one interface variable with identical signatures, both stubbed'),
 'C12-F': ('C12', 'MethodMocker.Apply no longer detaches the earlier When', 'Return, then Apply, then Return again on one struct method'),
 'C13-E': ('C13', 'function symbol lookup falls back to the first symbol the name is a prefix of', 'unknown name that is a proper prefix of an existing symbol'),
 'C13-F': ('C13', 'newDefaultMatch truncates the fixed parameter types to the number of supplied condition arguments', 'variadic target with two or more fixed parameters, too few condition arguments in a When that is not the first configuration call'),
 'C14-E': ('C14', 'the saved original bytes are 20 long, so removal rewrites 20 bytes', 'a neighbour less than 20 bytes behind the target whose bytes changed between install and removal (it was mocked meanwhile)'),
 'C14-F': ('C14', 'GetFuncSize reports decoder errors; the caller then assumes 1024 bytes', 'too-short function followed directly by bytes the bundled decoder rejects (EVEX, 64-bit-invalid opcode)'),
 'C15-E': ('C15', 'replaceFunc keeps the installed sequence when the new replacement has the same CODE address', 'diverting again, without restoring, to another function value that shares its code (closure of the same literal, method value, MakeFunc)'),
 'C15-F': ('C15', 'trampoline builder asks for 12 moved bytes instead of 13', 'function with an instruction boundary at byte 12: the return jump lands inside the overwritten bytes'),
 'C16-E': ('C16', 'REX.B folded into r/m before the SIB test', 'SIB-form memory operand with REX.B (R12 base, base in R8-R15): length one byte short'),
 'C16-F': ('C16', 'REX without W resets the operand size to 32', '0x66 together with a REX prefix and a 16-bit immediate: length two bytes long'),
 'C17-E': ('C17', 'Inst.String counts operands by scanning for the nil terminator without a bound', 'the only five-operand instruction (SYSL): index out of range when printed'),
 'C17-F': ('C17', 'table scan resumes at the row that matched last time', 'alias word decoded after a word of the general form: general opcode reported'),
 'C18-E': ('C18', 'toValue treats a typed nil like the untyped nil', 'interface-typed parameter and a typed-nil expectation'),
 'C18-F': ('C18', 'EqualsExpr memoises its last answer by reflect.Value identity', 'the same storage evaluated twice with changed contents'),
 'C19-E': ('C19', 'debug line renders defaultReturns.Result(), which advances the cursor', 'logging on, a condition registered, a call matching none, default is a sequence'),
 'C19-F': ('C19', 'trace dump title dereferences runtime.FuncForPC(addr) without a nil check', 'trace logging and an interface mock (stub address outside the Go text)'),
 'C20-E': ('C20', 'extent scanner no longer stops at a single int3', 'mmap refused and the reserve used to its end: the reserve end lies past the placeholder'),
 'C20-F': ('C20', 'mProtectCrossPage makes one mprotect call from the page start with the unrounded length', 'a region of the fallback reserve that straddles a page boundary is written'),
})

for sid, (prop, change, needs) in sorted(SUMMARY.items()):
    d = os.path.join(HERE, 'seeded', sid)
    tj = os.path.join(d, 'triage.json')
    if not os.path.exists(tj):
        print('missing', sid)
        continue
    try:
        t = json.load(open(tj))
    except Exception:
        print('bad triage', sid)
        continue
    meta = {
        'id': sid, 'property': prop, 'change': change, 'needs_to_manifest': needs,
        'origin': 'written by an independent sub-agent that saw only the property text and a scratch worktree',
        'confirmed': {
            'demo_on_unchanged_tree': t.get('demo_without_patch'), 'demo_with_change': t.get('demo_with_patch'),
            'baseline_stable_tests_missing_with_change': t.get('baseline_missing_with_patch'),
            'commands': ['git worktree add --detach /tmp/mw HEAD (scratch, removed afterwards)',
                         'go test -vet=off -count=1 -gcflags=all=-l <demo pkg>   (before and after `git apply patch.diff`)',
                         'go test -json -vet=off -count=1 ./...   (45 stable baseline tests with the change)',
                         'git -C /repo apply patch.diff; ./check <ID> quick; git -C /repo checkout -- .'],
        },
        'checks': t.get('checks'),
        'caught': any(v.get('exit') == 1 for v in (t.get('checks') or {}).values()),
    }
    json.dump(meta, open(os.path.join(d, 'meta.json'), 'w'), indent=1)
    print(sid, 'caught' if meta['caught'] else 'MISSED', {k: v.get('keys') for k, v in (t.get('checks') or {}).items()})
