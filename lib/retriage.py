#!/usr/bin/env python3
# lib/retriage.py <seeded-id> <check ids,comma> : re-runs the named quick checks against a scratch worktree of /repo
# HEAD with seeded/<id>/patch.diff applied (VERIF_REPO) and rewrites the "checks" part of seeded/<id>/triage.json; the
# result of the very first run is kept under "first_pass_checks".  /repo itself is not touched.
import json, os, subprocess, sys, time
HERE = os.path.dirname(os.path.dirname(os.path.abspath(__file__)))
sid, checks = sys.argv[1], sys.argv[2].split(',')
d = os.path.join(HERE, 'seeded', sid)
tj = os.path.join(d, 'triage.json')
t = json.load(open(tj))
wc = '/tmp/mwr-%s-%d' % (sid, os.getpid())
env = dict(os.environ, GOFLAGS='-mod=mod', GOPROXY='off', GOSUMDB='off', GOTOOLCHAIN='local')
subprocess.run(['git', '-C', '/repo', 'worktree', 'add', '-q', '--detach', wc, 'HEAD'], check=True)
try:
    r = subprocess.run(['git', 'apply', os.path.join(d, 'patch.diff')], cwd=wc, capture_output=True, text=True)
    if r.returncode != 0:
        print(sid, 'PATCH DOES NOT APPLY', r.stderr[-200:])
        sys.exit(3)
    res = {}
    for cid in checks:
        t0 = time.time()
        p = subprocess.run(['./check', cid, os.environ.get('TIER', 'quick')], cwd=HERE, env=dict(env, VERIF_REPO=wc), stdout=subprocess.PIPE, stderr=subprocess.STDOUT, text=True, timeout=3600)
        out = p.stdout
        keys = sorted(set(l.split('key=')[1].split(' ')[0] for l in out.splitlines() if 'key=' in l and 'KNOWN-FINDING' not in l))
        res[cid] = {'exit': p.returncode, 'keys': keys, 'secs': round(time.time() - t0, 1), 'last': out.strip().splitlines()[-1][:200] if out.strip() else ''}
    if 'first_pass_checks' not in t:
        t['first_pass_checks'] = t.get('checks')
    t['checks'] = res
    json.dump(t, open(tj, 'w'), indent=1)
    print(sid, {k: (v['exit'], v['keys'][:3]) for k, v in res.items()})
finally:
    subprocess.run(['git', '-C', '/repo', 'worktree', 'remove', '--force', wc])
    subprocess.run(['rm', '-rf', wc, os.path.join(HERE, '.build', 'bin-' + os.path.basename(wc))])
