#!/usr/bin/env python3
# Every run='...' pattern of a check must select exactly one test of that check's harness (two tests that write a report
# in one child overwrite each other's), and every Test function of a harness must be selected by some pattern.
# C15 hands its test names to ctx.parallel through a job list and is therefore listed under "never run" by design.
import re, glob, os, sys
HERE = os.path.dirname(os.path.dirname(os.path.abspath(__file__)))
bad = 0
for chk in sorted(glob.glob(os.path.join(HERE, 'checks', 'c*.py'))):
    cid = os.path.basename(chk)[:-3]
    src = open(chk).read()
    runs = set(re.findall(r"run='([^']+)'", src))
    ts = []
    for d in glob.glob(os.path.join(HERE, 'harness', cid + '*')):
        for root, _, files in os.walk(d):
            for f in files:
                if f.endswith('_test.go'):
                    ts += re.findall(r'^func (Test\w+)\(', open(os.path.join(root, f)).read(), re.M)
    for r in sorted(runs):
        m = [t for t in ts if re.search(r, t)]
        if len(m) != 1:
            print(cid, 'pattern', repr(r), 'selects', m)
            bad += 1
    un = [t for t in ts if not any(re.search(r, t) for r in runs)]
    if un and cid != 'c15':
        print(cid, 'never run:', un)
        bad += 1
sys.exit(1 if bad else 0)
