#!/usr/bin/env python3
# Regenerates /verif/MANIFEST.json from the table below (run after adding a check).
import json, os, sys
HERE = os.path.dirname(os.path.dirname(os.path.abspath(__file__)))

# id -> (category, technique, level text, level note, design ref)
CHECKS = {}


def add(pid, cat, technique, text, note, ref):
    CHECKS[pid] = (cat, technique, text, note, ref)


exec(open(os.path.join(HERE, 'lib', 'manifest_table.py')).read())

props = [json.loads(l)['id'] for l in open(os.path.join(HERE, 'properties.jsonl'))]
checks = []
na = []
for pid in props:
    if pid in CHECKS and os.path.exists(os.path.join(HERE, 'checks', pid.lower() + '.py')):
        cat, tech, text, note, ref = CHECKS[pid]
        checks.append({
            'property_id': pid,
            'quick_cmd': './check %s quick' % pid,
            'thorough_cmd': './check %s thorough' % pid,
            'evidence_file': 'evidence/%s.json' % pid,
            'replay_cmd_template': './check %s --replay {path}' % pid,
            'engine': 'goom-runtime-monitors',
            'level_claimed': {'category': cat, 'text': text, 'design_ref': ref},
            'level_note': note,
            'technique': tech,
        })
    else:
        na.append({'property_id': pid, 'reason': NOT_BUILT.get(pid, 'check not built yet in this round; runtime monitoring applies (see DESIGN.md section 2) but nothing is claimed until the monitor exists')})

m = {
    'version': 1,
    'setup_cmd': './check --setup',
    'hooks': {
        'guard': 'verif',
        'enable': 'no source hooks: harness files are injected with go test -c -overlay/-modfile from /repo\'s working tree (DESIGN.md 1.1); a //go:build verif file would be added only if an observation point were unreachable',
        'baseline_off_cmd': "cd /repo && GOFLAGS=-mod=mod GOPROXY=off GOSUMDB=off GOTOOLCHAIN=local go test -json -vet=off -count=1 -timeout 25m ./...",
        'source_commits': [],
        'add_only': True,
    },
    'engines': [{
        'name': 'goom-runtime-monitors',
        'path': 'check',
        'serves_properties': [c['property_id'] for c in checks],
        'kind_free_text': 'python driver + Go harnesses overlaid onto /repo; child processes run real goom code under generated/stress workloads while monitors (text-image differ, jump decoder, GC-reachability finalizers, history checkers incl. porcupine, reference decoders, race detector, strace mprotect log) observe; see DESIGN.md',
    }],
    'checks': checks,
    'not_applicable': na,
    'notes': 'exit 0 = held on what was observed; 1 = VIOLATION line(s); 2 = INCONCLUSIVE (watchdog/build/too few observations), never a VIOLATION line. Known findings: known_findings.json.',
}
json.dump(m, open(os.path.join(HERE, 'MANIFEST.json'), 'w'), indent=1)
print('MANIFEST.json: %d checks, %d not_applicable' % (len(checks), len(na)))
