#!/usr/bin/env python3
# lib/triage.py <mutant_dir> <placement-relative-path> <check ids,comma> [--keep <seeded-id>]
# 1. confirms in a scratch worktree of /repo HEAD that the demo passes without and fails with the patch and that the
#    45 stable baseline tests still pass with it; 2. applies the patch to /repo, runs the named quick checks, reverts.
import json, os, shutil, subprocess, sys, time
ENV = dict(os.environ, GOFLAGS='-mod=mod', GOPROXY='off', GOSUMDB='off', GOTOOLCHAIN='local')
WT = '/tmp/mw-%d' % os.getpid()


def sh(cmd, cwd=None, timeout=1800):
    p = subprocess.run(cmd, cwd=cwd, env=ENV, shell=isinstance(cmd, str), stdout=subprocess.PIPE, stderr=subprocess.STDOUT, text=True, timeout=timeout)
    return p.returncode, p.stdout


def baseline(cwd):
    base = json.load(open('/root/.vp/BASELINE.json'))
    rc, out = sh(['go', 'test', '-json', '-vet=off', '-count=1', '-timeout', '25m', './...'], cwd=cwd)
    passed = set()
    for l in out.splitlines():
        try:
            e = json.loads(l)
        except Exception:
            continue
        if e.get('Action') == 'pass' and e.get('Test'):
            passed.add('%s::%s' % (e['Package'], e['Test']))
    return [t for t in base['stable_pass'] if t not in passed]


def main():
    mdir, place, checks = sys.argv[1], sys.argv[2], sys.argv[3].split(',')
    patch = os.path.join(mdir, 'patch.diff')
    res = {'mutant': mdir, 'placement': place, 'checks': {}}
    if os.path.exists(WT):
        sh(['git', '-C', '/repo', 'worktree', 'remove', '--force', WT])
        shutil.rmtree(WT, ignore_errors=True)
    sh(['git', '-C', '/repo', 'worktree', 'add', '-q', '--detach', WT, 'HEAD'])
    try:
        demo = os.path.join(WT, place)
        os.makedirs(os.path.dirname(demo), exist_ok=True)
        shutil.copy(os.path.join(mdir, 'demo_test.go'), demo)
        pkg = './' + os.path.dirname(place)
        runname = os.environ.get('DEMO_RUN', '.')
        rc0, out0 = sh(['go', 'test', '-vet=off', '-count=1', '-gcflags=all=-l', '-run', runname, pkg], cwd=WT)
        res['demo_without_patch'] = 'PASS' if rc0 == 0 else 'FAIL'
        rc, out = sh(['git', 'apply', patch], cwd=WT)
        if rc != 0:
            res['error'] = 'patch does not apply: ' + out[-300:]
            print(json.dumps(res, indent=1))
            return 1
        rc1, out1 = sh(['go', 'test', '-vet=off', '-count=1', '-gcflags=all=-l', '-run', runname, pkg], cwd=WT)
        res['demo_with_patch'] = 'PASS' if rc1 == 0 else 'FAIL'
        res['demo_with_patch_tail'] = out1[-600:]
        os.remove(demo)
        if os.path.dirname(place).startswith('zzdemo'):
            shutil.rmtree(os.path.dirname(demo), ignore_errors=True)
        missing = baseline(WT)
        res['baseline_missing_with_patch'] = missing
    finally:
        sh(['git', '-C', '/repo', 'worktree', 'remove', '--force', WT])
        shutil.rmtree(WT, ignore_errors=True)
    # run the checks against a scratch worktree with the patch applied (VERIF_REPO), /repo itself stays untouched
    WC = '/tmp/mwc-%d' % os.getpid()
    if os.path.exists(WC):
        sh(['git', '-C', '/repo', 'worktree', 'remove', '--force', WC])
        shutil.rmtree(WC, ignore_errors=True)
    sh(['git', '-C', '/repo', 'worktree', 'add', '-q', '--detach', WC, 'HEAD'])
    try:
        rc, out = sh(['git', 'apply', patch], cwd=WC)
        if rc != 0:
            res['error'] = 'patch does not apply: ' + out[-300:]
        else:
            ENV['VERIF_REPO'] = WC
            for cid in checks:
                t = time.time()
                rc, out = sh(['./check', cid, os.environ.get('TIER', 'quick')], cwd='/verif', timeout=3600)
                keys = sorted(set(l.split('key=')[1].split(' ')[0] for l in out.splitlines() if 'key=' in l and 'KNOWN-FINDING' not in l))
                res['checks'][cid] = {'exit': rc, 'keys': keys, 'secs': round(time.time() - t, 1), 'last': out.strip().splitlines()[-1][:200] if out.strip() else ''}
    finally:
        ENV.pop('VERIF_REPO', None)
        sh(['git', '-C', '/repo', 'worktree', 'remove', '--force', WC])
        shutil.rmtree(WC, ignore_errors=True)
        shutil.rmtree(os.path.join('/verif/.build', 'bin-' + os.path.basename(WC)), ignore_errors=True)
    print(json.dumps(res, indent=1))
    return 0


if __name__ == '__main__':
    sys.exit(main())
