#!/bin/bash
# lib/seed_wave.sh <suffix for MUTANT_A> <suffix for MUTANT_B> <property ids...>
# Takes the deliveries of one wave of sub-agents (/tmp/wt/<id>/MUTANT_{A,B}), stores them as seeded/<id>-<suffix>/ and
# runs lib/triage.py on each (demo passes without / fails with the change, 45 baseline tests still pass, the property's
# own quick check against the changed code).  Three at a time.
cd /verif
sa=$1; sb=$2; shift 2
one() { # prop X suffix
  src=/tmp/wt/$1/MUTANT_$2; id=$1-$3
  [ -d $src ] || { echo "$id not delivered"; return; }
  place=$(sed -n 's#^// PLACE: *##p' $src/demo_test.go | head -1 | tr -d '\r '); run=$(sed -n 's#^// RUN: *##p' $src/demo_test.go | head -1 | tr -d '\r ')
  [ -z "$place" ] && place=zzdemo_$2/demo_test.go; [ -z "$run" ] && run=.
  mkdir -p seeded/$id; cp $src/patch.diff $src/demo_test.go seeded/$id/; cp $src/README.md seeded/$id/README.md 2>/dev/null
  DEMO_RUN="$run" python3 lib/triage.py $src "$place" $1 > seeded/$id/triage.json 2>&1
  python3 -c "
import json
try:
  r=json.load(open('seeded/$id/triage.json'));print('$id',r.get('demo_without_patch'),'->',r.get('demo_with_patch'),len(r.get('baseline_missing_with_patch',['?'])),{k:(v['exit'],v['keys'][:4]) for k,v in r.get('checks',{}).items()},r.get('error','')[:100])
except Exception as e: print('$id UNPARSEABLE', open('seeded/$id/triage.json').read()[-300:])"
}
export -f one
for p in "$@"; do echo "$p A $sa"; echo "$p B $sb"; done | xargs -P 3 -L 1 bash -c 'one $0 $1 $2'
