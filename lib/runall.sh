#!/bin/bash
# usage: lib/runall.sh quick|thorough [seed]   -- runs every check, prints one line each
tier=${1:-quick}; seed=${2:-1}
cd "$(dirname "$0")/.."
bad=0
for id in C01 C02 C03 C04 C05 C06 C07 C08 C09 C10 C11 C12 C13 C14 C15 C16 C17 C18 C19 C20; do
  s=$(date +%s)
  out=$(VERIF_SEED=$seed ./check $id $tier 2>&1); rc=$?
  e=$(date +%s)
  echo "$id rc=$rc $((e-s))s $(echo "$out" | tail -1)"
  if [ $rc -ne 0 ]; then bad=1; echo "$out" | grep -E "VIOLATION|INCONCLUSIVE|key=" | head -6; fi
done
exit $bad
