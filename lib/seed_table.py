#!/usr/bin/env python3
# Rewrites DESIGN.md section 9 (seeded changes) from seeded/*/meta.json.
import json, glob, os
HERE = os.path.dirname(os.path.dirname(os.path.abspath(__file__)))
rows = []
# changes no check reports, on purpose: what they alter is not settled by the property's statement (DESIGN section 3)
OUTSIDE = {
    'C02-Z': 'none - outside the statement as read: the outcome of one builder resetting a second time after another builder took the function over (section 3)',
    'C11-Z': 'none - outside the statement as read: callers of a function while its own builder resets it (section 3)',
}
for d in sorted(glob.glob(os.path.join(HERE, 'seeded', '*', 'meta.json'))):
    m = json.load(open(d))
    caught = []
    for cid, v in (m.get('checks') or {}).items():
        if v.get('exit') == 1:
            caught.append('%s (%s)' % (cid, ', '.join(k.split('/')[1] for k in v['keys'][:2])))
    rows.append('| %s | %s | %s | %s |' % (m['id'], m['change'], m['needs_to_manifest'], '; '.join(caught) or OUTSIDE.get(m['id'], 'MISSED')))
intro = open(os.path.join(HERE, 'lib', 'seed_intro.md')).read()
p = os.path.join(HERE, 'DESIGN.md')
s = open(p).read()
s = s[:s.index('\n## 9. Seeded changes')]
open(p, 'w').write(s.rstrip('\n') + '\n' + intro.replace('{N}', str(len(rows))) +
                   '\n| id | change | needs | caught by (first keys) |\n|----|--------|-------|------------------------|\n' + '\n'.join(rows) + '\n')
print(len(rows), 'rows')
