#!/usr/bin/env python3
# Writes /tmp/wt/<id>.prompt for every property: the text handed to an independent sub-agent that is asked for two
# property-breaking changes in its own scratch worktree /tmp/wt/<id> (it sees nothing of /verif but this text, which
# contains only the property and one-line descriptions of the changes other agents tried before).
import json, glob
props = {json.loads(l)['id']: json.loads(l) for l in open('/verif/properties.jsonl')}
meta = {}
for f in sorted(glob.glob('/verif/seeded/*/meta.json')):
    m = json.load(open(f))
    meta.setdefault(m['property'], []).append(m['change'] + ' (needs: ' + m['needs_to_manifest'] + ')')
for pid in sorted(props):
    p = props[pid]
    prev = '\n'.join('  - ' + x for x in meta.get(pid, []))
    t = f'''You are helping test a verification framework by playing the role of a developer who introduces a subtle bug.

You have your own scratch git worktree of the Go library Tencent/goom (a unit-test mocking library that monkey-patches function machine code at runtime) at /tmp/wt/{pid} . Work ONLY inside that directory. Do not read or touch /verif, /repo, or any other /tmp/wt/* directory. Do NOT use `git stash` (the stash is shared between worktrees): toggle your change with `git apply` / `git apply -R` or `git checkout -- <file>` instead.

Environment: no network. For every go command export: GOFLAGS=-mod=mod GOPROXY=off GOSUMDB=off GOTOOLCHAIN=local . goom requires building tests with -gcflags=all=-l (no inlining). The repository's own test suite is run with:
  cd /tmp/wt/{pid} && go test -vet=off -count=1 -timeout 25m ./...
On the unchanged tree exactly these tests FAIL already (ignore them, they are known-broken): internal/patch TestOnInstanceMethod; internal/proxy TestPrintMock, TestProxy_fixIns, TestStaticProxyConcurrent, TestStaticProxyConcurrent1, TestStaticProxyConcurrentOnce. The root package additionally aborts in TestCompatibility (needs network) on the unchanged tree too. Every other test passes (45 stable tests counting sub-tests) and MUST STILL PASS after your change.

The property under test ({pid}: {p['title']}):
"{p['statement']}"
It is quantified over: {p['quantifier']['text']}
Code anchors: {', '.join(p['anchors']['files'])}

Other people have already tried the following changes against this property; yours must use a DIFFERENT mechanism and a DIFFERENT code location than each of these (be creative: look at less obvious files and code paths that the property still depends on, at other clauses of the property than the ones attacked so far, and at conditions nobody has combined yet):
{prev}

Your task: produce TWO independent source changes to goom (call them A and B, different mechanisms, each a realistic mistake a maintainer could make in a refactor or "optimisation") such that, for each one separately:
 1. the library still compiles and the existing test suite still passes (same 45 stable tests pass);
 2. the property above is violated, but only under something specific: a particular interleaving, a particular fault or input, a multi-step sequence of operations, an unusual argument/signature/address, or two cooperating sites that each look fine alone. It must NOT be something every ordinary use exposes at once (for example it must not break the README's basic examples);
 3. you provide a demonstration: a small Go test file (its own package directory inside the worktree, /tmp/wt/{pid}/zzdemo_A/demo_test.go resp. zzdemo_B; if you need access to unexported identifiers you may instead make it an in-package _test.go file and say so) that FAILS with your change applied and PASSES on the unchanged tree. Run it both ways yourself with: go test -vet=off -count=1 -gcflags=all=-l ./zzdemo_A/ and report the outputs.
Only change non-test .go files of goom for the bug itself (do not edit existing tests). Keep each change small (a few lines).

Deliverables, written into the worktree:
  /tmp/wt/{pid}/MUTANT_A/patch.diff   (output of `git diff` for change A only, applicable with `git apply` on the unchanged tree)
  /tmp/wt/{pid}/MUTANT_A/demo_test.go (copy of the demonstration test; FIRST LINE must be a comment of the exact form `// PLACE: <path relative to the goom root>` e.g. `// PLACE: zzdemo_A/demo_test.go` or `// PLACE: internal/patch/zz_demo_a_test.go`, SECOND LINE `// RUN: <regexp for -run>` e.g. `// RUN: .` or `// RUN: TestDemoA`)
  /tmp/wt/{pid}/MUTANT_A/README.md    (what the change is, which part of the property it breaks, what is needed for it to manifest, commands you ran and their results with and without the change)
  /tmp/wt/{pid}/MUTANT_A/go.mod       (containing just `module zzmutant`, so that `go test ./...` from the worktree root ignores the directory)
  and the same under MUTANT_B/.
Remove the zzdemo_* directories / in-package demo files and leave the worktree's tracked files UNCHANGED at the end; only the MUTANT_* directories (untracked) should remain. In your final message summarise both changes in 5-10 lines each.'''
    open('/tmp/wt/%s.prompt' % pid, 'w').write(t)
print('ok')
