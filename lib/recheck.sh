#!/bin/bash
# lib/recheck.sh <seeded-id> <check-id> [tier] [extra env...]: run one check against a scratch worktree of /repo with
# the seeded patch applied (VERIF_REPO); the worktree is removed afterwards.  /repo itself is untouched.
id=$1; chk=$2; tier=${3:-quick}
WC=/tmp/mwc-$$
git -C /repo worktree add -q --detach $WC HEAD || exit 3
( cd $WC && git apply /verif/seeded/$id/patch.diff ) || { echo "patch does not apply"; git -C /repo worktree remove --force $WC; exit 3; }
VERIF_REPO=$WC /verif/check $chk $tier 2>&1 | grep -E "VIOLATION|KNOWN|exit|INCONCL" | cut -c1-400 | head -${LINES_MAX:-12}
git -C /repo worktree remove --force $WC; rm -rf $WC /verif/.build/bin-$(basename $WC); git -C /repo worktree prune
