NOT_BUILT = {}

add('C17', 'exploration', 'differential runtime monitor vs reference decoder over enumerated instruction words (exhaustive 2^32 in thorough)',
    'Both decoders are run on every enumerated word (all 2^32 in the thorough tier, exhaustive: true) and the monitor compares decodability, opcode and PC-relative operands and catches panics from Decode and String; a finite space enumerated completely is as strong as execution-based checking gets.',
    'Trusts the upstream golang.org/x/arch arm64 decoder vendored in GOROOT as reference; the excluded class is fixed by encoding (word & 0xFFC00000 == 0xD5000000).',
    'DESIGN.md 2 C17')
