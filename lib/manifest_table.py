NOT_BUILT = {}

add('C17', 'exploration', 'differential runtime monitor vs reference decoder over enumerated instruction words (exhaustive 2^32 in thorough)',
    'Both decoders are run on every enumerated word (all 2^32 in the thorough tier, exhaustive: true) and the monitor compares decodability, opcode and PC-relative operands and catches panics from Decode and String; a finite space enumerated completely is as strong as execution-based checking gets.',
    'Trusts the upstream golang.org/x/arch arm64 decoder vendored in GOROOT as reference; the excluded class is fixed by encoding (word & 0xFFC00000 == 0xD5000000).',
    'DESIGN.md 2 C17')

add('C16', 'exploration', 'differential runtime monitor vs reference decoder over every instruction of large Go binaries + structural totality fuzzing',
    'goom\'s decoder and the upstream decoder are run in lock-step over every pclntab function of several Go toolchain binaries (millions of compiler-emitted instructions) and on millions of random / bit-mutated byte strings under recover with structural bounds on Len/PCRel/PCRelOff; sampled, not exhaustive, over byte strings.',
    'Trusts upstream golang.org/x/arch/x86asm (GOROOT vendor copy) as reference; positions the reference cannot decode have no oracle and are counted.',
    'DESIGN.md 2 C16')

add('C15', 'exploration', 'runtime monitor: real emitters driven over exhaustive 16-bit lanes and the rel32 decision band, bytes interpreted symbolically via reference decoders',
    'The emitters themselves are executed on every value of each 16-bit lane (several bases), every offset in a band around the +-2GiB decision boundary and random pairs; the bytes are decoded by the reference decoders and the resulting control transfer is computed and compared with the request. Exhaustive per lane and across the band, sampled elsewhere.',
    'Trusts the reference decoders; arm64 emitters are the current /repo sources compiled for amd64 (pure Go).',
    'DESIGN.md 2 C15')

add('C20', 'exploration', 'offline interval-disjointness checker over recorded allocation histories under spin-barrier stress; fault injection of mmap failure (RLIMIT_AS, size, seccomp filters); consumer workload (interface mocks) past exhaustion',
    'The real allocator is hammered by 1-64 goroutines released together, thousands of rounds over many processes; every granted region is recorded and checked offline for overlap/containment/size; the public Acquire path is checked for rwx, write/read-back and by executing a written stub; the mmap-failure dispatch is provoked for real. Schedules are sampled (the evidence counts time-overlapping requests).',
    'Schedules are those 16 cores produce; bump-pointer reset between rounds is treated as starting a new history.',
    'DESIGN.md 2 C20')

add('C14', 'exploration', 'whole-text-image differ + /proc/self/maps page-permission monitor after every patch step; strace mprotect event log checked offline; the boundary sweeps again under a seccomp W^X policy',
    'Real patch/unpatch and WriteTo calls are executed on thousands of functions, synthetic short/straddling functions and boundary-crossing writes; after every step the complete executable image is compared with its pristine copy and page permissions are read back; a second run under strace checks that no mprotect ever drops PROT_EXEC and every touched page ends R|X.',
    'Image monitor covers file-backed executable mappings of the test binary; synthetic cases live in a harness mapping; the strace pass uses a reduced case list.',
    'DESIGN.md 2 C14')

add('C03', 'translation_validation', 'runtime translation validation of every trampoline goom builds (reference-decoder lock-step) + execution monitor over a generated zoo under stack-headroom sweeps',
    'Every function of an ~11.8k-function binary is handed to the real fixOrigin path and the produced trampoline is validated instruction by instruction against the original prologue (same instruction, same absolute targets, correct return jump, confinement); refusals are checked to leave everything untouched. A generated zoo is executed through the public API under warm / fresh-goroutine / depth-sweep regimes with result and callback-count oracles. programs = trampolines validated.',
    'Trusts the reference x86 decoder; population = functions linkable here with the repo toolchain (go1.23.5); far (non-text) placeholders are outside the property\'s domain.',
    'DESIGN.md 2 C03')

add('C05', 'exploration', 'exact-cursor monitor on sequential histories; recorded concurrent histories checked offline by porcupine (monotone-cursor model) and a real-time-order checker; Go race detector',
    'Thousands of generated stub configurations are driven by random call interleavings against an exact per-stub cursor; under concurrency (race build and plain build, spin-barrier release, 2-32/64 goroutines) every operation is recorded at the client boundary from one atomic clock and the history is checked by porcupine and by a direct order check; race reports are counted from the detector log. Schedules are sampled; the evidence counts overlapping operations and lost-update histories actually seen.',
    'Concurrency clause asserted exactly as stated (element of sequence, never backwards, sticky last), not k-th-call-gets-k-th-element; porcupine timeouts are inconclusive.',
    'DESIGN.md 2 C05')

add('C04', 'exploration', 'reference-interpreter monitor over generated stub configurations and real calls',
    'Thousands of generated well-formed configurations (default + overlapping When/In clauses with plain values, Any, In) on fixed, variadic (0-3 leading fixed) and method targets are exercised by real calls through the patched code; each outcome (value or "no suitable condition" panic) is compared with a 40-line interpreter of the documented rule. Sampled over configurations and argument tuples; evidence counts the first-match-wins cases with 2+ matching clauses.',
    'Equality in the interpreter is reflect.DeepEqual on same-typed values (pointers by pointee); When.Eval is cross-checked only for plain functions; a first When on a variadic target is generated with at least one variadic element (fewer is C13 territory).',
    'DESIGN.md 2 C04')

add('C09', 'exploration', 'table-driven delivery monitor through real stubbed functions (memory image / identity / dynamic type / typed-zero / configuration-time rejection oracles)',
    'Every (declared type, supplied value, API form) cell of a generated table is configured through the public API and the value the caller actually receives is compared with the supplied one by memory image, identity and dynamic type; size mismatches must be rejected at configuration and leave the target unmocked; unexported types are reached through layout-identical stand-ins. The table is finite and run completely; the type/value space itself is sampled by the table.',
    'For same-size values of a different scalar type the statement fixes no outcome: only silent alteration is flagged.',
    'DESIGN.md 2 C09')

add('C18', 'exploration', 'algebraic-law and Go-equality monitor over generated same-typed value pairs, via Expr.Resolve/Eval and via real When stubs',
    'Hundreds of thousands of generated (pattern, argument) pairs per run over all kinds named by the statement, boundary values and nils; Equals is compared with Go ==/DeepEqual/identity, checked for symmetry, In against the union of Equals, Any for totality, re-evaluation for stability, all under recover; a subset runs through real patched functions.',
    'NaN, +-0 pairs, cross-type coercions and distinct closures of one literal are outside the statement and not generated.',
    'DESIGN.md 2 C18')

add('C08', 'exploration', 'memory-image monitor of mocked variables after every step of generated Set/Apply/Cancel/Reset histories',
    'For 23 variable types x exported/unexported addressing, generated histories are run through the public API; after every step the variable\'s raw memory and a reader in the defining package are compared with the model (mocked value / pre-mock snapshot), and a panic out of Cancel/Reset counts as a violation. Histories are sampled (0-4 sets, 1-2 cancels, repeated lookups).',
    'Unexported interface-typed variables are observed on raw memory only and repaired by the harness (known finding).',
    'DESIGN.md 2 C08')

add('C12', 'exploration', 'last-writer-wins reference-model monitor over generated lookup/Apply/Return/When/Cancel/Reset/Pkg histories',
    'Generated histories over five handle kinds are executed through the public API; after every step the target (and another one) is called and compared with a reference model that asserts only what the statement fixes (later Apply wins, later Return/When after Apply wins, clauses accumulate across lookups, nothing survives Cancel/Reset, Pkg applies to one lookup). Sampled over histories.',
    'Return issued directly after a When chain (chain state extends that clause) is not generated: the statement does not settle it. Both continued and fresh sequence semantics are accepted for repeated Return.',
    'DESIGN.md 2 C12')

add('C13', 'exploration', 'before/after state monitor (behaviour fingerprint, whole text image, interface words) around every generated ill-formed configuration call',
    'Every single-slot corruption of callback signatures, too-few When/Return arguments, size-mismatching return values, unknown names and wrong Interface arguments is applied to unmocked and already-mocked targets; the monitor requires a panic/error with a consistently walkable cause chain, and behaviour, the complete executable image and the interface variable equal to their state before the rejected call, and a correct configuration to work right afterwards. The mistake list is enumerated completely for the 7 targets; signatures are sampled by those targets.',
    'Granularity is one API call; When()/Return() with no argument at all is not a mistake the statement names.',
    'DESIGN.md 2 C13')

add('C10', 'exploration', 'runtime cross-check of every looked-up address against runtime.FuncForPC / &v, under four link modes',
    'Every function symbol of the running binary and 200 generated variables in all data sections are looked up by name through goom\'s symbol-table reader and compared with the address the running process really uses; near-miss and absent names must produce an error; the same sources are rebuilt and re-run stripped (-s, -w) and position-independent. All symbols of the binary are enumerated; link modes are the four listed.',
    'Function names are compared after the runtime\'s own [...] normalisation of generic names; cgo stubs have no runtime name and are checked by entry address only.',
    'DESIGN.md 2 C10')

add('C02', 'exploration', 'whole-text-image differ + reference model after every step of generated and exhaustively enumerated apply/stub/cancel/reset histories',
    'Histories over 18 adjacent targets and 1-3 builders are executed through the public API; after every single step the complete executable image is compared with its pristine copy (differences must be well-formed entry jumps of currently mocked targets or lie in used placeholders) and all targets plus neighbours are called and compared with the model; all histories up to length 3/4 over a 2x2 alphabet are enumerated. Random histories are sampled; the small alphabet is exhaustive to the stated length.',
    'When two builders touch the same target only the unambiguous clauses are asserted (own target restored by own Reset/Cancel; everything pristine once nobody holds it; bytes always pristine or a well-formed jump).',
    'DESIGN.md 2 C02')

add('C06', 'exploration', 'all-pairs isolation monitor: every generated method mocked in turn, every method of every type called through 5 forms on 3 instances',
    'For each method of the generated corpus (per seed) the mock is installed through the public lookup path its kind needs, with Apply (receiver identity recorded) and Return, and the whole corpus is then called and compared with the model (mocked value / original); plus generic instantiations of equal and different GC shape and same-named types in one builder. The corpus is generated per seed (sampled type space), all (mocked, observed) pairs within it are covered.',
    'Same-GC-shape instantiations are excluded from the unaffected set as the statement allows; for pointer-receiver methods called on a copy the receiver identity is not compared.',
    'DESIGN.md 2 C06')

add('C07', 'exploration', 'slot-by-slot dispatch monitor over generated interface types and method subsets; interface-word snapshot compare; finalizer-based GC-reachability monitor on addresses decoded from the stubs',
    'For generated interface types every subset (up to 3, and the full set) of methods is mocked on a nil-start and an implementation-start variable; every slot is called through the variable (exact arguments/results for mocked slots, "method not implements" panic otherwise), the other variable and (after Reset) the variable\'s own two words are compared with their pre-mock values; in half of the cases the builder is dropped, collections are forced and a finalizer attached to the object whose address each stub embeds must not fire while the stub is installed. Interface types are generated per seed (sampled); subsets are enumerated.',
    'GC-reachability is decided by finalizers (definitive witness that the collector considers the object garbage), not by waiting for reuse; collections are disabled between installing a stub and arming its monitor.',
    'DESIGN.md 2 C07')

add('C01', 'exploration', 'transcript monitor (bit-exact caller-side vs replacement-side encodings) over generated signatures x call forms x value tuples x GC / stack-growth regimes, plus finalizer-based GC-reachability monitor on the replacement',
    'Corpora of generated signatures (0-20 parameters, 0-6 results over 35 types, variadic tails; one corpus from seed 0 and one from VERIF_SEED, never committed) are compiled per run; every target is mocked by a typed closure and by stubbed returns and called through 7 call forms with boundary-value tuples, between forced collections and on fresh goroutines under deep recursion; the replacement logs what it receives and the monitor compares encodings, hit counts of the original body and results; the closure whose address the entry jump embeds carries a finalizer that must not fire. Signature/value space sampled; the evidence lists the ABI classes reached.',
    'Values are compared by canonical encoding captured inside the call; results of defer/go forms are discarded by Go and not compared.',
    'DESIGN.md 2 C01')

add('C11', 'exploration', 'Go race detector + result/isolation/image monitors under a page-sharing mocker/caller stress workload',
    'A race-instrumented build runs 2-12 mocker goroutines (own builders, disjoint targets) against 2-24 caller goroutines on steadily mocked, page-sharing functions for several rounds and processes; race reports are collected from the detector log and de-duplicated, every steady call and every mocker-side effect is checked, and the whole image must be pristine at quiescence; the workload is repeated on a plain build at higher speed. Schedules are sampled; the evidence counts steady calls that began while a writer was inside goom.',
    'Steady callbacks that call the origin placeholder return origin|marker so that the recorded C03 re-entry finding cannot surface here; schedules are those 16 cores produce.',
    'DESIGN.md 2 C11')

add('C19', 'exploration', 'transcript differ across logging configurations (separate processes, one seed)',
    'A deterministic scenario suite covering callbacks (incl. variadic and 13-parameter targets), conditional and sequenced stubs, method and interface mocks, panics and values that are hostile to rendering (nil/typed-nil, pointer cycles, unexported fields, panicking String/Error) is executed under five logging configurations in separate processes; every call, argument, result and panic goes to a transcript and the transcripts must be byte-identical. Scenarios are sampled from the seed; the logging configurations are enumerated.',
    'Self-containing maps/slices (which make fmt itself recurse) are not generated; transcripts contain values only, no addresses.',
    'DESIGN.md 2 C19')
