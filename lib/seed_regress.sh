#!/bin/bash
# lib/seed_regress.sh [-P n]: re-runs, for every seeded change, the quick check of its property (plus the other checks
# that are on record as catching it) against a scratch worktree with the change applied (lib/retriage.py); one property
# at a time per worker.  Prints one line per change; "MISSED" lines need attention.
cd /verif
P=${1:-5}
one() {
  p=$1
  extra() { python3 - "$1" <<'PY'
import json,sys,os
sid=sys.argv[1]; own=sid.split('-')[0]
checks=[own]
try:
    t=json.load(open('/verif/seeded/%s/triage.json'%sid))
    for src in ('checks','first_pass_checks'):
        for c,v in (t.get(src) or {}).items():
            if c not in checks and v.get('exit')==1: checks.append(c)
except Exception: pass
more={'C01-F':['C14','C11'],'C04-F':['C18'],'C05-E':['C19'],'C06-F':['C10'],'C07-E':['C19'],'C08-F':['C10'],'C09-F':['C18'],'C10-E':['C06'],'C10-F':['C13'],'C13-E':['C10'],
      'C15-E':['C01'],'C15-F':['C03'],'C20-F':['C14'],'C01-B':['C19'],'C11-B':['C05'],'C01-G':['C12'],'C01-H':['C09'],'C02-H':['C03','C14'],'C03-H':['C14'],'C04-H':['C18'],
      'C06-G':['C12'],'C06-H':['C19','C07'],'C07-G':['C20'],'C09-G':['C18'],'C10-G':['C12'],'C12-G':['C08'],'C14-H':['C20'],'C15-H':['C12','C07'],'C03-G':['C16'],
      'C02-J':['C01'],'C10-J':['C01'],'C03-I':['C11'],'C04-I':['C18'],'C18-I':['C04'],'C05-J':['C04'],'C01-J':['C11'],'C06-J':['C02','C12','C13'],'C15-I':['C14','C20'],'C15-J':['C07'],'C08-J':['C10'],'C13-I':['C04'],
      'C01-K':['C02'],'C03-K':['C02'],'C14-L':['C02'],'C01-L':['C12'],'C02-L':['C11'],'C04-K':['C19'],'C05-K':['C11'],'C05-L':['C04'],'C12-K':['C05'],'C12-L':['C02'],'C20-L':['C14'],'C15-K':['C03'],
      'C07-M':['C20'],'C13-N':['C12'],'C05-M':['C18','C04'],'C18-N':['C11','C05'],'C18-M':['C04'],'C09-N':['C19'],'C02-N':['C06'],'C09-M':['C04'],'C19-N':['C07'],'C12-N':['C06'],'C01-M':['C06'],'C01-N':['C06'],'C05-N':['C12'],
      'C01-O':['C06','C02'],'C01-P':['C13'],'C05-O':['C13'],'C05-P':['C12'],'C09-O':['C18'],'C09-P':['C18','C04'],'C10-P':['C02'],'C11-P':['C19','C05'],'C15-O':['C20'],'C15-P':['C03'],'C07-P':['C12'],
      'C05-Q':['C06'],'C05-R':['C18','C04'],'C06-Q':['C11','C02'],'C07-Q':['C13'],'C09-Q':['C18'],'C09-R':['C13'],'C11-Q':['C14'],'C12-Q':['C07'],'C15-Q':['C14'],'C15-R':['C03'],'C18-R':['C04'],
      'C01-S':['C02'],'C02-S':['C06'],'C09-S':['C04'],'C09-T':['C04'],'C13-S':['C19'],'C15-T':['C02','C03'],'C04-T':['C18'],'C05-T':['C19'],'C12-S':['C07'],'C11-S':['C06'],
      'C01-U':['C13','C09'],'C01-V':['C13'],'C04-U':['C05'],'C05-U':['C18'],'C06-U':['C11'],'C09-U':['C18'],'C10-U':['C12'],'C11-U':['C02','C03'],'C12-U':['C07'],'C12-V':['C07'],'C14-U':['C11'],'C14-V':['C03'],'C15-U':['C03'],'C15-V':['C12','C07'],'C03-V':['C15'],
      'C01-W':['C12'],'C01-X':['C05'],'C02-W':['C06'],'C02-X':['C06'],'C05-W':['C04'],'C06-W':['C02'],'C06-X':['C02'],'C11-W':['C02','C12'],'C12-X':['C07'],'C15-W':['C03','C02'],'C03-X':['C19'],
      'C18-Y':['C04'],'C01-Y':['C02'],'C01-Z':['C04'],'C09-Z':['C18'],'C13-Z':['C02'],'C04-Z':['C13'],'C07-Z':['C12'],'C05-Y':['C04'],'C05-Z':['C06'],'C12-Y':['C06'],'C15-Z':['C07']}
for c in more.get(sid,[]):
    if c not in checks: checks.append(c)
print(','.join(checks))
PY
  }
  for d in seeded/$p-*; do id=$(basename $d); r=$(python3 lib/retriage.py $id $(extra $id) 2>&1 | tail -1); if echo "$r" | grep -q "(1, \["; then echo "$r"; else echo "MISSED $r"; fi; done
}
export -f one
(for i in $(seq -w 1 20); do echo C$i; done) | xargs -P $P -n 1 bash -c 'one "$0"'
