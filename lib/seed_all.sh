#!/bin/bash
# Re-confirms every delivered mutant and stores it under /verif/seeded/<id>/ (patch.diff, demo_test.go, README.md, meta.json)
cd /verif
store() { # id srcdir placement checks [demo_run]
  id=$1; src=$2; place=$3; checks=$4; run=${5:-.}
  mkdir -p seeded/$id
  cp $src/patch.diff seeded/$id/patch.diff
  cp $src/demo_test.go seeded/$id/demo_test.go
  cp $src/README.md seeded/$id/README.md 2>/dev/null
  DEMO_RUN=$run python3 lib/triage.py $src $place $checks > seeded/$id/triage.json 2>&1
  echo "$id stored"
}
for p in C02 C03 C04 C05 C08 C13 C14; do for x in A B; do store $p-$x /tmp/wt/$p/MUTANT_$x zzdemo_$x/demo_test.go $p; done; done
store C12-A /tmp/c12a zzdemo_A/demo_test.go C12
store C12-B /tmp/wt/C12/MUTANT_B zzdemo_B/demo_test.go C12
store C04-B /tmp/wt/C04/MUTANT_B zzdemo_B/demo_test.go C04,C18
store C15-A /tmp/wt/C15/MUTANT_A internal/patch/zz_c15a_demo_test.go C15 TestC15A
store C15-B /tmp/wt/C15/MUTANT_B internal/iface/zz_c15b_demo_test.go C15 TestC15B
store C20-A /tmp/wt/C20/MUTANT_A internal/bytecode/stub/zz_demo_a_test.go C20 TestDemoA
store C20-B /tmp/wt/C20/MUTANT_B internal/bytecode/stub/zz_demo_b_test.go C20 TestDemoB
